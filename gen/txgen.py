"""Transaction cases (JSON) <-> reference model (oracles.refser dicts) <-> pycoin objects, and strategies.

Case form of a transaction:

    {"version": int, "lock_time": int,
     "ins":  [{"prev": hex64 (bytes as on the wire), "index": int, "script": BLOB, "sequence": int, "witness": [BLOB, ...]}, ...],
     "outs": [{"value": int, "script": BLOB}, ...],
     "xins": n, "xouts": n          # optional: n further procedurally generated inputs / outputs (count boundaries)
     "pad": {"where": "in"|"out", "pos": k, "size": target, "of": "stripped"|"total"}   # optional, see expand_tx
    }

BLOB is either a hex string or [length, seed] (a deterministic pattern of that length), so that 64 KiB scripts
and megabyte paddings keep the replay file small.
"""
import hashlib

from hypothesis import strategies as st

from gen.common import boundary_ints
from oracles import refser

_CYCLE = bytes((i * 7 + 3) % 251 + 1 for i in range(251))     # 251 distinct-ish non-zero bytes, prime period

U32 = 0xFFFFFFFF
U64 = 0xFFFFFFFFFFFFFFFF
SIZE_BOUNDS = [0, 1, 2, 0xFC, 0xFD, 0xFE, 0xFF, 0x100, 0x101, 0x12C, 0xFFFF, 0x10000, 0x10001]


def blob(spec):
    if isinstance(spec, str):
        return bytes.fromhex(spec)
    n, seed = spec
    if n == 0:
        return b""
    off = seed % 251
    reps = (n + off) // 251 + 1
    return (_CYCLE * reps)[off:off + n]


def blob_len(spec):
    return len(spec) // 2 if isinstance(spec, str) else spec[0]


def _xin(i):
    return {"prev": ((i + 1) & U32).to_bytes(4, "little") * 8, "index": i & U32, "script": bytes([i & 0xFF]) * (i % 3),
            "sequence": (U32 - i) & U32, "witness": []}


def _xout(i):
    return {"value": i, "script": bytes([0x51 + (i % 16)]) * (i % 2)}


def expand_tx(c):
    """case -> refser model"""
    ins = [{"prev": bytes.fromhex(i["prev"]), "index": i["index"], "script": blob(i["script"]), "sequence": i["sequence"],
            "witness": [blob(w) for w in i.get("witness", [])]} for i in c["ins"]]
    ins += [_xin(k) for k in range(c.get("xins", 0))]
    outs = [{"value": o["value"], "script": blob(o["script"])} for o in c["outs"]]
    outs += [_xout(k) for k in range(c.get("xouts", 0))]
    m = {"version": c["version"], "ins": ins, "outs": outs, "lock_time": c["lock_time"]}
    pad = c.get("pad")
    if pad:
        lst = m["ins"] if pad["where"] == "in" else m["outs"]
        if lst:
            tgt = lst[pad["pos"] % len(lst)]
            tgt["script"] = b""
            measure = refser.ser_tx_legacy if pad["of"] == "stripped" else refser.ser_tx
            base = len(measure(m)) - 1         # without the one-byte length prefix of the empty script
            want = pad["size"] - base           # = len(compact_size(L)) + L
            for pre in (1, 3, 5, 9):
                n = want - pre
                if n >= 0 and len(refser.compact_size(n)) == pre:
                    tgt["script"] = blob([n, pad.get("seed", 0)])
                    break
    return m


def to_pycoin(Tx, m, unspents=None):
    txs_in = []
    for i in m["ins"]:
        ti = Tx.TxIn(i["prev"], i["index"], i["script"], i["sequence"])
        if i["witness"]:
            ti.witness = list(i["witness"])
        txs_in.append(ti)
    txs_out = [Tx.TxOut(o["value"], o["script"]) for o in m["outs"]]
    tx = Tx(m["version"], txs_in, txs_out, m["lock_time"])
    if unspents is not None:
        tx.set_unspents([Tx.TxOut(u["value"], u["script"]) for u in unspents])
    return tx


def pycoin_fields(tx):
    """field-by-field snapshot of a pycoin Tx in the shape of the refser model"""
    return {"version": tx.version, "lock_time": tx.lock_time,
            "ins": [{"prev": bytes(i.previous_hash), "index": i.previous_index, "script": bytes(i.script),
                     "sequence": i.sequence, "witness": [bytes(w) for w in i.witness]} for i in tx.txs_in],
            "outs": [{"value": o.coin_value, "script": bytes(o.script)} for o in tx.txs_out]}


def model_fields(m):
    return {"version": m["version"], "lock_time": m["lock_time"],
            "ins": [{"prev": i["prev"], "index": i["index"], "script": i["script"], "sequence": i["sequence"],
                     "witness": list(i.get("witness", []))} for i in m["ins"]],
            "outs": [{"value": o["value"], "script": o["script"]} for o in m["outs"]]}


def first_difference(a, b, path=""):
    """short description of the first differing field of two model-shaped values (or None)"""
    if type(a) is not type(b) and not (isinstance(a, (bytes, int)) and isinstance(b, (bytes, int))):
        return "%s: type %s vs %s" % (path, type(a).__name__, type(b).__name__)
    if isinstance(a, dict):
        for k in a:
            d = first_difference(a[k], b.get(k), path + "." + k)
            if d:
                return d
        return None
    if isinstance(a, list):
        if len(a) != len(b):
            return "%s: length %d vs %d" % (path, len(a), len(b))
        for k, (x, y) in enumerate(zip(a, b)):
            d = first_difference(x, y, "%s[%d]" % (path, k))
            if d:
                return d
        return None
    if a != b:
        sa = a.hex()[:40] if isinstance(a, bytes) else repr(a)
        sb = b.hex()[:40] if isinstance(b, bytes) else repr(b)
        return "%s: %s vs %s" % (path, sa, sb)
    return None


# ------------------------------------------------------------------------------------------- strategies


def weighted(pairs):
    """[(weight, strategy)] -> strategy (by construction, no rejection)"""
    # sampled_from over an index list expanded by weight: st.integers() is biased towards its end points and
    # would not honour the weights
    strategies = [s for w, s in pairs if w > 0]
    idx = [k for k, (w, _) in enumerate((w, s) for w, s in pairs if w > 0) for _ in range(w)]
    return st.sampled_from(idx).flatmap(lambda k: strategies[k])


def u32s():
    return boundary_ints(0, U32, extra=(0x7FFFFFFF, 0x80000000, 0xFFFFFFFE, 500000000, 499999999))


def amounts():
    return st.one_of(st.sampled_from([0, 1, 2, 2**63 - 1, 2**63, 2**64 - 1, 2**32, 21 * 10**14]),
                     st.integers(0, U64), st.integers(0, 10**9))


def blobs(big=1, max_small=40):
    """scripts / witness items: mostly small, sometimes on a compact-size boundary; `big` scales the rare
    64 KiB class"""
    return weighted([
        (60, st.binary(max_size=max_small).map(bytes.hex)),
        (8, st.just("")),
        (12, st.tuples(st.sampled_from([0xFC, 0xFD, 0xFE, 0xFF, 0x100]), st.integers(0, 250)).map(list)),
        (2 * big, st.tuples(st.sampled_from([0xFFFF, 0x10000, 0x10001]), st.integers(0, 250)).map(list)),
        (4, st.tuples(st.integers(0, 600), st.integers(0, 250)).map(list)),
    ])


def hashes32():
    return weighted([
        (70, st.binary(min_size=32, max_size=32).map(bytes.hex)),
        (10, st.integers(0, 255).map(lambda b: bytes([b]).hex() * 32)),
        (10, st.tuples(st.integers(0, 31), st.integers(1, 255)).map(
            lambda t: (b"\0" * t[0] + bytes([t[1]]) + b"\0" * (31 - t[0])).hex())),
        (10, st.just("00" * 32)),
    ])


def witness_stacks(big=1):
    return weighted([
        (45, st.just([])),
        (35, st.lists(blobs(big), min_size=1, max_size=4)),
        (8, st.just([""])),
        (6, st.lists(st.just(""), min_size=1, max_size=3)),
        (3, st.sampled_from([0xFC, 0xFD, 0xFE, 0x100, 0x101]).flatmap(
            lambda n: st.sampled_from(["", "00", "ab" * 3]).map(lambda item: [item] * n))),
        (3, st.builds(lambda a, b: [a, "", b], blobs(big), blobs(big))),
    ])


def txins(big=1, witness=True):
    w = witness_stacks(big) if witness else st.just([])
    return st.builds(lambda p, i, s, q, wit: {"prev": p, "index": i, "script": s, "sequence": q, "witness": wit},
                     hashes32(), u32s(), blobs(big), u32s(), w)


def txouts(big=1):
    return st.builds(lambda v, s: {"value": v, "script": s}, amounts(), blobs(big))


def txs(big=1, min_ins=1, max_ins=4, max_outs=4, counts=True, witness=True):
    """transactions with >= min_ins inputs; `counts` enables the rare 0xfc/0xfd/0xfe input/output counts"""
    rare = 6 if counts is True else counts
    extra = weighted([(100 - rare, st.just(0)), (rare, st.sampled_from([0xFC, 0xFD, 0xFE, 0x100, 0x101, 0x12C]))]) if counts else st.just(0)

    def mk(version, lock_time, ins, outs, xi, xo):
        c = {"version": version, "lock_time": lock_time, "ins": ins, "outs": outs}
        if xi:
            c["xins"] = max(0, xi - len(ins))
        if xo:
            c["xouts"] = max(0, xo - len(outs))
        return c
    return st.builds(mk, u32s(), u32s(), st.lists(txins(big, witness), min_size=min_ins, max_size=max_ins),
                     st.lists(txouts(big), min_size=0, max_size=max_outs), extra, extra)


def small_txs(witness=True):
    """compact transactions for embedding in p2p messages and blocks (one in fifty with 252..300 inputs or outputs)"""
    return txs(big=0, max_ins=3, max_outs=3, counts=2, witness=witness)


def tx_summary_labels(m):
    """labels describing which compact-size classes and witness shapes a model exercises"""
    labels = set()

    def cls(n, what):
        if n >= 0x10000:
            labels.add(what + ">=0x10000")
        elif n >= 0xFD:
            labels.add(what + ">=0xfd")
        elif n == 0xFC:
            labels.add(what + "=0xfc")
    cls(len(m["ins"]), "n_in")
    cls(len(m["outs"]), "n_out")
    if not m["outs"]:
        labels.add("n_out=0")
    for i in m["ins"]:
        cls(len(i["script"]), "script")
        cls(len(i["witness"]), "wit_items")
        for w in i["witness"]:
            cls(len(w), "wit_item_len")
            if not w:
                labels.add("wit_empty_item")
    for o in m["outs"]:
        cls(len(o["script"]), "script")
        if o["value"] >= 2**63:
            labels.add("value>=2^63")
    nw = sum(1 for i in m["ins"] if i["witness"])
    if nw == 0:
        labels.add("witness=none")
    elif nw == len(m["ins"]):
        labels.add("witness=all")
    else:
        labels.add("witness=mixed")
    if nw and all(not any(i["witness"]) for i in m["ins"]):
        labels.add("witness=only-empty-items")
    return labels


def crosses_boundary(labels):
    return any(("0x" in x) or x.startswith("wit") and x != "witness=none" for x in labels)


def digest(b):
    return hashlib.sha256(b).hexdigest()[:16]
