"""Deterministic assembler from JSON 'recipes' (token lists) to concrete scripts / spends.  No pycoin imports.

Tokens (JSON lists):
  ["op", n]                       one opcode byte
  ["d", hex, enc]                 push of data; enc in min|direct|p1|p2|p4  (direct only if len <= 75, else falls back to min)
  ["n", int, enc]                 push of a script number (enc as above, or "opn": OP_n / OP_1NEGATE / OP_0 where it exists)
  ["raw", hex]                    raw bytes
  ["rep", [tokens], count]        repetition
  ["key", k, form]                public key k of the ring in form c|u|h (hybrid)|hbad (hybrid wrong parity)|xgep|off|
                                  p05 (33 bytes, prefix 05)|short|empty
  ["sig", k, hashtype, variant, cs]   signature by key k over the enclosing signing context; variant see sig_blob();
                                  cs = number of OP_CODESEPARATOR tokens of the lock program to skip for the script code
"""
import hashlib
import struct

from oracles import refec, refecdsa, refsighash, reftx

C = refec.SECP256K1
N, P = C.n, C.p

RING_D = [1, 2, 3, 0x1111111111111111111111111111111111111111111111111111111111111111, N - 1, 7]
RING_Q = [C.mul_fast(d, C.G) for d in RING_D]

# an x >= p whose reduction x - p is the abscissa of a curve point (for the x >= p key form)
_XGEP = None
for _x in range(0, 2**32 + 977):
    if C.ys_for_x(_x):
        _XGEP = _x + P
        break
assert _XGEP < 2**256


def push_min(data):
    n = len(data)
    if n == 0:
        return b"\x00"
    if n == 1 and 1 <= data[0] <= 16:
        return bytes([0x50 + data[0]])
    if n == 1 and data[0] == 0x81:
        return b"\x4f"
    return refsighash.push_encoding(data)


def push_enc(data, enc):
    n = len(data)
    if enc == "direct" and n <= 75:
        return bytes([n]) + data
    if enc == "p1" and n <= 0xff:
        return bytes([0x4c, n]) + data
    if enc == "p2" and n <= 0xffff:
        return b"\x4d" + struct.pack("<H", n) + data
    if enc == "p4":
        return b"\x4e" + struct.pack("<L", n) + data
    return push_min(data)


def scriptnum(n):
    if n == 0:
        return b""
    neg = n < 0
    a = abs(n)
    out = bytearray()
    while a:
        out.append(a & 0xff)
        a >>= 8
    if out[-1] & 0x80:
        out.append(0x80 if neg else 0)
    elif neg:
        out[-1] |= 0x80
    return bytes(out)


def padded_scriptnum(n, form):
    """the same number, not minimally encoded: "pad1"/"pad2" extend with zero bytes (the sign bit moves to the new
    top byte), "to5" extends to five bytes"""
    b = bytearray(scriptnum(n))
    neg = bool(b) and bool(b[-1] & 0x80) and n < 0
    if neg:
        b[-1] &= 0x7f
    extra = {"pad1": 1, "pad2": 2}.get(form, max(1, 5 - len(b)))
    b += b"\0" * extra
    if neg:
        b[-1] |= 0x80
    return bytes(b)


def key_blob(k, form):
    x, y = RING_Q[k % len(RING_Q)]
    xb, yb = x.to_bytes(32, "big"), y.to_bytes(32, "big")
    if form == "c":
        return bytes([2 + (y & 1)]) + xb
    if form == "u":
        return b"\x04" + xb + yb
    if form == "h":
        return bytes([6 + (y & 1)]) + xb + yb
    if form == "hbad":
        return bytes([7 - (y & 1)]) + xb + yb
    if form == "xgep":
        return b"\x02" + _XGEP.to_bytes(32, "big")
    if form == "off":
        return b"\x04" + xb + ((y + 1) % P).to_bytes(32, "big")
    if form == "xnop":
        # well-formed compressed encoding (02/03, 33 bytes, x below the field prime) of an abscissa no curve point has
        xx = x + 1
        while pow((xx * xx * xx + 7) % P, (P - 1) // 2, P) == 1:
            xx += 1
        return bytes([2 + (y & 1)]) + xx.to_bytes(32, "big")
    if form == "p05":
        return b"\x05" + xb
    if form == "short":
        return (bytes([2 + (y & 1)]) + xb)[:32]
    if form == "empty":
        return b""
    raise ValueError(form)


def der_int(v, pad=0, neg=False):
    b = v.to_bytes(max(1, (v.bit_length() + 7) // 8), "big")
    if b[0] & 0x80 and not neg:
        b = b"\0" + b
    b = b"\0" * pad + b
    return b


# name -> (which length, number of length bytes, extra leading zero content bytes | junk value of sequence length bytes)
LAX_LEN_FORMS = {
    "rlen82": ("r", 2, 0), "rlen83": ("r", 3, 0), "rlen84": ("r", 4, 0), "rlen87": ("r", 7, 0),
    "slen83": ("s", 3, 0), "slen84": ("s", 4, 0), "slen8c": ("s", 12, 0),
    "rlen84nz": ("r", 4, 260), "slen85nz": ("s", 5, 300),   # two significant length bytes after the zero length bytes
    "seq80": ("seq", 0, 0), "seq83junk": ("seq", 3, 0xa5), "seq84": ("seq", 4, 0),
}


def sig_blob(k, hash_type, variant, z_fn):
    """z_fn(hash_type) -> digest integer (or None).  Returns the signature blob incl. hash type byte."""
    if variant == "empty":
        return b""
    d = RING_D[k % len(RING_D)]
    z = z_fn(hash_type)
    if z is None or z == 0:
        z = 1
    if variant == "wrongkey":
        d = RING_D[(k + 1) % len(RING_D)]
    if variant == "wrongmsg":
        z = (z + 1) % 2**256 or 1
    r, s, _k, _R = refecdsa.sign(C, d, z)
    if s > N // 2:
        s = N - s
    if variant == "highs":
        s = N - s
    rb, sb = der_int(r), der_int(s)
    if variant == "padr":
        rb = b"\0" + rb
    if variant == "pads":
        sb = b"\0" + sb
    if variant == "negr" and rb[0] == 0 and len(rb) > 1:
        rb = rb[1:]                 # guard byte dropped: R reads as negative
    if variant == "negs":
        sb = der_int(N - s if s <= N // 2 else s)
        if sb[0] == 0 and len(sb) > 1:
            sb = sb[1:]             # high S without its guard byte: reads as negative
    if variant == "s-lastlow":      # (n-1)/2: the largest S that LOW_S accepts (signature itself will not verify)
        sb = der_int((N - 1) // 2)
    if variant == "s-firsthigh":    # (n+1)/2: the smallest S that LOW_S must refuse
        sb = der_int((N + 1) // 2)
    if variant == "s-halfp":        # (p-1)/2 > n/2: low with respect to the field prime only
        sb = der_int((P - 1) // 2)
    if variant == "r0":
        rb = b"\0"
    if variant == "s0":
        sb = b"\0"
    if variant == "rn":
        rb = der_int(N)
    if variant == "sn":          # S = group order: overflows, consensus treats the signature as (0, 0) - low, and invalid
        sb = der_int(N)
    if variant == "smax":        # S = 2^256 - 1
        sb = der_int(2**256 - 1)
    if variant == "sn+low":      # S = n + a small value
        sb = der_int(N + 5)
    if variant == "r33":
        rb = b"\x01" + b"\0" * 32
    body = b"\x02" + bytes([len(rb)]) + rb + b"\x02" + bytes([len(sb)]) + sb
    seqlen = len(body)
    if variant == "seqlen+1":
        seqlen += 1
    if variant == "seqlen-1":
        seqlen -= 1
    if variant in LAX_LEN_FORMS:
        # lax-DER length forms (only the non-strict parser reads these): long-form integer lengths with 0..n leading
        # zero length bytes (consensus skips the zeros, then allows at most 3 significant bytes), and long-form
        # sequence lengths whose length bytes consensus skips without interpreting them
        which, nbytes, extra = LAX_LEN_FORMS[variant]
        if which == "r":
            rb = b"\0" * extra + rb       # extra leading zero content bytes (lax parsing strips them): lengths > 255
        if which == "s":
            sb = b"\0" * extra + sb

        def lf(length):
            tail = length.to_bytes(max(1, (length.bit_length() + 7) // 8), "big")
            return bytes([0x80 + nbytes]) + b"\0" * (nbytes - len(tail)) + tail
        ri = b"\x02" + (lf(len(rb)) if which == "r" else bytes([len(rb)])) + rb
        si = b"\x02" + (lf(len(sb)) if which == "s" else bytes([len(sb)])) + sb
        if which == "seq":
            der = b"\x30" + bytes([0x80 + nbytes]) + bytes([extra] * nbytes) + ri + si
        else:
            der = b"\x30" + bytes([len(ri + si) & 0xff]) + ri + si
    elif variant == "longlen":
        der = b"\x30\x81" + bytes([seqlen]) + body
    elif variant == "longrlen":
        der = b"\x30" + bytes([seqlen + 1]) + b"\x02\x81" + bytes([len(rb)]) + rb + b"\x02" + bytes([len(sb)]) + sb
    else:
        der = b"\x30" + bytes([seqlen & 0xff]) + body
    if variant == "trail":
        der += b"\x00"
    if variant in ("pad520", "pad521"):
        # zero bytes after S (ignored by the lax parser) up to an element of exactly 520 / 521 bytes incl. the hash type:
        # a signature that still verifies on either side of the stack-element size limit
        der += b"\x00" * (int(variant[3:]) - 1 - len(der))
    if variant == "notseq":
        der = b"\x31" + der[1:]
    if variant == "nohashtype":
        return der
    return der + bytes([hash_type & 0xff])


def ctx_value(case, field, kind):
    base = case.get(field, 0)
    if kind == "eq":
        return base
    if kind == "+1":
        return base + 1
    if kind == "-1":
        return base - 1
    if kind.startswith("bit"):
        return base ^ (1 << int(kind[3:]))
    if kind == "mask16":
        return base & 0xffff
    if kind == "era":
        return base + 500000000 if base < 500000000 else base - 500000000
    if kind == "neg":
        return -base
    if kind == "zero":
        return 0
    if kind == "big5":
        return base | (1 << 32)
    raise ValueError(kind)


def resolve_ctx(tokens, case):
    """replace ["ctxnum", field, kind, enc] tokens by concrete number pushes derived from the case's tx context"""
    out = []
    for t in tokens:
        if t[0] == "ctxnum":
            v = ctx_value(case, t[1], t[2])
            form = t[4] if len(t) > 4 else "min"
            if form == "min":
                out.append(["n", v, t[3]])
            else:
                out.append(["d", padded_scriptnum(v, form).hex(), t[3]])
        elif t[0] == "rep":
            out.append(["rep", resolve_ctx(t[1], case), t[2]])
        else:
            out.append(t)
    return out


def render(tokens, z_fn=None, lock_tokens=None):
    out = bytearray()
    for t in tokens:
        k = t[0]
        if k == "op":
            out.append(t[1] & 0xff)
        elif k == "d":
            out += push_enc(bytes.fromhex(t[1]), t[2])
        elif k == "n":
            if t[2] == "opn" and -1 <= t[1] <= 16:
                out += push_min(scriptnum(t[1]))
            else:
                out += push_enc(scriptnum(t[1]), t[2])
        elif k == "raw":
            out += bytes.fromhex(t[1])
        elif k == "rep":
            out += render(t[1], z_fn, lock_tokens) * max(0, t[2])
        elif k == "key":
            out += push_enc(key_blob(t[1], t[2]), t[3] if len(t) > 3 else "min")
        elif k == "sig":
            blob = sig_blob(t[1], t[2], t[3], (lambda ht, cs=t[4]: z_fn(ht, cs)) if z_fn else (lambda ht: 1))
            out += push_enc(blob, t[5] if len(t) > 5 else "min")
        else:
            raise ValueError("bad token %r" % (t,))
    return bytes(out)


def items(tokens, z_fn):
    """witness stack items: each token contributes the *data* it would push (ops contribute their byte)"""
    out = []
    for t in tokens:
        k = t[0]
        if k == "d":
            out.append(bytes.fromhex(t[1]))
        elif k == "n":
            out.append(scriptnum(t[1]))
        elif k == "key":
            out.append(key_blob(t[1], t[2]))
        elif k == "sig":
            out.append(sig_blob(t[1], t[2], t[3], lambda ht, cs=t[4]: z_fn(ht, cs)))
        elif k == "raw":
            out.append(bytes.fromhex(t[1]))
        elif k == "op":
            out.append(bytes([t[1] & 0xff]))
    return out


def strip_sigs(tokens):
    out = []
    for t in tokens:
        if t[0] == "sig":
            continue
        if t[0] == "rep":
            out.append(["rep", strip_sigs(t[1]), t[2]])
        else:
            out.append(t)
    return out


def code_after_separators(tokens, cs):
    """tokens of the lock program after its cs-th OP_CODESEPARATOR token (top level only)"""
    if cs <= 0:
        return tokens
    seen = 0
    for i, t in enumerate(tokens):
        if t[0] == "op" and t[1] == 0xab:
            seen += 1
            if seen == cs:
                return tokens[i + 1:]
    return tokens


def sha256(b):
    return hashlib.sha256(b).digest()


def hash160(b):
    return hashlib.new("ripemd160", sha256(b)).digest()


def build_tx(case, script_sig=b"", witness=()):
    """refsighash-style tx dict for the spend under test; other inputs/outputs derived from the case"""
    n_in = case.get("n_in", 0)
    n_ins = max(n_in + 1, case.get("n_ins", 1))
    ins = []
    for i in range(n_ins):
        ins.append({"prev_hash": sha256(b"prev%d" % i), "prev_index": i, "script": b"" if i != n_in else script_sig,
                    "sequence": case.get("sequence", 0xffffffff) if i == n_in else (0xfffffffe - i),
                    # the other inputs: every second one looks like a native segwit input (empty scriptSig, a witness)
                    "witness": list(witness) if i == n_in else ([b"\x30\x06sibling", b"\x02key"] if i % 2 else [])})
    outs = [{"value": 1000 + o, "script": bytes([0x51 + o])} for o in range(case.get("n_outs", 1))]
    return {"version": case.get("version", 1), "locktime": case.get("locktime", 0), "ins": ins, "outs": outs}


def assemble_spend(case, sighash_mode="btc"):
    """returns dict(script_sig, spk, witness, tx, n_in, amount, lock_script)"""
    shape = case["shape"]
    amount = case.get("amount", 0)
    n_in = case.get("n_in", 0)
    lock_tokens = resolve_ctx(case["lock"], case)
    witness_shape = shape in ("p2wsh", "p2sh-p2wsh", "p2wpkh", "p2sh-p2wpkh")
    if shape in ("p2wpkh", "p2sh-p2wpkh"):
        kb = key_blob(case["lock"][0][1], case["lock"][0][2])
        lock_script = b"\x76\xa9\x14" + hash160(kb) + b"\x88\xac"
        nosig_lock = lock_script
    else:
        lock_script = None
    tx0 = build_tx(case)

    def z_fn(ht, cs):
        if cs < 0:
            cs = -cs - 1      # (see below) "signed like a copy the lock pushes itself": same digest as an embedded one
        if shape in ("p2wpkh", "p2sh-p2wpkh"):
            code = lock_script
        else:
            toks = code_after_separators(lock_tokens, cs)
            code = render(strip_sigs(toks)) if not witness_shape else render(toks, lambda h, c: 1)
        if sighash_mode == "btc":
            if witness_shape:
                return refsighash.bip143(tx0, n_in, code, amount, ht)
            return refsighash.legacy(tx0, n_in, code, ht)
        if sighash_mode[0] == "forkid":
            return refsighash.forkid(tx0, n_in, code, amount, ht, sighash_mode[1])
        raise ValueError(sighash_mode)

    if lock_script is None:
        lock_script = render(lock_tokens, z_fn)
        rendered_lock = lock_script
        z_embedded = z_fn

        def z_fn(ht, cs):
            # signatures supplied by the unlocking side sign the lock script as it really is, i.e. including any
            # signature the lock script pushes itself (consensus FindAndDelete removes only the signature being
            # checked); z_embedded above is for those embedded ones, whose digest excludes their own push.  A negative cs
            # -(n+1) asks for exactly that digest (after n separators) for a signature the unlocking side supplies: the
            # byte-identical copy of a signature that the lock script also pushes
            if cs < 0:
                return z_embedded(ht, cs)
            after = code_after_separators(lock_tokens, cs)
            prefix = len(render(lock_tokens[:len(lock_tokens) - len(after)], z_embedded))
            code = rendered_lock[prefix:]
            if sighash_mode == "btc":
                if witness_shape:
                    return refsighash.bip143(tx0, n_in, code, amount, ht)
                return refsighash.legacy(tx0, n_in, code, ht)
            return refsighash.forkid(tx0, n_in, code, amount, ht, sighash_mode[1])
    unlock = resolve_ctx(case.get("unlock", []), case)
    script_sig = b""
    witness = []
    if shape == "bare":
        spk = lock_script
        script_sig = render(unlock, z_fn)
    elif shape == "p2sh":
        spk = b"\xa9\x14" + hash160(lock_script) + b"\x87"
        script_sig = render(unlock, z_fn) + push_enc(lock_script, case.get("redeem_enc", "min"))
    elif shape == "p2wsh":
        spk = b"\x00\x20" + sha256(lock_script)
        witness = items(unlock, z_fn) + [lock_script]
    elif shape == "p2sh-p2wsh":
        prog = b"\x00\x20" + sha256(lock_script)
        spk = b"\xa9\x14" + hash160(prog) + b"\x87"
        script_sig = push_enc(prog, case.get("redeem_enc", "min"))
        witness = items(unlock, z_fn) + [lock_script]
    elif shape == "p2wpkh":
        spk = b"\x00\x14" + hash160(kb)
        witness = items(unlock, z_fn)
    elif shape == "p2sh-p2wpkh":
        prog = b"\x00\x14" + hash160(kb)
        spk = b"\xa9\x14" + hash160(prog) + b"\x87"
        script_sig = push_enc(prog, case.get("redeem_enc", "min"))
        witness = items(unlock, z_fn)
    else:
        raise ValueError(shape)
    # mutations of the assembled pieces
    for m in case.get("mut", []):
        kind = m[0]
        if kind == "spk-raw":
            spk = bytes.fromhex(m[1])
        elif kind == "spk-flip":
            i = m[1] % max(1, len(spk))
            spk = spk[:i] + bytes([spk[i] ^ (1 << (m[2] % 8))]) + spk[i + 1:] if spk else spk
        elif kind == "spk-version":            # witness version byte
            spk = bytes([0x50 + m[1]]) + spk[1:] if spk and m[1] else spk
        elif kind == "spk-proglen":            # change witness program length, keep the push consistent
            ln = m[1]
            prog = (spk[2:] * 3)[:ln]
            spk = spk[:1] + bytes([ln]) + prog
        elif kind == "sig-append":
            script_sig = script_sig + render(m[1], z_fn)
        elif kind == "sig-prepend":
            script_sig = render(m[1], z_fn) + script_sig
        elif kind == "sig-raw":
            script_sig = bytes.fromhex(m[1])
        elif kind == "wit-append":
            witness = witness + [bytes.fromhex(x) for x in m[1]]
        elif kind == "wit-prepend":
            witness = [bytes.fromhex(x) for x in m[1]] + witness
        elif kind == "wit-clear":
            witness = []
        elif kind == "wit-big":                # grow one witness item to a given size
            if witness:
                i = m[1] % len(witness)
                witness[i] = (witness[i] or b"\x00") * (m[2] // max(1, len(witness[i] or b"\x00")) + 1)
                witness[i] = witness[i][:m[2]]
    tx = build_tx(case, script_sig, witness)
    return {"script_sig": script_sig, "spk": spk, "witness": witness, "tx": tx, "n_in": n_in, "amount": amount,
            "lock_script": lock_script}
