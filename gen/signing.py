"""Shared builder for C05 (signing) and C06 (tamper evidence).

A *signing case* is JSON:

  {"coin": "BTC", "version": 1, "lock_time": 0,
   "ins":  [{"kind": KIND, "keys": [ring index, ...], "m": 2, "comp": [1, 0, 1], "amount": 5000,
             "sequence": 4294967295, "prev": 17, "index": 0}, ...],
   "outs": [[value, script_hex], ...]}

KIND in KINDS.  "keys" are indices into a fixed ring of secret exponents (distinct inside one input), "comp" says
which of them appear in compressed SEC form.  Everything on the reference side - the ring, the public keys, the
puzzle scripts, the script codes, the digests, the reference signer and verifier - is byte-level code over
oracles/* and imports nothing from pycoin.  The pycoin side (Tx with unspents, hash160 / p2sh lookups, WIFs,
Keychain) is built from the same case through pycoin's public API only.

The ring: key i is the BIP32 child  m_(i%2) / path(i)  of two fixed seeds (computed with oracles/refbip32), so the
same exponents can be supplied as plain numbers, as WIFs, or as a keychain of hierarchical keys plus paths.
"""
import contextlib
import io
import struct

from hypothesis import strategies as st

from gen.common import weighted
from gen.scriptasm import push_min, hash160, sha256, scriptnum
from oracles import refbip32, refecdsa, refenc, refsighash, refvm

from pycoin.networks.registry import network_for_netcode

V = refvm
N = refvm.N
CURVE = refvm.refec.SECP256K1

KINDS = ["p2pk", "p2pkh", "multisig", "p2sh-multisig", "p2wsh-multisig", "p2sh-p2wsh-multisig", "p2wpkh", "p2sh-p2wpkh"]
MULTISIG_KINDS = ["multisig", "p2sh-multisig", "p2wsh-multisig", "p2sh-p2wsh-multisig"]
WITNESS_KINDS = frozenset(["p2wsh-multisig", "p2sh-p2wsh-multisig", "p2wpkh", "p2sh-p2wpkh"])
P2SH_KINDS = frozenset(["p2sh-multisig", "p2sh-p2wsh-multisig", "p2sh-p2wpkh"])

# sighash mode handed to refvm.TxChecker; wif: Base58 WIF text usable (GRS needs the groestl C module)
COINS = {
    "BTC": {"mode": "btc", "wif": True},
    "XTN": {"mode": "btc", "wif": True},
    "LTC": {"mode": "btc", "wif": True},
    "BCH": {"mode": ("forkid", 0), "wif": True},
    "BTG": {"mode": ("forkid", 79), "wif": True},
    "DOGE": {"mode": "btc", "wif": True},
    "DASH": {"mode": "btc", "wif": True},
    "MONA": {"mode": "btc", "wif": True},
    "GRS": {"mode": "grs", "wif": False},
}
COIN_NAMES = list(COINS)
_NETS = {}


def network(coin):
    if coin not in _NETS:
        with contextlib.redirect_stdout(io.StringIO()):
            _NETS[coin] = network_for_netcode(coin)
    return _NETS[coin]


def is_forkid(coin):
    return isinstance(COINS[coin]["mode"], tuple)


# Appendix B flag sets
CONSENSUS = V.P2SH | V.DERSIG | V.NULLDUMMY | V.CHECKLOCKTIMEVERIFY | V.CHECKSEQUENCEVERIFY | V.WITNESS
STANDARD = (CONSENSUS | V.STRICTENC | V.MINIMALDATA | V.DISCOURAGE_UPGRADABLE_NOPS | V.CLEANSTACK | V.MINIMALIF | V.NULLFAIL
            | V.LOW_S | V.DISCOURAGE_UPGRADABLE_WITNESS_PROGRAM | V.WITNESS_PUBKEYTYPE)
STANDARD_FORKID = STANDARD & ~V.STRICTENC
DEFAULT = V.P2SH | V.WITNESS          # pycoin's default when flags is None


def standard_flags(coin):
    return STANDARD_FORKID if is_forkid(coin) else STANDARD


SIGHASH_ALL, SIGHASH_NONE, SIGHASH_SINGLE, SIGHASH_FORKID, SIGHASH_ANYONECANPAY = 1, 2, 3, 0x40, 0x80
HASH_TYPES = [1, 2, 3, 0x81, 0x82, 0x83]


def effective_hash_type(coin, requested):
    """the byte a signature must end in: the requested type (None = ALL), plus the fork-id bit on fork-id coins"""
    ht = SIGHASH_ALL if requested is None else requested
    return ht | SIGHASH_FORKID if is_forkid(coin) else ht


# ------------------------------------------------------------------------------------------ the key ring

RING_N = 31                     # prime: (start + j*step) % RING_N is a cheap way to draw distinct indices
SEEDS = [b"verif signing ring / master 0", b"verif signing ring / master 1"]
_MASTERS = [refbip32.master(s) for s in SEEDS]


def ring_path(i):
    """(master number, [child numbers]); every fourth key sits behind a hardened step"""
    first = (i % 3) | (refbip32.HARD if i % 4 == 1 else 0)
    return i % 2, [first, i]


def ring_path_text(i):
    _, p = ring_path(i)
    return "/".join("%d%s" % (c & (refbip32.HARD - 1), "H" if c >= refbip32.HARD else "") for c in p)


def _ring():
    d, q = [], []
    for i in range(RING_N):
        mi, p = ring_path(i)
        node = refbip32.derive(_MASTERS[mi], p)[-1]
        assert node is not None
        d.append(node.k)
        q.append(node.K)
    assert len(set(d)) == RING_N
    return d, q


RING_D, RING_Q = _ring()


def sec(i, compressed):
    x, y = RING_Q[i]
    return refenc.sec_encode(x, y, bool(compressed))


# ------------------------------------------------------------------------------------------ puzzles (byte level)

def small_int_push(n):
    return push_min(scriptnum(n))


def multisig_script(m, secs):
    return small_int_push(m) + b"".join(push_min(s) for s in secs) + small_int_push(len(secs)) + b"\xae"


def p2sh_spk(script):
    return b"\xa9\x14" + hash160(script) + b"\x87"


def normalise_input(inp):
    """total: forces every input record into the supported domain (used by the strategies and again by the builder)"""
    kind = inp["kind"]
    keys = list(inp["keys"])
    assert len(set(keys)) == len(keys) and keys
    comp = [1 if c else 0 for c in inp["comp"]]
    comp = (comp + [1] * len(keys))[:len(keys)]
    if kind in MULTISIG_KINDS:
        if kind == "p2sh-multisig":
            keys, comp = keys[:15], comp[:15]            # 15 compressed keys: 513-byte redeem script
        keys, comp = keys[:20], comp[:20]
        if kind in WITNESS_KINDS:
            comp = [1] * len(keys)
        elif kind == "p2sh-multisig" and len(multisig_script(1, [sec(k, c) for k, c in zip(keys, comp)])) > 520:
            comp = [1] * len(keys)
        m = min(max(1, inp.get("m", 1)), len(keys))
    else:
        keys, comp = keys[:1], comp[:1]
        if kind in WITNESS_KINDS:
            comp = [1]
        m = 1
    return {"kind": kind, "keys": keys, "comp": comp, "m": m, "amount": max(1, inp["amount"]),
            "sequence": inp["sequence"] & 0xffffffff, "prev": inp["prev"], "index": inp["index"] & 0xffffffff}


class Input:
    """reference description of one spent output and how it is unlocked"""

    def __init__(self, rec, pos):
        rec = normalise_input(rec)
        self.rec = rec
        self.kind, self.keys, self.comp, self.m = rec["kind"], rec["keys"], rec["comp"], rec["m"]
        self.n = len(self.keys)
        self.amount, self.sequence = rec["amount"], rec["sequence"]
        self.prev_hash = sha256(b"verif prev %d %d" % (rec["prev"], pos))        # never the all-zero hash, distinct per position
        self.prev_index = rec["index"]
        self.secs = [sec(k, c) for k, c in zip(self.keys, self.comp)]
        self.witness = self.kind in WITNESS_KINDS
        self.redeem = None          # what the P2SH scriptSig must push last
        self.wscript = None         # last witness item for P2WSH
        k = self.kind
        if k == "p2pk":
            self.spk = push_min(self.secs[0]) + b"\xac"
            self.code = self.spk
        elif k == "p2pkh":
            self.spk = b"\x76\xa9\x14" + hash160(self.secs[0]) + b"\x88\xac"
            self.code = self.spk
        elif k in ("p2wpkh", "p2sh-p2wpkh"):
            prog = b"\x00\x14" + hash160(self.secs[0])
            self.code = b"\x76\xa9\x14" + hash160(self.secs[0]) + b"\x88\xac"
            if k == "p2wpkh":
                self.spk = prog
            else:
                self.redeem, self.spk = prog, p2sh_spk(prog)
        else:
            ms = multisig_script(self.m, self.secs)
            self.code = ms
            if k == "multisig":
                self.spk = ms
            elif k == "p2sh-multisig":
                assert len(ms) <= 520
                self.redeem, self.spk = ms, p2sh_spk(ms)
            elif k == "p2wsh-multisig":
                self.wscript, self.spk = ms, b"\x00\x20" + sha256(ms)
            elif k == "p2sh-p2wsh-multisig":
                prog = b"\x00\x20" + sha256(ms)
                self.wscript, self.redeem, self.spk = ms, prog, p2sh_spk(prog)
            else:
                raise ValueError(k)

    def scripts(self):
        """scripts a signer must be told about (p2sh / p2wsh preimages)"""
        return [s for s in (self.redeem, self.wscript) if s is not None]

    def is_multisig(self):
        return self.kind in MULTISIG_KINDS

    # ---- assembling an unlocking script from signature blobs (reference signer and expected layouts)
    def assemble(self, sig_blobs, push=push_min):
        """sig_blobs: for multisig the signatures in script key order; returns (script_sig, witness list)"""
        k = self.kind
        if k == "p2pk":
            return push(sig_blobs[0]), []
        if k == "p2pkh":
            return push(sig_blobs[0]) + push_min(self.secs[0]), []
        if k == "p2wpkh":
            return b"", [sig_blobs[0], self.secs[0]]
        if k == "p2sh-p2wpkh":
            return push_min(self.redeem), [sig_blobs[0], self.secs[0]]
        if k == "multisig":
            return b"\x00" + b"".join(push(s) for s in sig_blobs), []
        if k == "p2sh-multisig":
            return b"\x00" + b"".join(push(s) for s in sig_blobs) + push(self.redeem), []
        if k == "p2wsh-multisig":
            return b"", [b""] + list(sig_blobs) + [self.wscript]
        if k == "p2sh-p2wsh-multisig":
            return push_min(self.redeem), [b""] + list(sig_blobs) + [self.wscript]
        raise ValueError(k)


class Built:
    def __init__(self, case):
        self.case = case
        self.coin = case["coin"]
        self.net = network(self.coin)
        self.mode = COINS[self.coin]["mode"]
        self.forkid = is_forkid(self.coin)
        self.version = case["version"] & 0xffffffff
        self.lock_time = case["lock_time"] & 0xffffffff
        self.ins = [Input(r, p) for p, r in enumerate(case["ins"])]
        self.outs = [(v, bytes.fromhex(s)) for v, s in case["outs"]]

    # ---- reference side
    def ref_tx(self):
        return {"version": self.version, "locktime": self.lock_time,
                "ins": [{"prev_hash": i.prev_hash, "prev_index": i.prev_index, "script": b"", "sequence": i.sequence,
                         "witness": []} for i in self.ins],
                "outs": [{"value": v, "script": s} for v, s in self.outs]}

    def spks(self):
        return [i.spk for i in self.ins]

    def amounts(self):
        return [i.amount for i in self.ins]

    def all_scripts(self, skip=()):
        out = []
        for p, i in enumerate(self.ins):
            if p not in skip:
                out.extend(i.scripts())
        return out

    # ---- pycoin side
    def pycoin_tx(self):
        T = self.net.tx
        ins = [T.TxIn(i.prev_hash, i.prev_index, b"", i.sequence) for i in self.ins]
        outs = [T.TxOut(v, s) for v, s in self.outs]
        unspents = [T.TxOut(i.amount, i.spk) for i in self.ins]
        return T(self.version, ins, outs, self.lock_time, unspents=unspents)


# ------------------------------------------------------------------------------------------ key supply (pycoin API)

MECHS = ["lookup", "wif", "keychain"]


def _as_form(seq, form):
    """the same sequence of values handed over as a list, a tuple, a one-shot iterator or a generator"""
    seq = list(seq)
    if form == 0:
        return seq
    if form == 1:
        return tuple(seq)
    if form == 2:
        return iter(seq)
    return (x for x in seq)


def crowd_exponents(crowd):
    """|crowd| further secret exponents that no input needs (a wallet full of other keys)"""
    return [7 * 10**9 + 3 * i for i in range(abs(crowd))]


def _crowded(needed, extra, crowd):
    # crowd > 0: the unrelated keys are handed over after the needed ones; crowd < 0: before them
    return needed + extra if crowd >= 0 else extra + needed


def pycoin_sign(built, tx, mech, key_idxs, hash_type=None, idx_set=None, scripts=None, uncompressed=(), forms=0, crowd=0):
    """call pycoin's signer through one of the three key-supply mechanisms.

    key_idxs: ring indices whose secrets are supplied;  scripts: p2sh / p2wsh preimages supplied;
    uncompressed: ring indices that some input uses in uncompressed form (keychain mechanism only: a keychain indexes
    hierarchical keys by their compressed hash160, so those keys are also added as plain secrets);
    forms: selects the container form (list / tuple / iterator / generator; set / frozenset / list / tuple for the index
    set) in which the iterable arguments are handed over - the documented parameter types are iterables;
    crowd: that many unrelated private keys are supplied along with the needed ones (after them; before them if negative)."""
    f_scripts, f_keys, f_idx = forms % 4, (forms // 4) % 4, (forms // 16) % 4        # bit 6, bit 7: see the keychain branch
    net = built.net
    scripts = built.all_scripts() if scripts is None else scripts
    kwargs = {}
    if hash_type is not None:
        kwargs["hash_type"] = hash_type
    if idx_set is not None:
        kwargs["tx_in_idx_set"] = (set, frozenset, list, tuple)[f_idx](idx_set)
    if mech == "lookup":
        hl = net.tx.solve.build_hash160_lookup(_as_form(_crowded([RING_D[k] for k in key_idxs], crowd_exponents(crowd), crowd), f_keys))
        tx.sign(hl, p2sh_lookup=net.tx.solve.build_p2sh_lookup(_as_form(scripts, f_scripts)), **kwargs)
    elif mech == "wif":
        unc = set(uncompressed)
        wifs = [net.keys.private(secret_exponent=RING_D[k], is_compressed=k not in unc).wif() for k in key_idxs]
        wifs = _crowded(wifs, [net.keys.private(secret_exponent=e).wif() for e in crowd_exponents(crowd)], crowd)
        net.tx_utils.sign_tx(tx, _as_form(wifs, f_keys % 2), p2sh_lookup=net.tx.solve.build_p2sh_lookup(_as_form(scripts, f_scripts)), **kwargs)
    elif mech == "keychain":
        kc = net.keychain()
        masters = [net.keys.bip32_seed(s) for s in SEEDS]
        if crowd < 0:
            kc.add_secrets([net.keys.private(secret_exponent=e) for e in crowd_exponents(crowd)])
        for mi, master in enumerate(masters):
            paths = [ring_path_text(k) for k in key_idxs if ring_path(k)[0] == mi]
            # hardened steps cannot be derived from the public node; the others are registered the way keychain_test does
            if (forms >> 7) & 1:
                # the other registration call: one path for a collection of wallet keys (co-signers sharing an account path)
                for p in paths:
                    kc.add_keys_path([master if "H" in p else master.public_copy()], p)
            else:
                kc.add_key_paths(master.public_copy(), [p for p in paths if "H" not in p])
                kc.add_key_paths(master, [p for p in paths if "H" in p])
        if (forms >> 6) & 1:
            # the caller also holds the masters' own keys as plain (non-hierarchical) keys and adds those first: the same
            # secret then arrives twice, once without and once with its derivation structure
            kc.add_secrets([net.keys.private(secret_exponent=mk.secret_exponent()) for mk in masters])
        kc.add_secrets(masters)
        kc.add_secrets([net.keys.private(secret_exponent=RING_D[k]) for k in key_idxs if k in set(uncompressed)])
        if crowd > 0:
            kc.add_secrets([net.keys.private(secret_exponent=e) for e in crowd_exponents(crowd)])
        kc.add_p2s_scripts(_as_form(scripts, f_scripts))
        tx.sign(kc, p2sh_lookup=kc, **kwargs)
    else:
        raise ValueError(mech)


# ------------------------------------------------------------------------------------------ reference signer / verifier

def ref_digest(built, txd, i, hash_type, amounts=None):
    inp = built.ins[i]
    amount = inp.amount if amounts is None else amounts[i]
    mode = built.mode
    if mode == "btc":
        if inp.witness:
            return refsighash.bip143(txd, i, inp.code, amount, hash_type)
        return refsighash.legacy(txd, i, inp.code, hash_type)
    if mode == "grs":
        if inp.witness:
            return refsighash.bip143(txd, i, inp.code, amount, hash_type, refsighash.sha256)
        return refsighash.legacy(txd, i, inp.code, hash_type, refsighash.sha256)
    return refsighash.forkid(txd, i, inp.code, amount, hash_type, mode[1])


def ref_sig_blob(d, z, hash_type, high_s=False):
    r, s, _k, _R = refecdsa.sign(CURVE, d, z)
    if s > N // 2:
        s = N - s
    if high_s:
        s = N - s
    return refenc.der_sig(r, s) + bytes([hash_type])


def ref_sign_input(built, txd, i, positions, hash_type, variant="plain"):
    """fill txd input i with an unlocking script signed (reference ECDSA over the reference digest) by the keys at the
    given positions of the input's key list.  hash_type is the full byte (fork-id bit included where needed).
    variants (consensus-valid, the last three not policy-canonical): plain | highs | p1push | junk;
    "stale": well-formed signatures over a digest this transaction no longer has (as left behind by an edit after signing)"""
    inp = built.ins[i]
    z = ref_digest(built, txd, i, hash_type)
    if variant == "stale":
        z = (z ^ 1) or 1
    blobs = [ref_sig_blob(RING_D[inp.keys[p]], z, hash_type, high_s=(variant == "highs")) for p in sorted(positions)]
    push = push_min
    if variant == "p1push":
        def push(b):
            return bytes([0x4c, len(b)]) + b if 0 < len(b) < 256 else push_min(b)
    script_sig, witness = inp.assemble(blobs, push)
    if variant == "junk" and not inp.witness and inp.kind != "p2sh-p2wpkh":
        script_sig = b"\x01\x07" + script_sig
    txd["ins"][i]["script"] = script_sig
    txd["ins"][i]["witness"] = witness


class MemoChecker(refvm.TxChecker):
    """refvm.TxChecker with the (exact) ECDSA verification result memoised on (key, digest, r, s): the same
    signature is re-verified many times over mutated copies of one transaction"""

    def __init__(self, tx, n_in, amount, mode, memo):
        super().__init__(tx, n_in, amount, mode)
        self.memo = memo

    def check_sig(self, sig, pubkey, script_code, sigversion, ctx):
        pt = refvm.parse_pubkey(pubkey)
        if pt is None or not sig:
            return False
        rs = refvm.parse_der_lax(sig[:-1])
        if rs is None:
            return False
        r, s = rs
        if s > N // 2:
            s = N - s
        z = self.sighash(script_code, sig[-1], sigversion)
        self.sighash_calls.append((sig[-1], z))
        if z is None:
            return False
        key = (pt, z, r, s)
        if key not in self.memo:
            self.memo[key] = refvm.ecdsa_verify(pt, z, r, s)
        return self.memo[key]


def ref_verify_raw(mode, txd, i, spk, amount, flags, memo=None):
    """reference verdict (True / False, error name) for input i of a tx dict spending (spk, amount)"""
    checker = MemoChecker(txd, i, amount, mode, {} if memo is None else memo)
    verdict, err, ctx = refvm.run_verify(txd["ins"][i]["script"], spk, list(txd["ins"][i]["witness"]), flags, checker)
    assert verdict != refvm.EITHER
    return verdict == refvm.OK, err


def ref_verify(built, txd, i, flags, memo=None):
    inp = built.ins[i]
    return ref_verify_raw(built.mode, txd, i, inp.spk, inp.amount, flags, memo)


def fill_from_pycoin(txd, tx):
    """copy only the unlocking data of a pycoin Tx into the reference dict"""
    assert len(tx.txs_in) == len(txd["ins"])
    for d, ti in zip(txd["ins"], tx.txs_in):
        d["script"] = bytes(ti.script)
        d["witness"] = [bytes(w) for w in ti.witness]


def put_into_pycoin(tx, txd, i):
    tx.txs_in[i].script = txd["ins"][i]["script"]
    tx.set_witness(i, list(txd["ins"][i]["witness"]))


def script_pushes(script):
    """data items of a push-only script, or None when it is malformed / not push-only"""
    out = []
    pc = 0
    while pc < len(script):
        r = refsighash.get_op(script, pc)
        if r is None:
            return None
        op, data, pc = r
        if data is not None:
            out.append(data)
        elif op == 0x4f:
            out.append(b"\x81")
        elif 0x51 <= op <= 0x60:
            out.append(bytes([op - 0x50]))
        else:
            return None
    return out


def signature_blobs(inp, script_sig, witness):
    """every item of the unlocking data that is not a known script, a listed key or empty (= the signature slots)"""
    items = script_pushes(script_sig)
    if items is None:
        return None
    known = set(inp.secs) | set(inp.scripts())
    return [it for it in items + list(witness) if it and it not in known]


PLACEHOLDER = bytes.fromhex("3045022100fffffffffffffffffffffffffffffffebaaedce6af48a03bbfd25e8cd036414002207"
                            "fffffffffffffffffffffffffffffff5d576e7357a4501ddfe92f46681b20a001")


def snapshot(tx):
    """deep, value-only copy of every observable field of a pycoin Tx"""
    return {"version": tx.version, "lock_time": tx.lock_time,
            "ins": [(bytes(i.previous_hash), i.previous_index, i.sequence) for i in tx.txs_in],
            "unlock": [(bytes(i.script), tuple(bytes(w) for w in i.witness)) for i in tx.txs_in],
            "outs": [(o.coin_value, bytes(o.script)) for o in tx.txs_out],
            "unspents": [None if u is None else (u.coin_value, bytes(u.script)) for u in tx.unspents]}


# ------------------------------------------------------------------------------------------ strategies

U32 = 0xffffffff


def s_u32():
    return st.one_of(st.sampled_from([0, 1, 2, U32, U32 - 1, 0x80000000, 500000000]), st.integers(0, U32))


def s_amount():
    return st.one_of(st.sampled_from([1, 2, 546, 10**8, 2**32, 2**32 + 1, 21 * 10**14]), st.integers(1, 21 * 10**14))


def s_keys(n):
    """n distinct ring indices (arithmetic progression modulo the prime ring size)"""
    return st.builds(lambda a, step: [(a + j * step) % RING_N for j in range(n)],
                     st.integers(0, RING_N - 1), st.integers(1, RING_N - 1))


def s_n(big=True):
    pairs = [(6, st.integers(1, 3)), (3, st.integers(4, 7))]
    if big:
        pairs += [(1, st.integers(8, 15)), (1, st.integers(16, 20))]
    return weighted(*pairs)


def s_kind(kinds=None):
    kinds = kinds or KINDS
    return st.sampled_from(kinds)


def s_input(kinds=None, big=True, n=None, mmodes=("one", "all", "any", "any")):
    def mk(kind, n, msel, mmode, mask, amount, sequence, prev, index):
        def fin(keys):
            if kind not in MULTISIG_KINDS:
                keys = keys[:1]
            m = {"one": 1, "all": len(keys), "any": 1 + msel % len(keys)}[mmode]
            comp = [(mask >> j) & 1 for j in range(len(keys))]
            return normalise_input({"kind": kind, "keys": keys, "m": m, "comp": comp, "amount": amount,
                                    "sequence": sequence, "prev": prev, "index": index})
        return s_keys(n).map(fin)
    mask = st.one_of(st.just((1 << 20) - 1), st.just(0), st.integers(0, (1 << 20) - 1))
    return st.builds(mk, s_kind(kinds), n if n is not None else s_n(big), st.integers(0, 19), st.sampled_from(list(mmodes)), mask,
                     s_amount(), st.one_of(st.sampled_from([U32, U32 - 1, 0]), s_u32()), st.integers(0, 2**32),
                     st.one_of(st.integers(0, 3), s_u32())).flatmap(lambda s: s)


def s_outputs(max_outs=4):
    script = st.one_of(st.builds(lambda k: (b"\x76\xa9\x14" + hash160(sec(k, True)) + b"\x88\xac").hex(), st.integers(0, RING_N - 1)),
                       st.binary(max_size=40).map(bytes.hex), st.sampled_from(["", "51", "6a"]))
    value = st.one_of(st.sampled_from([0, 1, 546, 10**8, 21 * 10**14]), st.integers(0, 21 * 10**14))
    return st.lists(st.tuples(value, script).map(list), min_size=0, max_size=max_outs)


def s_coin():
    return weighted((3, st.just("BTC")), (2, st.just("BCH")), (2, st.just("BTG")), (1, st.just("XTN")), (1, st.just("LTC")),
                    (1, st.just("DOGE")), (1, st.just("DASH")), (1, st.just("MONA")), (1, st.just("GRS")))


def s_tx(min_ins=1, max_ins=5, kinds=None, big=True, max_outs=4):
    return st.fixed_dictionaries({
        "coin": s_coin(),
        "version": st.one_of(st.sampled_from([1, 2]), s_u32()),
        "lock_time": st.one_of(st.just(0), s_u32()),
        "ins": st.lists(s_input(kinds, big), min_size=min_ins, max_size=max_ins),
        "outs": s_outputs(max_outs),
    })


def s_hash_type(allow_none=True):
    opts = list(HASH_TYPES) + ([None] if allow_none else [])
    return st.sampled_from(opts)


def u32le(n):
    return struct.pack("<L", n)
