"""Evaluate an oracle function of a check module inside a child interpreter that was started with a different
environment (e.g. PYCOIN_NATIVE=none, which pycoin reads when its generator classes are created at import).

Parent side:  call("checks.c01_ecdsa", "o_sign_worker", case, {"PYCOIN_NATIVE": "none"}) -> labels, or raises the
Violation / HarnessError the child produced.  One child per (parent pid, module, environment) is kept alive and
fed one JSON line per case; it holds no state between cases other than the imported modules, so the verdict is
still a pure function of the case.  The child exits when its stdin closes (parent gone).

Child side (python -B gen/subproc.py <module>): mirrors run.py's path set-up, insists that pycoin comes from
VERIF_REPO, and classifies escaping exceptions with vlib.core.call_oracle exactly like the parent runner does.
"""
import json
import os
import subprocess
import sys

HERE = os.path.dirname(os.path.dirname(os.path.abspath(__file__)))

_workers = {}


def _spawn(modname, env_extra):
    from vlib.core import HarnessError
    env = dict(os.environ)
    env.update(env_extra)
    env["VERIF_WORKER"] = "1"
    env["PYTHONHASHSEED"] = "0"
    w = subprocess.Popen([sys.executable, "-B", os.path.abspath(__file__), modname], stdin=subprocess.PIPE,
                         stdout=subprocess.PIPE, env=env, text=True, bufsize=1, close_fds=True)
    line = w.stdout.readline()
    try:
        hello = json.loads(line)
    except ValueError:
        hello = {}
    if not hello.get("ready"):
        raise HarnessError("worker for %s with %r did not start: %r" % (modname, env_extra, line or hello))
    return w


def call(modname, funcname, case, env_extra):
    from vlib.core import HarnessError, Violation
    key = (os.getpid(), modname, tuple(sorted(env_extra.items())))
    w = _workers.get(key)
    if w is None or w.poll() is not None:
        w = _workers[key] = _spawn(modname, env_extra)
    try:
        w.stdin.write(json.dumps({"f": funcname, "case": case}) + "\n")
        w.stdin.flush()
        line = w.stdout.readline()
    except (BrokenPipeError, OSError) as ex:
        _workers.pop(key, None)
        raise HarnessError("worker pipe failed: %r" % (ex,))
    if not line:
        _workers.pop(key, None)
        raise HarnessError("worker for %s died on case %s" % (modname, json.dumps(case)[:500]))
    resp = json.loads(line)
    if "labels" in resp:
        return resp["labels"]
    if "violation" in resp:
        raise Violation(tuple(resp["violation"]), resp["msg"])
    raise HarnessError("in worker: " + resp.get("harness", "?"))


NATIVE_NONE = {"PYCOIN_NATIVE": "none", "VERIF_ASSERT_BACKEND": "pure"}


def pure_python_variant(modname, funcname):
    """an oracle that evaluates <modname>.<funcname> in a child interpreter started with PYCOIN_NATIVE=none (pure-Python
    point arithmetic); the child refuses to start unless the shipped secp256k1 generator really is the pure one"""
    def oracle(case):
        return list(call(modname, funcname, case, NATIVE_NONE)) + ["child-backend=pure"]
    oracle.__name__ = funcname + "_pure_python"
    return oracle


PYTHON_O = {"PYTHONOPTIMIZE": "1", "VERIF_ASSERT_OPTIMIZED": "1"}


def optimized_variant(modname, funcname):
    """an oracle that evaluates <modname>.<funcname> in a child interpreter started with PYTHONOPTIMIZE=1 (python -O:
    assert statements are compiled away, __debug__ is False), the mode in which validation written as an assert vanishes;
    the child refuses to start unless asserts really are disabled"""
    def oracle(case):
        return list(call(modname, funcname, case, PYTHON_O)) + ["child=python -O"]
    oracle.__name__ = funcname + "_python_O"
    return oracle


def _child_main(modname):
    out = os.fdopen(os.dup(1), "w", buffering=1)
    os.dup2(2, 1)                      # anything the code under test prints goes to stderr, not into the protocol
    sys.stdout = sys.stderr
    sys.dont_write_bytecode = True
    repo = os.path.abspath(os.environ.get("VERIF_REPO", "/repo"))
    sys.path.insert(0, HERE)
    deps = os.path.join(HERE, ".deps")
    if os.path.isdir(deps):
        sys.path.append(deps)
    sys.path.insert(0, repo)
    try:
        import pycoin
        if not os.path.abspath(pycoin.__file__).startswith(repo + os.sep):
            raise RuntimeError("pycoin imported from %s, not %s" % (pycoin.__file__, repo))
        from vlib import core
        mod = __import__(modname, fromlist=["x"])
        if os.environ.get("VERIF_ASSERT_OPTIMIZED") and __debug__:
            raise RuntimeError("child was to run with asserts disabled (PYTHONOPTIMIZE=1) but __debug__ is True")
        want = os.environ.get("VERIF_ASSERT_BACKEND")
        if want:
            from gen import ecgen
            from pycoin.ecdsa.secp256k1 import secp256k1_generator
            if ecgen.backend_of(secp256k1_generator) != want:
                raise RuntimeError("child was to use the %s backend but secp256k1_generator is %s" % (
                    want, ecgen.backend_of(secp256k1_generator)))
    except BaseException as ex:  # noqa
        import traceback
        out.write(json.dumps({"ready": False, "error": "%r\n%s" % (ex, traceback.format_exc())}) + "\n")
        return 2
    out.write(json.dumps({"ready": True}) + "\n")

    class _Sub:
        def __init__(self, name, oracle):
            self.name, self.oracle = name, oracle

    for line in sys.stdin:
        req = json.loads(line)
        try:
            labels = core.call_oracle(_Sub(req["f"], getattr(mod, req["f"])), req["case"])
            resp = {"labels": list(labels)}
        except core.Violation as v:
            resp = {"violation": list(v.bucket), "msg": v.msg}
        except BaseException as ex:  # noqa
            resp = {"harness": str(ex)[:4000]}
        out.write(json.dumps(resp) + "\n")
    return 0


if __name__ == "__main__":
    sys.exit(_child_main(sys.argv[1]))
