"""Shared curve registry, backend configurations and strategies for C01 (ECDSA) and C02 (group law).

A *curve* inside a case is either one of the names "k1" (secp256k1), "r1" (secp256r1), "bls" (BLS12-381 G1)
or a list [p, a, b, Gx, Gy, n] describing a brute-forced toy curve, so every case is self-contained.

A *configuration* names how the pycoin generator object for that curve was built:
  shipped  - the object pycoin exports (secp256k1_generator, secp256r1_generator, bls12_381_g1)
  pure     - Generator(p, a, b, G, n): no native base class
  openssl  - class X(create_OpenSSLOptimizations(nid), Generator), created with PYCOIN_NATIVE=openssl forced
Toy curves only have "pure".  Constructed generators get a fixed entropy function so that nothing in an
oracle depends on os.urandom (the shipped objects keep whatever blinding factor they drew at import).
"""
import os

from hypothesis import strategies as st

from oracles import refec

from pycoin.ecdsa.Curve import Curve
from pycoin.ecdsa.Generator import Generator
from pycoin.ecdsa.native import openssl as _ossl
from pycoin.ecdsa.native.secp256k1 import libsecp256k1 as _libsecp

REF = {"k1": refec.SECP256K1, "r1": refec.SECP256R1, "bls": refec.BLS12_381_G1}
NID = {"k1": _ossl.NID_secp256k1, "r1": _ossl.NID_X9_62_prime256v1}
LIBSECP_PRESENT = bool(_libsecp)
OPENSSL_PRESENT = bool(_ossl.OpenSSL)


def fixed_entropy(nbytes):
    return bytes([0x5a]) * nbytes


def entropy_from_hex(h):
    raw = bytes.fromhex(h)

    def f(nbytes):
        return (raw * (nbytes // max(1, len(raw)) + 1))[:nbytes] if raw else b"\0" * nbytes
    return f


# ------------------------------------------------------------------------------------------------ curves


def ref_curve(spec):
    """reference Curve for a case's curve field"""
    if isinstance(spec, str):
        return REF[spec]
    p, a, b, gx, gy, n = spec
    key = tuple(spec)
    c = _REF_CACHE.get(key)
    if c is None:
        c = _REF_CACHE[key] = refec.Curve(p, a, b, (gx, gy), n, "toy-p%d-a%d-b%d-n%d" % (p, a, b, n))
    return c


_REF_CACHE = {}


def curve_label(spec):
    if isinstance(spec, str):
        return "curve=" + spec
    p, a, b, gx, gy, n = spec
    return "curve=toy:%s:%s" % ("n<p" if n < p else "n>p", "a=0" if a == 0 else "a!=0")


def spec_of(c):
    return [c.p, c.a, c.b, c.G[0], c.G[1], c.n]


_TOY_CACHE = {}


def toy_curves(pmax, max_per_p=4):
    key = (pmax, max_per_p)
    if key not in _TOY_CACHE:
        _TOY_CACHE[key] = refec.toy_curves(pmax, max_per_p=max_per_p)
    return _TOY_CACHE[key]


def toy_specs(pmax, nmax=None, max_per_p=4):
    return [spec_of(c) for c in toy_curves(pmax, max_per_p) if nmax is None or c.n <= nmax]


# ------------------------------------------------------------------------------------------------ backends


def backend_of(gen):
    """which arithmetic actually runs inside a generator object, judged from its class"""
    cls = type(gen)
    names = [k.__qualname__ for k in cls.__mro__]
    if LIBSECP_PRESENT and any("secp256k1" in k.__module__ and k.__name__ == "Optimizations" for k in cls.__mro__):
        return "libsecp256k1"
    if cls.multiply is not Curve.multiply and hasattr(cls, "openssl_group"):
        return "openssl"
    if cls.multiply is Curve.multiply and cls.raw_mul is Generator.raw_mul and cls.inverse_mod is Curve.inverse_mod:
        return "pure"
    return "unknown:" + ",".join(names)


def _openssl_class(name):
    old = os.environ.get("PYCOIN_NATIVE")
    os.environ["PYCOIN_NATIVE"] = "openssl"
    try:
        base = _ossl.create_OpenSSLOptimizations(NID[name])
    finally:
        if old is None:
            del os.environ["PYCOIN_NATIVE"]
        else:
            os.environ["PYCOIN_NATIVE"] = old

    class OpenSSLGenerator(base, Generator):
        pass
    OpenSSLGenerator.__qualname__ = "OpenSSLGenerator_" + name
    return OpenSSLGenerator


_OSSL_CLASS = {}
_GEN_CACHE = {}


def openssl_class(name):
    if name not in _OSSL_CLASS:
        _OSSL_CLASS[name] = _openssl_class(name)
    return _OSSL_CLASS[name]


def build_generator(spec, cfg, entropy_f=fixed_entropy, basis=None):
    """a fresh generator object (never the shipped one); basis: another point of the same prime-order group to serve as
    base point (a second generator H = m*G, as commitment schemes use) instead of the standard one"""
    c = ref_curve(spec)
    if basis is not None:
        import copy
        c = copy.copy(c)
        c.G = tuple(basis)
    if cfg == "pure":
        cls = Generator
    elif cfg == "openssl":
        cls = openssl_class(spec)
    else:
        raise KeyError(cfg)
    # the documented constructor call.  (Until the fix recorded in known_findings/C02.json, Generator.__new__ did not
    # take the entropy_f parameter that __init__ documents and this raised TypeError.)
    try:
        return cls(c.p, c.a, c.b, c.G, c.n, entropy_f=entropy_f)
    except TypeError as ex:
        if "entropy_f" in str(ex):
            from vlib.core import Violation
            raise Violation("generator:constructor-rejects-entropy_f",
                            "Generator(p, a, b, G, n, entropy_f=f) raised TypeError: %s" % ex)
        raise


def get_gen(spec, cfg):
    key = (spec if isinstance(spec, str) else tuple(spec), cfg)
    g = _GEN_CACHE.get(key)
    if g is not None:
        return g
    if cfg == "shipped":
        if spec == "k1":
            from pycoin.ecdsa.secp256k1 import secp256k1_generator as g
        elif spec == "r1":
            from pycoin.ecdsa.secp256r1 import secp256r1_generator as g
        elif spec == "bls":
            from pycoin.ecdsa.bls12_381_g1 import bls12_381_g1 as g
        else:
            raise KeyError(spec)
    else:
        g = build_generator(spec, cfg)
        want = {"pure": "pure", "openssl": "openssl"}[cfg]
        if backend_of(g) != want:
            raise RuntimeError("configuration %s/%s built a %s backend" % (spec, cfg, backend_of(g)))
    _GEN_CACHE[key] = g
    return g


def available_cfgs(spec, kinds=("shipped", "pure", "openssl")):
    if not isinstance(spec, str):
        return ["pure"]
    out = []
    for k in kinds:
        if k == "openssl" and (spec not in NID or not OPENSSL_PRESENT):
            continue
        out.append(k)
    return out


def describe_configurations(specs=("k1", "r1")):
    """evidence strings; a construction failure is reported here as text and left for the sub-checks to surface as a violation"""
    out = []
    for s in specs:
        for cfg in available_cfgs(s):
            try:
                out.append("%s/%s (backend=%s)" % (REF[s].name, cfg, backend_of(get_gen(s, cfg))))
            except Exception as ex:  # noqa  (evidence text only; nothing is judged here)
                out.append("%s/%s (could not be constructed at import: %s)" % (REF[s].name, cfg, type(ex).__name__))
    return out


# ------------------------------------------------------------------------------------------------ strategies


def boundary_set(lo, hi, extra=()):
    b = set()
    for v in (lo, lo + 1, lo + 2, hi - 2, hi - 1, hi) + tuple(extra):
        if lo <= v <= hi:
            b.add(v)
    k = 1
    while k <= hi:
        for v in (k - 1, k, k + 1):
            if lo <= v <= hi:
                b.add(v)
        k <<= 1
    return b


def _patterned(nbytes=32):
    return st.one_of(
        st.binary(min_size=nbytes, max_size=nbytes).map(lambda b: int.from_bytes(b, "big")),
        st.tuples(st.integers(0, 255), st.integers(0, nbytes - 1), st.integers(0, 255)).map(
            lambda t: int.from_bytes(bytes([t[0]]) * t[1] + bytes([t[2]]) * (nbytes - t[1]), "big")))


def bit_structured(maxbits):
    """integers with regular bit structure, the inputs on which window / NAF / ladder code differs from the textbook:
    a block of 1-16 bits repeated to any width (0x5555.., 0xaaaa.., 0x3333.., 0x1111.., runs of ones), such a value
    with a few low bits disturbed, and sparse / dense values (few bits set / few bits clear)"""
    def rep(p, q, m, delta):
        q &= (1 << p) - 1
        v = 0
        for i in range(0, m, p):
            v |= q << i
        v &= (1 << m) - 1
        return max(0, v + delta)
    repeated = st.builds(rep, st.integers(1, 16), st.integers(1, 0xffff), st.integers(2, maxbits), st.sampled_from([0, 0, 0, 1, -1, 2, 3]))
    sparse = st.lists(st.integers(0, maxbits - 1), min_size=1, max_size=4).map(lambda bits: sum({1 << b for b in bits}))
    dense = st.tuples(st.integers(8, maxbits), st.lists(st.integers(0, maxbits - 1), min_size=1, max_size=4)).map(
        lambda t: ((1 << t[0]) - 1) & ~sum({1 << b for b in t[1]}))
    # j * (2^m - 1) / k: the repeating expansions of j/k (0x5555.., 0xaaaa.., 0x3333.., 0x2492..): small multiples of these
    # (3e, 5e, ...) fall just below a power of two
    frac = st.builds(lambda k, j, m, d: max(0, ((1 << m) - 1) // k * (1 + j % (k - 1)) + d), st.sampled_from([3, 3, 3, 5, 7, 9, 15, 17]),
                     st.integers(0, 16), st.integers(8, maxbits), st.sampled_from([0, 0, 1, -1]))
    return st.one_of(repeated, frac, frac, sparse, dense)


def scalars(n):
    """private keys / nonces in [1, n-1]: boundary, powers of two +-1, byte patterns, regular bit structure, uniform"""
    bs = sorted(boundary_set(1, n - 1, extra=(n // 2, n // 2 + 1)))
    return st.one_of(st.sampled_from(bs), st.integers(1, n - 1), st.integers(1, n - 1),
                     _patterned((n.bit_length() + 7) // 8).map(lambda v: v % (n - 1) + 1),
                     bit_structured(n.bit_length()).map(lambda v: v if 1 <= v < n else v % (n - 1) + 1))


def hashes(n, bits=256):
    """message hashes z in [1, 2^bits - 1] with the values around n, 2n and the top of the range forced"""
    top = (1 << bits) - 1
    bs = sorted(boundary_set(1, top, extra=(n - 1, n, n + 1, 2 * n - 1, 2 * n, 2 * n + 1, top - n, top - n + 1)))
    near_n = st.integers(0, 1 << 64).map(lambda v: min(top, n + v))
    return st.one_of(st.sampled_from(bs), st.integers(1, top), st.integers(1, top), near_n,
                     _patterned(bits // 8).map(lambda v: v or 1))


def is_boundary(v, n):
    """v is within 2 of 0, n, n/2 or a power of two"""
    if v <= 2 or abs(v - n) <= 2 or abs(v - n // 2) <= 2:
        return True
    if v > 0:
        bl = v.bit_length()
        if v - (1 << (bl - 1)) <= 1 or (1 << bl) - v <= 1:
            return True
    return False


def big_scalars(n):
    """integers for k*P: zero, negative, k >= n, much larger than n, boundary and uniform"""
    special = [0, 1, -1, 2, -2, 3, n - 1, n, n + 1, 2 * n, 2 * n + 3, -n, -n - 1, -n + 1, 1 - 2 * n,
               (1 << 256) - 1, 1 << 256, (1 << 255), (1 << 255) - 1, (1 << 512) - 569, n * n, n * n - 1, -(n * n) + 7]
    uni = st.integers(1, n - 1)
    return st.one_of(st.sampled_from(special), uni, uni, uni.map(lambda v: -v), uni.map(lambda v: v + n),
                     st.integers(n, 1 << 300), st.sampled_from(sorted(boundary_set(1, n - 1))),
                     st.tuples(uni, st.integers(-3, 3)).map(lambda t: t[0] + t[1] * n),
                     bit_structured(n.bit_length() + 8),
                     st.tuples(bit_structured(n.bit_length()), st.integers(-3, 3)).map(lambda t: t[0] % n + t[1] * n))
