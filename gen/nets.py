"""All registered pycoin networks, loaded once, with their text prefixes (used by C08 and C18).

The prefixes are *read from the network objects* (they come from pycoin/symbols/*.py); the encodings applied
to them by the checks are the independent part (oracles/refenc.py, oracles/refaddr.py).
"""
import contextlib
import io

from hypothesis import strategies as st

from pycoin.networks.registry import network_for_netcode, network_codes

CODES = sorted(network_codes())
NETS = {c: network_for_netcode(c) for c in CODES}
# networks whose Base58 checksum needs the groestlcoin_hash C module (not installed here)
GRS = frozenset(c for c in CODES if type(NETS[c].parse).__name__ == "GRSParseAPI")
try:
    import groestlcoin_hash  # noqa
    GRS_USABLE = True
except ImportError:
    GRS_USABLE = False

PREFIX_ATTRS = ["address", "pay_to_script", "wif", "bip32_prv", "bip32_pub", "bip49_prv", "bip49_pub",
                "bip84_prv", "bip84_pub"]


def _pfx(code):
    p = NETS[code].parse
    d = {a: getattr(p, "_%s_prefix" % a) for a in PREFIX_ATTRS}
    d["p2sh"] = d["pay_to_script"]
    d["hrp"] = p._bech32_hrp
    d["sec"] = p._sec_prefix
    return d


PFX = {c: _pfx(c) for c in CODES}
HRPS = sorted({PFX[c]["hrp"] for c in CODES if PFX[c]["hrp"]})
ALL_B58_PREFIXES = sorted({PFX[c][a] for c in CODES for a in PREFIX_ATTRS if PFX[c][a] is not None})
# bytes that occur inside some network's multi-byte prefix: hashes starting with them can turn one network's
# address into a (wrong-length) payload under another network's longer prefix
PREFIX_BYTES = sorted({b for pf in ALL_B58_PREFIXES for b in pf})

KINDS = ["p2pkh", "p2sh", "p2wpkh", "p2wsh", "p2tr"]


def b58_usable(code):
    return code not in GRS or GRS_USABLE


def defines(code, kind):
    pf = PFX[code]
    if kind == "p2pkh":
        return pf["address"] is not None and b58_usable(code)
    if kind == "p2sh":
        return pf["p2sh"] is not None and b58_usable(code)
    return pf["hrp"] is not None


NET_KIND = [(c, k) for c in CODES for k in KINDS if defines(c, k)]


@contextlib.contextmanager
def quiet():
    """coins/groestlcoin/hash.py prints a hint to stdout every time the missing C module is needed"""
    with contextlib.redirect_stdout(io.StringIO()):
        yield


def nets():
    return st.sampled_from(CODES)


_FILL = [0x00, 0xff, 0x11, 0x99, 0x01, 0x80, 0x7f, 0x10]
_DIGITS = [0x00, 0x01, 0x10, 0x12, 0x45, 0x99, 0x90, 0x09]
_LAST = [0, 1, 16, 17, 0x4b, 0x4c, 0x81]


def mk_hash(n, mode, sel, raw):
    """pure shaping of one random blob (>= 34 bytes) into an n-byte hash; mode picks the class"""
    raw = (raw * 2)[:n]
    mode %= 10
    if mode <= 3:
        return raw
    if mode == 4:
        return bytes([_FILL[sel % len(_FILL)]]) * n
    if mode == 5:
        z = 1 + sel % n
        return (b"\0" * z + raw)[:n]
    if mode == 6:
        return bytes(_DIGITS[b % len(_DIGITS)] for b in raw)
    if mode in (7, 8):
        a = PREFIX_BYTES[sel % len(PREFIX_BYTES)]
        b = PREFIX_BYTES[raw[0] % len(PREFIX_BYTES)]
        return (bytes([a, b]) + raw)[:n]
    return raw[:n - 1] + bytes([_LAST[sel % len(_LAST)]])


def hash_parts():
    """(mode, sel, raw) triples for mk_hash: few primitive draws, shaped by a pure function"""
    return st.tuples(st.integers(0, 9), st.integers(0, 255), st.binary(min_size=34, max_size=34))


def hashes(n):
    """n-byte hashes: random, constant fill, leading zeros, decimal-digit-only hex, prefix-colliding first bytes"""
    return hash_parts().map(lambda t: mk_hash(n, *t))
