"""Hypothesis strategies for script recipes (see gen/scriptasm.py for the token language)."""
from hypothesis import strategies as st

from gen.common import weighted
from oracles import refvm as V

# ------------------------------------------------------------------------------- operands

INTERESTING_DATA = [
    "", "00", "80", "0080", "0000", "01", "02", "10", "11", "81", "7f", "ff", "0100", "8000", "ffff7f", "ffffff7f",
    "ffffffff", "ffffff7f00"[:8], "00000080", "0000008000", "ffffffff7f", "ffffffffff", "0100000000", "0000000080",
    "000000000080", "05", "14", "15", "e803", "000100", "ff00", "0081", "8080",
]
INTERESTING_NUMS = [0, 1, -1, 2, 16, 17, -2, 127, 128, -128, 255, 256, 32767, 32768, 2**31 - 1, 2**31, -(2**31 - 1),
                    -(2**31), 2**32 - 1, 2**39 - 1, 2**39, 499999999, 500000000, 500000001, 1 << 22, (1 << 22) | 5,
                    1 << 31, (1 << 31) | 7, 65535, 65536, 0x400000 + 0xffff, 3, 4, 5, 6, 20, 21]
BLOB_SIZES = [75, 76, 255, 256, 519, 520, 521]
ENCS = ["min", "min", "min", "min", "direct", "p1", "p2", "p4"]


def datas():
    return weighted((2, st.sampled_from(INTERESTING_DATA)), (1, st.binary(max_size=6).map(bytes.hex)))


def push_tok():
    d = st.tuples(st.just("d"), datas(), st.sampled_from(ENCS)).map(list)
    n = st.tuples(st.just("n"), st.one_of(st.sampled_from(INTERESTING_NUMS), st.integers(-20, 20)),
                  st.sampled_from(ENCS + ["opn", "opn", "opn"])).map(list)
    big = st.tuples(st.just("d"), st.builds(lambda size, byte: (bytes([byte]) * size).hex(),
                                            st.sampled_from(BLOB_SIZES), st.integers(0, 255)),
                    st.sampled_from(["min", "min", "p2", "p4"])).map(list)
    return weighted((4, d), (4, n), (1, big))


KEY_FORMS = ["c", "c", "c", "u", "u", "h", "hbad", "xgep", "off", "xnop", "p05", "short", "empty"]
SIG_VARIANTS = ["ok", "ok", "ok", "ok", "ok", "ok", "ok", "ok", "empty", "empty", "empty", "highs", "padr", "pads", "negr", "negs", "r0", "s0", "rn", "sn", "smax", "sn+low", "r33",
                "seqlen+1", "seqlen-1", "longlen", "longrlen", "rlen82", "rlen83", "rlen84", "rlen87", "slen83", "slen84", "slen8c", "rlen84nz",
                "slen85nz", "seq80", "seq83junk", "seq84", "trail", "pad520", "pad521", "notseq", "nohashtype", "empty", "wrongkey",
                "wrongmsg", "s-lastlow", "s-firsthigh", "s-halfp"]
# undefined hash-type bytes matter without STRICTENC: only the low five bits (and 0x80) select the algorithm, so
# 0x22 / 0x43 / 0xe3 ... are NONE / SINGLE with decoration, 0x21 / 0x41 / 0x00 / 0x04 behave like ALL
HASHTYPES = st.one_of(st.sampled_from([1, 1, 1, 2, 3, 0x81, 0x82, 0x83, 0, 4, 0x41, 0xff, 0x80, 0x21, 0x1f,
                                       0x22, 0x23, 0x42, 0x43, 0x62, 0x63, 0xa2, 0xa3, 0xc2, 0xc3, 0xe2, 0xe3, 0x24, 0x5f]),
                      st.integers(0, 255))


def key_tok(forms=KEY_FORMS):
    return st.tuples(st.just("key"), st.integers(0, 5), st.sampled_from(forms)).map(list)


def sig_tok(cs=st.just(0), variants=SIG_VARIANTS, hashtypes=HASHTYPES):
    return st.tuples(st.just("sig"), st.integers(0, 5), hashtypes, st.sampled_from(variants), cs).map(list)


# ------------------------------------------------------------------------------- operators with arity

ARITY = {}
for _op in (V.OP_IFDUP, V.OP_DROP, V.OP_DUP, V.OP_SIZE, V.OP_VERIFY, V.OP_TOALTSTACK, V.OP_RIPEMD160, V.OP_SHA1,
            V.OP_SHA256, V.OP_HASH160, V.OP_HASH256, V.OP_1ADD, V.OP_1SUB, V.OP_NEGATE, V.OP_ABS, V.OP_NOT,
            V.OP_0NOTEQUAL, V.OP_CHECKLOCKTIMEVERIFY, V.OP_CHECKSEQUENCEVERIFY, V.OP_2MUL, V.OP_2DIV, V.OP_INVERT):
    ARITY[_op] = 1
for _op in (V.OP_NIP, V.OP_OVER, V.OP_SWAP, V.OP_TUCK, V.OP_2DROP, V.OP_2DUP, V.OP_EQUAL, V.OP_EQUALVERIFY, V.OP_PICK,
            V.OP_ROLL, V.OP_ADD, V.OP_SUB, V.OP_BOOLAND, V.OP_BOOLOR, V.OP_NUMEQUAL, V.OP_NUMEQUALVERIFY,
            V.OP_NUMNOTEQUAL, V.OP_LESSTHAN, V.OP_GREATERTHAN, V.OP_LESSTHANOREQUAL, V.OP_GREATERTHANOREQUAL, V.OP_MIN,
            V.OP_MAX, V.OP_CAT, V.OP_AND, V.OP_OR, V.OP_XOR, V.OP_MUL, V.OP_DIV, V.OP_MOD, V.OP_LSHIFT, V.OP_RSHIFT,
            V.OP_LEFT, V.OP_RIGHT):
    ARITY[_op] = 2
for _op in (V.OP_ROT, V.OP_3DUP, V.OP_WITHIN, V.OP_SUBSTR):
    ARITY[_op] = 3
for _op in (V.OP_2OVER, V.OP_2SWAP):
    ARITY[_op] = 4
ARITY[V.OP_2ROT] = 6
for _op in (V.OP_NOP, V.OP_DEPTH, V.OP_FROMALTSTACK, V.OP_CODESEPARATOR, V.OP_NOP1, V.OP_NOP4, V.OP_NOP5, V.OP_NOP6,
            V.OP_NOP7, V.OP_NOP8, V.OP_NOP9, V.OP_NOP10, V.OP_RESERVED, V.OP_VER, V.OP_VERIF, V.OP_VERNOTIF,
            V.OP_RETURN, V.OP_RESERVED1, V.OP_RESERVED2, V.OP_1NEGATE, 0xba, 0xbb, 0xd0, 0xfa, 0xfd, 0xfe, 0xff,
            V.OP_ELSE, V.OP_ENDIF):
    ARITY[_op] = 0
COMMON_OPS = sorted(ARITY)
_ALWAYS_FAIL = set(V.DISABLED) | {V.OP_RESERVED, V.OP_VER, V.OP_VERIF, V.OP_VERNOTIF, V.OP_RETURN, V.OP_RESERVED1,
                                  V.OP_RESERVED2, 0xba, 0xbb, 0xd0, 0xfa, 0xfd, 0xfe, 0xff, V.OP_ELSE, V.OP_ENDIF}
GOOD_OPS = [o for o in COMMON_OPS if o not in _ALWAYS_FAIL and o not in (V.OP_VERIFY, V.OP_EQUALVERIFY, V.OP_NUMEQUALVERIFY)]
RISKY_OPS = sorted(_ALWAYS_FAIL | {V.OP_VERIFY, V.OP_EQUALVERIFY, V.OP_NUMEQUALVERIFY})


def op_stmt():
    """an operator preceded (usually) by as many pushes as it consumes"""
    good = st.sampled_from(GOOD_OPS)
    op = weighted((12, good), (1, st.sampled_from(RISKY_OPS)), (1, st.integers(0x4f, 0xff)))

    def with_pushes(op_supply):
        op, supply = op_supply
        a = ARITY.get(op, 0)
        k = a if supply else max(0, a - 1)
        return st.lists(push_tok(), min_size=k, max_size=k).map(lambda ps: ps + [["op", op]])
    return st.tuples(op, st.sampled_from([True, True, True, True, False])).flatmap(with_pushes)


def related_numbers_stmt():
    """comparison / arithmetic operators on operands that are equal or adjacent (x, x+1, x-1): the boundaries of
    WITHIN, LESSTHAN(OREQUAL), MIN/MAX, NUMEQUAL live there"""
    ops3 = [V.OP_WITHIN]
    ops2 = [V.OP_LESSTHAN, V.OP_GREATERTHAN, V.OP_LESSTHANOREQUAL, V.OP_GREATERTHANOREQUAL, V.OP_MIN, V.OP_MAX, V.OP_NUMEQUAL,
            V.OP_NUMNOTEQUAL, V.OP_NUMEQUALVERIFY, V.OP_BOOLAND, V.OP_BOOLOR, V.OP_ADD, V.OP_SUB, V.OP_EQUAL]
    base = st.one_of(st.integers(-3, 3), st.sampled_from([0, 1, -1, 16, 17, 127, 128, 255, 256, 2**31 - 1, -(2**31 - 1), 2**31 - 2]))
    d = st.sampled_from([-1, 0, 0, 1])
    enc = st.sampled_from(["opn", "opn", "min", "min", "p1"])

    def mk(op, b, d1, d2, d3, e):
        nums = [b + d1, b + d2, b + d3][:3 if op in ops3 else 2]
        return [["n", v, e] for v in nums] + [["op", op]]
    return st.builds(mk, weighted((1, st.sampled_from(ops3)), (2, st.sampled_from(ops2))), base, d, d, d, enc)


# how the number of a CLTV / CSV operand is encoded: minimally, or padded with zero bytes (same value)
NUM_FORMS = st.sampled_from(["min"] * 5 + ["pad1", "pad2", "to5"])


def locktime_stmt():
    """CLTV / CSV with an operand related to the transaction's own lock time / input sequence"""
    kinds = ["eq", "+1", "-1", "bit16", "bit17", "bit21", "bit22", "bit23", "bit31", "mask16", "era", "neg", "zero", "big5"]
    return st.builds(lambda which, kind, enc, drop, form: [["ctxnum", "locktime" if which == V.OP_CHECKLOCKTIMEVERIFY else "sequence", kind, enc, form],
                                                           ["op", which]] + ([["op", V.OP_DROP]] if drop else []),
                     st.sampled_from([V.OP_CHECKLOCKTIMEVERIFY, V.OP_CHECKSEQUENCEVERIFY]), st.sampled_from(kinds),
                     st.sampled_from(["min", "min", "min", "p1"]), st.booleans(), NUM_FORMS)


def pick_roll_stmt():
    return st.builds(lambda ps, n, enc, op: ps + [["n", n, enc], ["op", op]],
                     st.lists(push_tok(), min_size=0, max_size=4),
                     st.one_of(st.integers(-1, 5), st.sampled_from([2**31, 2**32, 2**31 - 1, 256])),
                     st.sampled_from(["opn", "min", "p1", "direct"]), st.sampled_from([V.OP_PICK, V.OP_ROLL]))


def checksig_stmt(cs=st.just(0)):
    def mk(sig, key, op, sep):
        return ([["op", V.OP_CODESEPARATOR]] if sep else []) + [sig, key, ["op", op]]
    return st.builds(mk, sig_tok(cs), key_tok(), st.sampled_from([V.OP_CHECKSIG, V.OP_CHECKSIG, V.OP_CHECKSIGVERIFY]),
                     st.just(False))


def multisig_stmt(cs=st.just(0), sig_variants=SIG_VARIANTS, key_forms=KEY_FORMS):
    def mk(n, m, keyforms, sigvars, hts, dummy, nenc, order, drop, op, count_delta):
        n = min(n, 20)
        m = min(m, n)
        keys = [["key", i % 6, keyforms[i % len(keyforms)]] for i in range(n)]
        signers = list(range(n))[:m] if order == 0 else (list(range(n))[-m:] if order == 1 else list(range(n))[:m][::-1])
        sigs = [["sig", i % 6, hts[j % len(hts)], sigvars[j % len(sigvars)], 0] for j, i in enumerate(signers)]
        if drop and sigs:
            sigs = sigs[:-1]
        return ([dummy] + sigs + [["n", m, nenc]] + keys + [["n", n + count_delta, nenc], ["op", op]])
    return st.builds(mk, st.one_of(st.integers(0, 4), st.sampled_from([0, 1, 2, 3, 15, 16, 20, 21])), st.integers(0, 4),
                     st.lists(st.sampled_from(key_forms), min_size=1, max_size=4),
                     st.lists(st.sampled_from(sig_variants), min_size=1, max_size=3),
                     st.lists(HASHTYPES, min_size=1, max_size=3),
                     st.sampled_from([["n", 0, "opn"], ["n", 0, "opn"], ["n", 0, "opn"], ["n", 1, "opn"], ["d", "00", "min"]]),
                     st.sampled_from(["opn", "opn", "opn", "min", "direct", "p1"]), st.integers(0, 2), st.booleans().map(lambda b: b and False),
                     st.sampled_from([V.OP_CHECKMULTISIG, V.OP_CHECKMULTISIG, V.OP_CHECKMULTISIGVERIFY]),
                     st.sampled_from([0, 0, 0, 0, 0, 1, -1]))


def stmt_list(depth):
    base = weighted((2, push_tok().map(lambda t: [t])), (10, op_stmt()), (1, pick_roll_stmt()),
                    (1, checksig_stmt()), (1, multisig_stmt()), (1, locktime_stmt()), (2, related_numbers_stmt()))
    if depth <= 0:
        return st.lists(base, max_size=5).map(lambda ls: [t for l in ls for t in l])

    def if_block(cond, op, then, has_else, els, extra_else, close):
        out = [cond, ["op", op]] + then
        if has_else:
            out += [["op", V.OP_ELSE]] + els
        if extra_else:
            out += [["op", V.OP_ELSE]] + then[:2]
        if close:
            out += [["op", V.OP_ENDIF]]
        return out
    inner = st.deferred(lambda: stmt_list(depth - 1))
    blk = st.builds(if_block, push_tok(), st.sampled_from([V.OP_IF, V.OP_NOTIF]), inner, st.booleans(), inner,
                    st.sampled_from([False, False, False, True]), st.sampled_from([True] * 9 + [False]))
    return st.lists(weighted((4, base), (1, blk)), max_size=6).map(lambda ls: [t for l in ls for t in l])


def limit_programs():
    """programs sitting right at a consensus limit"""
    nop = ["op", V.OP_NOP]
    one = ["n", 1, "opn"]
    opcount = st.builds(lambda k, tail: [one, ["rep", [nop], k]] + tail, st.sampled_from([199, 200, 201, 202]),
                        st.sampled_from([[], [["op", V.OP_NOP]], [["n", 0, "opn"], ["op", V.OP_IF], ["op", V.OP_RESERVED], ["op", V.OP_ENDIF]],
                                         [["n", 0, "opn"], ["op", V.OP_IF], ["op", 0x4f], ["op", V.OP_ENDIF]]]))
    msig_opcount = st.builds(lambda k, n: [["rep", [nop], k], ["n", 0, "opn"], ["n", 0, "opn"]] +
                             [["key", i % 6, "c"] for i in range(n)] + [["n", n, "opn" if n <= 16 else "min"], ["op", V.OP_CHECKMULTISIG], ["op", V.OP_NOT]],
                             st.sampled_from([179, 180, 181, 182, 190, 196, 197, 198, 199, 200]), st.sampled_from([0, 1, 2, 3, 20, 19]))
    # pushes are not counted as operations, so 1000 stack items are reached with OP_1 x k (DUP chains stop at 201 ops);
    # "tail" optionally moves some to the altstack (the limit is on the sum) or duplicates the top
    stack = st.builds(lambda k, alt, tail: [["rep", [one], k]] + ([["rep", [["op", V.OP_TOALTSTACK]], alt]] if alt else []) + tail,
                      st.sampled_from([998, 999, 1000, 1001]), st.sampled_from([0, 0, 3, 150]),
                      st.sampled_from([[], [], [["op", V.OP_DUP]], [["op", V.OP_3DUP]], [["op", V.OP_DROP]], [["op", V.OP_DEPTH]]]))
    size = st.builds(lambda total, blob: [["rep", [["d", "aa" * blob, "min"], ["op", V.OP_DROP]], (total // (blob + 4)) - 1],
                                          ["d", "bb" * max(0, total - ((total // (blob + 4)) - 1) * (blob + 4) - 3 - 1), "p2"], ["op", V.OP_DROP], one][:],
                     st.sampled_from([9999, 10000, 10001, 10002]), st.just(516))
    deadpush = st.builds(lambda n, enc: [["n", 0, "opn"], ["op", V.OP_IF], ["d", "cc" * n, enc], ["op", V.OP_ENDIF], one],
                         st.sampled_from([520, 521]), st.sampled_from(["min", "p4"]))
    trunc = st.builds(lambda raw: [one, ["raw", raw]], st.sampled_from(["4c", "4d", "4d01", "4e", "4e010000", "4c05aabb", "05aabbcc", "4b", "4d0200aa", "4e02000000aa"]))
    dead_trunc = st.builds(lambda raw: [["n", 0, "opn"], ["op", V.OP_IF], ["raw", raw], ["op", V.OP_ENDIF], one],
                           st.sampled_from(["4c", "4d01", "4e010000", "4d", "4c00", "4d0000"]))
    return st.one_of(opcount, msig_opcount, stack, size, deadpush, trunc, dead_trunc)


def programs():
    tail = st.sampled_from([[], [["n", 1, "opn"]], [["n", 1, "opn"]], [["op", V.OP_DEPTH], ["op", V.OP_0NOTEQUAL]], [["n", 0, "opn"]]])
    g2 = st.builds(lambda a, t: a + t, stmt_list(2), tail)
    g1 = st.builds(lambda a, t: a + t, stmt_list(1), tail)
    return weighted((5, g2), (4, g1), (1, limit_programs()))


# ------------------------------------------------------------------------------- flags / context

CONSENSUS = V.P2SH | V.DERSIG | V.NULLDUMMY | V.CHECKLOCKTIMEVERIFY | V.CHECKSEQUENCEVERIFY | V.WITNESS
STANDARD = (CONSENSUS | V.STRICTENC | V.MINIMALDATA | V.DISCOURAGE_UPGRADABLE_NOPS | V.CLEANSTACK | V.MINIMALIF |
            V.NULLFAIL | V.LOW_S | V.DISCOURAGE_UPGRADABLE_WITNESS_PROGRAM | V.WITNESS_PUBKEYTYPE)


def normalize_flags(f):
    if f & V.CLEANSTACK:
        f |= V.P2SH | V.WITNESS
    if f & V.WITNESS:
        f |= V.P2SH
    return f & V.ALL_FLAGS


def flagsets():
    single = st.integers(0, 15).map(lambda i: 1 << i)
    return st.one_of(
        st.sampled_from([0, V.P2SH, CONSENSUS, STANDARD, STANDARD, CONSENSUS, V.P2SH | V.WITNESS]),
        st.builds(lambda a, b: STANDARD & ~a & ~b, single, single),
        st.builds(lambda a, b: CONSENSUS | a | b, single, single),
        st.builds(lambda a, b: a | b, single, single),
        st.integers(0, 0xffff),
        # flag sets without any of the three signature-encoding rules (DERSIG / LOW_S / STRICTENC): only under these are
        # the lax DER forms, padded signatures and undefined hash types accepted, so that the *other* rules decide
        st.builds(lambda base, extra: base | (extra & ~(V.DERSIG | V.LOW_S | V.STRICTENC)),
                  st.sampled_from([V.P2SH | V.WITNESS, V.P2SH | V.WITNESS, V.P2SH, 0]), st.integers(0, 0xffff)),
        st.sampled_from([V.P2SH | V.WITNESS, V.P2SH | V.WITNESS | V.NULLFAIL, V.P2SH | V.WITNESS | V.NULLDUMMY | V.CHECKLOCKTIMEVERIFY]),
    ).map(normalize_flags)


def contexts():
    return st.fixed_dictionaries({
        "version": st.sampled_from([1, 2, 2, 0, 3, 0xffffffff, 0x80000000]),
        "locktime": st.sampled_from([0, 1, 100, 499999999, 500000000, 500000001, 0xffffffff]),
        "sequence": st.sampled_from([0xffffffff, 0xfffffffe, 0, 1, 5, 1 << 22, (1 << 22) | 5, 1 << 31, 0xffff, 0x40ffff,
                                     (1 << 31) | 5, 100]),
        "amount": st.sampled_from([0, 1, 1000, 21 * 10**14, 2**63 - 1, 2**64 - 1]),
        "n_in": st.sampled_from([0, 0, 0, 1, 2]),
        "n_ins": st.sampled_from([1, 1, 2, 3]),
        "n_outs": st.sampled_from([1, 1, 0, 2, 3]),
    })


# ------------------------------------------------------------------------------- eval-level cases


def eval_cases():
    def mk(prog, stack, flags, ctx, sv):
        if sv == 0:
            flags &= ~(V.MINIMALIF | V.WITNESS_PUBKEYTYPE)
        return dict(ctx, kind="eval", prog=prog, stack=stack, flags=flags, sigversion=sv)
    plain = st.builds(mk, programs(), st.lists(datas(), max_size=4), flagsets(), contexts(), st.sampled_from([0, 0, 1]))

    # a signature-bearing lock program evaluated directly, its unlocking items (signatures valid by construction for
    # the chosen sigversion) supplied as the initial stack; a few extra operations may follow
    def mk_sig(lu, tail, flags, ctx, sv):
        lock, unlock = lu
        return mk(lock + tail, [["tok", t] for t in unlock], flags, ctx, sv)
    tail = st.sampled_from([[], [], [], [["op", V.OP_NOT]], [["op", V.OP_DUP]], [["n", 1, "opn"], ["op", V.OP_BOOLAND]], [["op", V.OP_VERIFY], ["n", 1, "opn"]]])
    signed = st.builds(mk_sig, lock_templates(), tail, flagsets(), contexts(), st.sampled_from([0, 1]))
    return weighted((3, plain), (1, signed))


# ------------------------------------------------------------------------------- spend-level cases

STD_HT = st.sampled_from([1, 1, 1, 2, 3, 0x81, 0x82, 0x83])


def lock_templates():
    """(lock tokens, unlock tokens) for signature-bearing standard-ish locks; signatures valid by construction
    unless a variant says otherwise"""
    def p2pk(k, form, ht, var, sep, op, neg):
        lock = ([["op", V.OP_CODESEPARATOR]] if sep else []) + [["key", k, form], ["op", op]] + ([["n", 1, "opn"]] if op == V.OP_CHECKSIGVERIFY else [])
        if neg and op == V.OP_CHECKSIG:
            lock.append(["op", V.OP_NOT])      # a failed check that is then negated: NULLFAIL must still abort
        return lock, [["sig", k, ht, var, 1 if sep else 0]]

    def p2pkh(k, form, ht, var):
        from gen import scriptasm as A
        lock = [["op", V.OP_DUP], ["op", V.OP_HASH160], ["d", A.hash160(A.key_blob(k, form)).hex(), "min"],
                ["op", V.OP_EQUALVERIFY], ["op", V.OP_CHECKSIG]]
        return lock, [["sig", k, ht, var, 0], ["key", k, form]]

    def msig(n, m, forms, vars_, hts, order, dummy, op, nenc, neg):
        m = min(m, n)
        keys = [["key", i % 6, forms[i % len(forms)]] for i in range(n)]
        signers = list(range(n))
        if order == 0:
            signers = signers[:m]
        elif order == 1:
            signers = signers[n - m:]
        elif order == 2:
            signers = signers[:m][::-1]
        else:
            signers = signers[::2][:m]
        sigs = [["sig", i % 6, hts[j % len(hts)], vars_[j % len(vars_)], 0] for j, i in enumerate(signers)]
        lock = [["n", m, nenc]] + keys + [["n", n, nenc], ["op", op]] + ([["n", 1, "opn"]] if op == V.OP_CHECKMULTISIGVERIFY else [])
        if neg and op == V.OP_CHECKMULTISIG:
            lock.append(["op", V.OP_NOT])
        return lock, [dummy] + sigs

    def msig_partial(n, m, bad_mask, bad_kind, ht, neg, form):
        # an m-of-n multisig whose signatures are all valid except a generated subset (empty / wrong key / wrong message)
        m = max(1, min(m, n))
        keys = [["key", i % 6, form] for i in range(n)]
        sigs = []
        for j in range(m):
            var = bad_kind[j % len(bad_kind)] if (bad_mask >> j) & 1 else "ok"
            sigs.append(["sig", j % 6, ht, var, 0])
        lock = [["n", m, "opn"]] + keys + [["n", n, "opn"], ["op", V.OP_CHECKMULTISIG]] + ([["op", V.OP_NOT]] if neg else [])
        return lock, [["n", 0, "opn"]] + sigs

    def embedded(k, ht, sep):
        # signature pushed by the lock script itself (FindAndDelete), optionally after a code separator
        lock = ([["op", V.OP_CODESEPARATOR]] if sep else []) + [["sig", k, ht, "ok", 1 if sep else 0], ["key", k, "c"], ["op", V.OP_CHECKSIG]]
        return lock, []

    def two_sigops(ka, kb, hta, htb, order, bad):
        # two signature operations in one legacy script, one of them checking a signature the script pushes itself:
        # the two operations hash different script codes even when their hash types are equal
        emb = ["sig", kb, htb, "ok", 0]
        sa = ["sig", ka, hta, "wrongmsg" if bad else "ok", 0]
        if order == 0:
            lock = [["key", ka, "c"], ["op", V.OP_CHECKSIGVERIFY], emb, ["key", kb, "c"], ["op", V.OP_CHECKSIG]]
        elif order == 1:
            lock = [emb, ["key", kb, "c"], ["op", V.OP_CHECKSIGVERIFY], ["key", ka, "c"], ["op", V.OP_CHECKSIG]]
        else:
            lock = [["key", ka, "c"], ["op", V.OP_CHECKSIG], ["op", V.OP_SWAP if False else V.OP_VERIFY], emb, ["key", kb, "c"], ["op", V.OP_CHECKSIG]]
        return lock, [sa]

    def sig_copy(k, ht, where, verify_op):
        # the lock script pushes (and drops) a byte-identical copy of the very signature the unlocking side supplies:
        # before an executed separator the copy is outside the hashed code and must not be searched for; after it (or
        # without one) FindAndDelete removes it from the hashed code
        S, D = ["op", V.OP_CODESEPARATOR], ["op", V.OP_DROP]
        tail = [["key", k, "c"], ["op", V.OP_CHECKSIGVERIFY], ["n", 1, "opn"]] if verify_op else [["key", k, "c"], ["op", V.OP_CHECKSIG]]
        if where == 0:       # copy, then separator
            return [["sig", k, ht, "ok", 1], D, S] + tail, [["sig", k, ht, "ok", -2]]
        if where == 1:       # separator, then copy
            return [S, ["sig", k, ht, "ok", 1], D] + tail, [["sig", k, ht, "ok", -2]]
        if where == 2:       # no separator
            return [["sig", k, ht, "ok", 0], D] + tail, [["sig", k, ht, "ok", -1]]
        # copies on both sides of the separator
        return [["sig", k, ht, "ok", 1], D, S, ["sig", k, ht, "ok", 1], D] + tail, [["sig", k, ht, "ok", -2]]

    def sep_templates(ka, kb, hta, htb, shape_, cond, bad):
        # OP_CODESEPARATOR in the middle of a script, doubled, and inside executed / unexecuted branches: each signature
        # operation hashes the script from the last *executed* separator
        S = ["op", V.OP_CODESEPARATOR]
        va = "wrongmsg" if bad == 1 else "ok"
        vb = "wrongmsg" if bad == 2 else "ok"
        if shape_ == 0:      # A checked before the separator, B after it
            lock = [["key", ka, "c"], ["op", V.OP_CHECKSIGVERIFY], S, ["key", kb, "c"], ["op", V.OP_CHECKSIG]]
            return lock, [["sig", kb, htb, vb, 1], ["sig", ka, hta, va, 0]]
        if shape_ == 1:      # two separators in a row, then one more between the operations
            lock = [S, S, ["key", ka, "c"], ["op", V.OP_CHECKSIGVERIFY], S, ["key", kb, "c"], ["op", V.OP_CHECKSIG]]
            return lock, [["sig", kb, htb, vb, 3], ["sig", ka, hta, va, 2]]
        if shape_ == 2:      # separator inside a branch chosen by the unlocking side
            lock = [["op", V.OP_IF], S, ["op", V.OP_ENDIF], ["key", ka, "c"], ["op", V.OP_CHECKSIG]]
            return lock, [["sig", ka, hta, va, 1 if cond else 0], ["n", 1 if cond else 0, "opn"]]
        if shape_ == 3:      # separator in the ELSE branch, another one before the IF
            lock = [S, ["op", V.OP_IF], ["n", 5, "opn"], ["op", V.OP_DROP], ["op", V.OP_ELSE], S, ["op", V.OP_ENDIF], ["key", ka, "c"], ["op", V.OP_CHECKSIG]]
            return lock, [["sig", ka, hta, va, 1 if cond else 2], ["n", 1 if cond else 0, "opn"]]
        # separator after the last signature operation (still part of the hashed code, never executed before it)
        lock = [["key", ka, "c"], ["op", V.OP_CHECKSIGVERIFY], ["n", 1, "opn"], S]
        return lock, [["sig", ka, hta, va, 0]]

    def cltv(k, n, ht, which, kind, form):
        num = ["n", n, "min"] if kind is None else ["ctxnum", "locktime" if which == V.OP_CHECKLOCKTIMEVERIFY else "sequence", kind, "min", form]
        lock = [num, ["op", which], ["op", V.OP_DROP], ["key", k, "c"], ["op", V.OP_CHECKSIG]]
        return lock, [["sig", k, ht, "ok", 0]]

    def ifsig(k, ht, cond):
        lock = [["op", V.OP_IF], ["key", k, "c"], ["op", V.OP_CHECKSIG], ["op", V.OP_ELSE], ["n", 1, "opn"], ["op", V.OP_ENDIF]]
        return lock, [["sig", k, ht, "ok", 0], cond]

    ks = st.integers(0, 5)
    forms = st.sampled_from(["c", "c", "c", "u", "u", "h", "hbad", "xgep", "off", "xnop", "xnop", "p05"])
    vars_ = st.sampled_from(SIG_VARIANTS)
    ht = weighted((2, STD_HT), (1, HASHTYPES))
    return st.one_of(
        st.builds(p2pk, ks, forms, ht, vars_, st.booleans(), st.sampled_from([V.OP_CHECKSIG, V.OP_CHECKSIG, V.OP_CHECKSIGVERIFY]),
                  st.sampled_from([False, False, False, True])),
        st.builds(p2pkh, ks, forms, ht, vars_),
        st.builds(msig, st.one_of(st.integers(1, 4), st.sampled_from([15, 16, 20])), st.integers(0, 3),
                  st.lists(forms, min_size=1, max_size=3), st.lists(vars_, min_size=1, max_size=3),
                  st.lists(ht, min_size=1, max_size=2), st.integers(0, 3),
                  st.sampled_from([["n", 0, "opn"]] * 4 + [["n", 1, "opn"], ["d", "00", "min"]]),
                  st.sampled_from([V.OP_CHECKMULTISIG, V.OP_CHECKMULTISIG, V.OP_CHECKMULTISIGVERIFY]),
                  st.sampled_from(["opn", "opn", "opn", "min", "p1"]), st.sampled_from([False, False, True])),
        st.builds(embedded, ks, ht, st.booleans()),
        st.builds(sep_templates, ks, ks, STD_HT, STD_HT, st.integers(0, 4), st.booleans(), st.sampled_from([0, 0, 0, 1, 2])),
        st.builds(sig_copy, ks, STD_HT, st.integers(0, 3), st.booleans()),
        st.builds(two_sigops, ks, ks, STD_HT, weighted((2, st.just(1)), (1, STD_HT)), st.integers(0, 2), st.sampled_from([False, False, False, True])),
        st.builds(msig_partial, st.integers(2, 5), st.integers(1, 4), st.integers(0, 15),
                  st.lists(st.sampled_from(["empty", "empty", "wrongkey", "wrongmsg", "highs"]), min_size=1, max_size=2), STD_HT,
                  st.booleans(), st.sampled_from(["c", "c", "u"])),
        st.builds(cltv, ks, st.sampled_from(INTERESTING_NUMS), STD_HT, st.sampled_from([V.OP_CHECKLOCKTIMEVERIFY, V.OP_CHECKSEQUENCEVERIFY]),
                  st.sampled_from([None, "eq", "eq", "+1", "-1", "bit16", "bit21", "bit22", "bit31", "mask16", "era"]), NUM_FORMS),
        st.builds(ifsig, ks, STD_HT, st.sampled_from([["n", 1, "opn"], ["n", 0, "opn"], ["d", "02", "min"], ["d", "0100", "min"], ["d", "00", "min"]])),
    )


def muts():
    small = st.sampled_from([[["op", V.OP_NOP]], [["n", 0, "opn"]], [["n", 1, "opn"]], [["n", 1, "opn"], ["op", V.OP_DROP]],
                             [["d", "aa", "min"]], [["op", V.OP_DEPTH]]])
    return st.lists(st.one_of(
        st.tuples(st.just("sig-append"), small).map(list),
        st.tuples(st.just("sig-prepend"), small).map(list),
        st.tuples(st.just("wit-append"), st.lists(st.sampled_from(["", "01", "aa" * 520, "aa" * 521]), min_size=1, max_size=2)).map(list),
        st.tuples(st.just("wit-prepend"), st.lists(st.sampled_from(["", "01", "00", "aa" * 520, "aa" * 521]), min_size=1, max_size=2)).map(list),
        st.just(["wit-clear"]),
        st.tuples(st.just("wit-big"), st.integers(0, 5), st.sampled_from([520, 521, 600])).map(list),
        st.tuples(st.just("spk-version"), st.integers(1, 16)).map(list),
        st.tuples(st.just("spk-proglen"), st.sampled_from([1, 2, 19, 20, 21, 31, 32, 33, 40, 41])).map(list),
        st.tuples(st.just("spk-flip"), st.integers(0, 40), st.integers(0, 7)).map(list),
        st.just(["sig-raw", ""]),
    ), max_size=2)


def spend_cases():
    shapes = st.sampled_from(["bare", "bare", "p2sh", "p2sh", "p2wsh", "p2wsh", "p2sh-p2wsh"])

    def mk(shape, lu, flags, ctx, mut, use_mut, renc):
        lock, unlock = lu
        c = dict(ctx, kind="spend", shape=shape, lock=lock, unlock=unlock, flags=flags, mut=mut if use_mut else [])
        if renc != "min":
            c["redeem_enc"] = renc
        return c
    templ = st.builds(mk, shapes, lock_templates(), flagsets(), contexts(), muts(), st.sampled_from([False, False, True]),
                      st.sampled_from(["min"] * 6 + ["p1", "p2", "p4"]))
    # arbitrary programs as locks, unlocked by plain pushes
    grammar = st.builds(mk, shapes, st.tuples(programs(), st.lists(push_tok(), max_size=3)), flagsets(), contexts(), muts(),
                        st.sampled_from([False, False, True]), st.sampled_from(["min"] * 6 + ["p1", "p2"]))

    # unlocking scripts that execute code (legal for a bare output unless SIGPUSHONLY is set): conditionals, signature
    # operations and arithmetic run in the scriptSig, whose evaluation takes only some of the flags (MINIMALIF and
    # WITNESS_PUBKEYTYPE are segwit-v0 rules and do not apply there)
    def mk_exec(lock_tail, unlock_prog, flags, ctx):
        return dict(ctx, kind="spend", shape="bare", lock=lock_tail, unlock=unlock_prog, flags=flags, mut=[])
    simple_locks = st.sampled_from([[["n", 1, "opn"], ["op", V.OP_EQUAL]], [["op", V.OP_DEPTH], ["op", V.OP_0NOTEQUAL]], [],
                                    [["op", V.OP_NOT]], [["op", V.OP_VERIFY], ["n", 1, "opn"]], [["op", V.OP_DROP], ["n", 1, "opn"]]])
    cond_unlock = st.builds(lambda arg, op, a, b: [arg, ["op", op], a, ["op", V.OP_ELSE], b, ["op", V.OP_ENDIF]],
                            st.sampled_from([["n", 2, "opn"], ["d", "02", "min"], ["d", "0100", "min"], ["n", 1, "opn"], ["n", 0, "opn"],
                                             ["d", "00", "min"], ["d", "80", "min"], ["d", "0001", "min"]]),
                            st.sampled_from([V.OP_IF, V.OP_NOTIF]), st.sampled_from([["n", 1, "opn"], ["n", 0, "opn"]]),
                            st.sampled_from([["n", 1, "opn"], ["n", 0, "opn"]]))
    sig_unlock = st.builds(lambda k, form, neg: [["n", 0, "opn"], ["key", k, form], ["op", V.OP_CHECKSIG]] + ([["op", V.OP_NOT]] if neg else []),
                           st.integers(0, 5), st.sampled_from(["u", "c", "h", "hbad"]), st.booleans())
    exec_sig = st.builds(mk_exec, simple_locks, st.one_of(cond_unlock, cond_unlock, sig_unlock, stmt_list(1)),
                         st.one_of(flagsets(), st.sampled_from([V.MINIMALIF, V.WITNESS_PUBKEYTYPE, V.P2SH | V.WITNESS | V.MINIMALIF,
                                                                V.P2SH | V.WITNESS | V.WITNESS_PUBKEYTYPE | V.MINIMALIF, STANDARD & ~V.SIGPUSHONLY])),
                         contexts())

    def mk_wpkh(shape, k, form, ht, var, flags, ctx, mut, use_mut, extra):
        unlock = [["sig", k, ht, var, 0], ["key", k, form]] + extra
        return dict(ctx, kind="spend", shape=shape, lock=[["key", k, form]], unlock=unlock, flags=flags,
                    mut=mut if use_mut else [])
    wpkh = st.builds(mk_wpkh, st.sampled_from(["p2wpkh", "p2sh-p2wpkh"]), st.integers(0, 5),
                     st.sampled_from(["c", "c", "c", "u", "h", "xgep", "xnop"]), st.one_of(STD_HT, HASHTYPES),
                     # the element-size limit also applies to the two witness items of a P2WPKH spend: signatures padded to
                     # 520 / 521 bytes (still valid for the lax parser) are drawn as often as all other variants together
                     weighted((3, st.sampled_from(SIG_VARIANTS)), (1, st.sampled_from(["pad520", "pad521", "pad521"]))),
                     flagsets(), contexts(), muts(), st.sampled_from([False, False, True]),
                     st.sampled_from([[], [], [], [["n", 1, "opn"]]]))

    # big witness scripts / near-P2SH templates / raw scriptPubKeys
    def mk_raw(spk, sig, wit, flags, ctx):
        return dict(ctx, kind="spend", shape="bare", lock=[["raw", spk]], unlock=[["raw", sig]], flags=flags,
                    mut=[["wit-append", wit]] if wit else [])
    import hashlib
    h160_of_51 = hashlib.new("ripemd160", hashlib.sha256(b"\x51").digest()).digest().hex()
    raw_spks = [
        "a914" + h160_of_51 + "87",                            # genuine P2SH of OP_1
        "a913" + h160_of_51[:38] + "87",                       # 22 bytes: HASH160 <19> EQUAL
        "a915" + h160_of_51 + "aa" + "87",                     # 24 bytes
        "a913" + "00" * 19 + "7587",                           # 23 bytes HASH160 <19 bytes> DROP EQUAL: not P2SH
        "a94c13" + h160_of_51[:38] + "87",                     # 23 bytes with a PUSHDATA1: not P2SH
        "0014" + "00" * 20, "0020" + "00" * 32, "5114" + "00" * 20, "60020000", "0013" + "00" * 19, "0021" + "00" * 33,
        "0028" + "11" * 40, "0029" + "11" * 41, "5128" + "11" * 40, "6028" + "11" * 40, "5129" + "11" * 41, "0002" + "1111",
        "0020" + "11" * 32, "0014" + "11" * 20, "5102" + "1111", "4f14" + "00" * 20, "0014" + "00" * 19, "004c14" + "00" * 20,
        "5102" + "0000", "0002" + "0000", "51", "00", "", "6a",
    ]
    raw = st.builds(mk_raw, st.sampled_from(raw_spks), st.sampled_from(["", "51", "0151", "00", "5151", "61", "5175", "0000"]),
                    st.sampled_from([[], [], ["01"], ["51"], ["", "51"]]), flagsets(), contexts())
    # scriptPubKeys at the edges of the witness-program definition: version opcode x push length (script size 4..42)
    def mk_wp(ver, ln, fill, sig, wit, flags, ctx, wrap):
        prog = bytes([fill]) * ln
        spk = bytes([ver]) + (bytes([ln]) if ln <= 75 else b"\x4c" + bytes([ln])) + prog
        if wrap:     # the same bytes as a P2SH redeem script
            return dict(ctx, kind="spend", shape="p2sh", lock=[["raw", spk.hex()]], unlock=[], flags=flags,
                        mut=[["wit-append", wit]] if wit else [])
        return mk_raw(spk.hex(), sig, wit, flags, ctx)
    wprog = st.builds(mk_wp, st.sampled_from([0x00, 0x00, 0x51, 0x51, 0x52, 0x60, 0x4f, 0x50, 0x61]),
                      st.sampled_from([0, 1, 2, 3, 19, 20, 21, 31, 32, 33, 39, 40, 40, 41, 41, 42, 76]), st.sampled_from([0x11, 0x11, 0x00, 0x01]),
                      st.sampled_from(["", "", "", "51", "00"]), st.sampled_from([[], [], ["01"], ["", "51"]]), flagsets(), contexts(),
                      st.sampled_from([False, False, True]))
    return weighted((10, templ), (6, grammar), (4, wpkh), (2, raw), (2, wprog), (1, exec_sig))


# ------------------------------------------------------------------------------- raw byte scripts


def raw_scripts(max_size=40):
    """byte strings weighted towards opcode values, small pushes and push-length bytes"""
    byte = weighted((6, st.sampled_from(GOOD_OPS)), (2, st.integers(0, 0x60)), (1, st.integers(0, 255)),
                    (1, st.sampled_from([0x4c, 0x4d, 0x4e, 0x00, 0x01, 0x02, 0x51, 0x63, 0x64, 0x67, 0x68, 0xac, 0xae, 0xab, 0xb1, 0xb2])))
    return st.lists(byte, max_size=max_size).map(lambda l: bytes(l).hex())


def raw_spend_cases():
    def mk(sig, spk, wit, flags, ctx):
        return dict(ctx, kind="spend", shape="bare", lock=[["raw", spk]], unlock=[["raw", sig]], flags=flags,
                    mut=[["wit-append", wit]] if wit else [])
    wit = weighted((5, st.just([])), (1, st.lists(raw_scripts(8), min_size=1, max_size=2)))
    tail_true = st.sampled_from(["", "", "51", "51", "7451", "007451"[2:]])
    return st.builds(lambda sig, spk, t, w, f, c: mk(sig, spk + t, w, f, c), raw_scripts(12), raw_scripts(40), tail_true, wit, flagsets(), contexts())


def raw_eval_cases():
    def mk(prog, stack, flags, ctx, sv):
        if sv == 0:
            flags &= ~(V.MINIMALIF | V.WITNESS_PUBKEYTYPE)
        return dict(ctx, kind="eval", prog=[["raw", prog]], stack=stack, flags=flags, sigversion=sv)
    return st.builds(mk, raw_scripts(60), st.lists(datas(), max_size=4), flagsets(), contexts(), st.sampled_from([0, 0, 1]))
