"""Shared Hypothesis strategies.  Cases are JSON-serialisable: ints, hex strings, lists, dicts."""
from hypothesis import strategies as st

SECP_P = 2**256 - 2**32 - 977
SECP_N = 0xFFFFFFFFFFFFFFFFFFFFFFFFFFFFFFFEBAAEDCE6AF48A03BBFD25E8CD0364141


def hexbytes(min_size=0, max_size=64):
    return st.binary(min_size=min_size, max_size=max_size).map(bytes.hex)


def h2b(h):
    return bytes.fromhex(h)


def boundary_ints(lo, hi, extra=()):
    """ints in [lo, hi] from boundary, powers of two +-1, and uniform"""
    b = set()
    for v in (lo, lo + 1, lo + 2, hi - 2, hi - 1, hi) + tuple(extra):
        if lo <= v <= hi:
            b.add(v)
    k = 1
    while k <= hi:
        for v in (k - 1, k, k + 1):
            if lo <= v <= hi:
                b.add(v)
        k <<= 1
    return st.one_of(st.sampled_from(sorted(b)), st.integers(lo, hi), st.integers(lo, hi))


def patterned_256():
    """256-bit values with byte patterns"""
    return st.one_of(
        st.binary(min_size=32, max_size=32).map(lambda b: int.from_bytes(b, "big")),
        st.tuples(st.integers(0, 255), st.integers(0, 31), st.integers(0, 255)).map(
            lambda t: int.from_bytes(bytes([t[0]]) * t[1] + bytes([t[2]]) * (32 - t[1]), "big")),
    )


def bit_structured(maxbits):
    """integers with regular bit structure (a 1-16 bit block repeated to any width, optionally disturbed in the low bits;
    sparse and dense values): the inputs on which window / NAF / ladder and digit-conversion code differs from the textbook"""
    def rep(p, q, m, delta):
        q &= (1 << p) - 1
        v = 0
        for i in range(0, m, p):
            v |= q << i
        return max(0, (v & ((1 << m) - 1)) + delta)
    repeated = st.builds(rep, st.integers(1, 16), st.integers(1, 0xffff), st.integers(2, maxbits), st.sampled_from([0, 0, 0, 1, -1, 2, 3]))
    sparse = st.lists(st.integers(0, maxbits - 1), min_size=1, max_size=4).map(lambda bits: sum({1 << b for b in bits}))
    dense = st.tuples(st.integers(8, maxbits), st.lists(st.integers(0, maxbits - 1), min_size=1, max_size=4)).map(
        lambda t: ((1 << t[0]) - 1) & ~sum({1 << b for b in t[1]}))
    return st.one_of(repeated, repeated, sparse, dense)


def scalars(n=SECP_N):
    """private keys in [1, n-1]"""
    return st.one_of(boundary_ints(1, n - 1), patterned_256().map(lambda v: v % (n - 1) + 1),
                     bit_structured(n.bit_length()).map(lambda v: v if 1 <= v < n else v % (n - 1) + 1))


def hashes256():
    """message hashes in [1, 2^256-1]"""
    return st.one_of(boundary_ints(1, 2**256 - 1, extra=(SECP_N - 1, SECP_N, SECP_N + 1, SECP_P, SECP_P - 1)),
                     patterned_256().map(lambda v: v or 1))


def weighted(*pairs):
    """weighted choice between strategies: weighted((3, a), (1, b)).
    NB: st.one_of(a, a, b) does NOT weight - Hypothesis de-duplicates identical strategy objects."""
    table = []
    for w, s in pairs:
        table.extend([s] * w)
    return st.integers(0, len(table) - 1).flatmap(lambda i: table[i])


def b58_digit_run_data(prefix, free_len, suffix, width, chunk, digit, seed):
    """bytes `prefix || free || suffix` (free: free_len bytes chosen here) whose Base58Check text - whatever the four
    checksum bytes turn out to be - has the Base58 digit value `digit` (0 = the character '1') at the `width` digit
    positions [lo, lo + width), counted from the least significant digit, where lo is the `chunk`-th multiple of `width`
    that the checksum and the fixed suffix cannot reach.  None when the free part is too short for that."""
    import hashlib
    s_len = len(suffix)
    unit = (1 << (8 * s_len)) << 32                       # what one step of the free part adds to the text's number
    lo = 0
    while 58 ** lo < 2 * unit + (1 << 33):
        lo += 1
    lo = (lo + width - 1) // width * width + chunk * width
    total = (int.from_bytes(prefix or b"\0", "big") + 1) << (8 * (free_len + s_len) + 32)
    if 58 ** (lo + width) * 58 > total >> 8:
        return None
    base = ((int.from_bytes(prefix, "big") << (8 * (free_len + s_len))) + int.from_bytes(suffix, "big")) << 32
    R = int.from_bytes(hashlib.sha512(b"verif b58 run %d" % seed).digest() * 2, "big") % (1 << (8 * free_len))
    B = 58 ** (lo + width)
    A = (base + R * unit) // B
    T = A * B + digit * (58 ** width - 1) // 57 * 58 ** lo
    room = 58 ** lo - 2 * unit - (1 << 33)
    if seed % 2 and room > 0:                             # arbitrary digits below the run (otherwise zeros down to the checksum)
        T += (R * 0x9E3779B97F4A7C15 + seed) % room
    F = -((base - T) // unit)                             # ceil((T - base) / unit)
    if not 0 <= F < (1 << (8 * free_len)):
        return None
    return prefix + F.to_bytes(free_len, "big") + suffix
