"""Coverage-guided campaign for one sub-check: Atheris (libFuzzer) drives the sub-check's own Hypothesis strategy
through `test.hypothesis.fuzz_one_input`, so the fuzzer mutates the byte stream behind the structured generator and
the same oracle runs inside the target.  pycoin is instrumented for coverage feedback.

Runs as its own process (libFuzzer exits the process when -runs is reached; atexit does not run), so results are
flushed to a JSON file incrementally:  python -m vlib.fuzzworker <module> <subcheck> <seed> <runs> <outfile>
"""
import collections
import json
import os
import sys
import time


def _patch_bytestring_provider():
    """Hypothesis 6.168's BytestringProvider.draw_integer draws `bits` bits and rejects until the raw value lies in
    [min_value, max_value] without adding min_value, so any range whose lower bound exceeds 2**bits - 1 (e.g. 2..3,
    33..126) can never be satisfied and every such input overruns.  The replacement offsets by min_value."""
    import hypothesis.internal.conjecture.providers as P

    def draw_integer(self, min_value=None, max_value=None, *, weights=None, shrink_towards=0):
        if min_value is None and max_value is None:
            min_value, max_value = -(2**127), 2**127 - 1
        elif min_value is None:
            min_value = max_value - 2**64
        elif max_value is None:
            max_value = min_value + 2**64
        if min_value == max_value:
            return min_value
        width = max_value - min_value
        bits = width.bit_length()
        value = self._draw_bits(bits)
        while value > width:
            value = self._draw_bits(bits)
        return min_value + value

    P.BytestringProvider.draw_integer = draw_integer


def main():
    modname, subname, seed, runs, outfile = sys.argv[1], sys.argv[2], int(sys.argv[3]), int(sys.argv[4]), sys.argv[5]
    here = os.path.dirname(os.path.dirname(os.path.abspath(__file__)))
    repo = os.environ.get("VERIF_REPO", "/repo")
    sys.dont_write_bytecode = True
    sys.path.insert(0, here)
    sys.path.append(os.environ.get("VERIF_DEPS") or os.path.join(here, ".deps"))
    sys.path.insert(0, repo)
    import atheris
    with atheris.instrument_imports(include=["pycoin"]):
        import pycoin  # noqa
        mod = __import__(modname, fromlist=["x"])
    from hypothesis import HealthCheck, given, settings
    from vlib import core
    _patch_bytestring_provider()

    sub = [s for s in mod.SUBCHECKS if s.name == subname][0]
    known = core.known_buckets(mod.PROPERTY)
    st = {"evaluations": 0, "digests": set(), "labels": collections.Counter(), "excluded_known": collections.Counter(),
          "failure": None, "samples": [], "t0": time.time()}

    def flush():
        with open(outfile + ".tmp", "w") as f:
            json.dump({"evaluations": st["evaluations"], "distinct_nontrivial": len(st["digests"]),
                       "labels": dict(st["labels"]), "excluded_known": dict(st["excluded_known"]), "failure": st["failure"],
                       "samples": st["samples"], "wall_s": round(time.time() - st["t0"], 1)}, f)
        os.replace(outfile + ".tmp", outfile)

    @settings(database=None, deadline=None, suppress_health_check=list(HealthCheck), max_examples=10**9)
    @given(sub.strategy())
    def test(case):
        st["evaluations"] += 1
        try:
            labels = core.call_oracle(sub, case)
        except core.Violation as v:
            if all(b in known for b in v.bucket):
                for b in v.bucket:
                    st["excluded_known"][b] += 1
                return
            st["failure"] = {"bucket": list(v.bucket), "msg": v.msg, "case": case}
            flush()
            raise
        for lab in labels:
            st["labels"][lab] += 1
        if sub.nontrivial(case, labels):
            st["digests"].add(core.case_digest(sub.name, case))
            if len(st["samples"]) < 2:
                st["samples"].append(core._truncate(case))
        if st["evaluations"] % 200 == 0:
            flush()

    flush()
    corpus = outfile + ".corpus"
    os.makedirs(corpus, exist_ok=True)
    # starting corpus: deterministic pseudo-random byte strings long enough to drive the structured generator
    # (with an empty corpus libFuzzer only tries tiny inputs, which the Hypothesis byte-stream decoder rejects)
    import hashlib
    for k in range(16):
        blob = b"".join(hashlib.blake2b(b"%d:%d:%d" % (seed, k, j), digest_size=64).digest() for j in range(4 + 4 * (k % 8)))
        with open(os.path.join(corpus, "seed%02d" % k), "wb") as f:
            f.write(blob)
    atheris.Setup([sys.argv[0], "-runs=%d" % runs, "-seed=%d" % (seed % (2**31 - 1) or 1), "-max_len=8192", "-len_control=0",
                   "-artifact_prefix=%s/" % corpus, "-print_final_stats=0", "-verbosity=0", corpus],
                  test.hypothesis.fuzz_one_input)
    try:
        atheris.Fuzz()
    finally:
        flush()


if __name__ == "__main__":
    main()
