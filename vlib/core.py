"""Runner core for the /verif property-based checks.

A property module (checks/cXX.py) exposes

    PROPERTY = "C11"
    SUBCHECKS = [SubCheck(...), ...]

Every sub-check is (strategy | cases) -> JSON case, oracle(case) -> labels or raises Violation,
nontrivial(case, labels) -> bool.  A case is its own replay file.
"""
from __future__ import annotations

import collections
import hashlib
import json
import multiprocessing
import os
import re
import sys
import time
import traceback

VERIF_DIR = os.path.dirname(os.path.dirname(os.path.abspath(__file__)))
REPO_DIR = os.path.abspath(os.environ.get("VERIF_REPO", "/repo"))
NPROC = int(os.environ.get("VERIF_NPROC", "16"))


class Violation(Exception):
    """Raised by an oracle: the property does not hold on this case.

    bucket: root-cause identity (a string, or a tuple of strings for differential oracles that
    attribute a disagreement to several named deviations).  A case is excluded from the search only if
    *every* component of its bucket is a listed known finding.
    """

    def __init__(self, bucket, msg=""):
        if isinstance(bucket, str):
            bucket = (bucket,)
        self.bucket = tuple(bucket)
        self.msg = msg
        super().__init__("%s: %s" % ("+".join(self.bucket), msg))


class HarnessError(Exception):
    pass


class SubCheck:
    def __init__(self, name, oracle, strategy=None, cases=None, nontrivial=None, budget=(1000, 100000),
                 rule="", exhaustive=False, max_shards=16, guard_s=(240, 3000), min_label_frac=None):
        """strategy: zero-arg callable returning a hypothesis strategy of JSON-serialisable cases.
        cases: callable(tier) -> iterable of cases (a finite enumeration; sharded by stride).
        budget: (quick, thorough) total number of generated examples (strategy kind only).
        guard_s: wall-clock guard per shard; tripping it marks the run inconclusive, never a violation.
        """
        assert (strategy is None) != (cases is None)
        self.name = name
        self.oracle = oracle
        self.strategy = strategy
        self.cases = cases
        self.nontrivial = nontrivial or (lambda case, labels: True)
        self.budget = budget
        self.rule = rule
        self.exhaustive = exhaustive
        self.max_shards = max_shards
        self.guard_s = guard_s
        self.min_label_frac = min_label_frac or {}


# ---------------------------------------------------------------------------------------------------
# known findings


def load_known():
    """known_findings.json plus per-property files known_findings/Cxx.json (same schema)"""
    out = []
    paths = [os.path.join(VERIF_DIR, "known_findings.json")]
    d = os.path.join(VERIF_DIR, "known_findings")
    if os.path.isdir(d):
        paths += [os.path.join(d, fn) for fn in sorted(os.listdir(d)) if fn.endswith(".json")]
    for path in paths:
        if os.path.exists(path):
            with open(path) as f:
                out.extend(json.load(f)["findings"])
    return out


_KNOWN_CACHE = {}


def known_buckets(prop):
    if prop not in _KNOWN_CACHE:
        _KNOWN_CACHE[prop] = frozenset(e["bucket"] for e in load_known()
                                       if e["property"] == prop and e["status"] == "known")
    return _KNOWN_CACHE[prop]


# ---------------------------------------------------------------------------------------------------
# running an oracle with crash classification


_BINDING_ERROR = re.compile(r"got multiple values for argument|got an unexpected keyword argument|missing \d+ required "
                            r"(positional|keyword-only) argument|takes (from )?\d+ (to \d+ )?positional arguments? but")


def _pycoin_frame(tb):
    """innermost traceback frame that lies inside the pycoin package under test"""
    found = None
    for fs in traceback.extract_tb(tb):
        fn = os.path.abspath(fs.filename)
        if fn.startswith(os.path.join(REPO_DIR, "pycoin") + os.sep):
            found = (os.path.relpath(fn, REPO_DIR), fs.name)
    return found


def lib_call(what, f, *args, **kwargs):
    """call a library function with documented arguments; an exception that carries no pycoin frame at all (raised by a
    C-level wrapper around the function - functools caches, argument binding, struct) is the library refusing the call,
    not a harness error"""
    try:
        return f(*args, **kwargs)
    except Violation:
        raise
    except Exception as ex:  # noqa
        if _pycoin_frame(ex.__traceback__) is None:
            raise Violation("api:library-call-raised:%s" % type(ex).__name__, "%s raised %s: %s" % (what, type(ex).__name__, str(ex)[:200]))
        raise


def call_oracle(sub, case):
    """returns labels; raises Violation (also for exceptions escaping from pycoin code) or HarnessError"""
    try:
        labels = sub.oracle(case)
    except Violation:
        raise
    except HarnessError:
        raise
    except (KeyboardInterrupt, SystemExit):
        raise
    except BaseException as ex:  # noqa
        fr = _pycoin_frame(ex.__traceback__)
        if fr is None and isinstance(ex, TypeError) and _BINDING_ERROR.search(str(ex)):
            # raised while binding arguments, before any pycoin frame exists: the library function no longer takes the
            # documented arguments the oracle passes (every oracle call binds on the unchanged tree)
            raise Violation("api:documented-call-refused:" + _BINDING_ERROR.search(str(ex)).group(0).replace(" ", "-"),
                            "calling the library with its documented arguments raised TypeError: %s" % str(ex)[:300])
        if fr is None:
            raise HarnessError("oracle %s raised %r on case %s\n%s" % (
                sub.name, ex, json.dumps(case)[:2000], traceback.format_exc()))
        raise Violation("crash:%s@%s:%s" % (type(ex).__name__, fr[0], fr[1]),
                        "unexpected %s: %s" % (type(ex).__name__, str(ex)[:300]))
    if labels is None:
        labels = ()
    return tuple(labels)


def case_digest(sub_name, case):
    return hashlib.blake2b((sub_name + "|" + json.dumps(case, sort_keys=True)).encode(), digest_size=8).digest()


def derive_seed(*parts):
    h = hashlib.blake2b(":".join(str(p) for p in parts).encode(), digest_size=8).digest()
    return int.from_bytes(h, "big")


# ---------------------------------------------------------------------------------------------------
# one shard


def _new_result():
    return {"evaluations": 0, "digests": set(), "labels": collections.Counter(), "samples": [],
            "excluded_known": collections.Counter(), "failure": None, "collected": {}, "inconclusive": False,
            "harness_error": None, "wall_s": 0.0}


def run_shard(task):
    modname, subname, tier, seed, shard, nshards, collect = task
    t0 = time.time()
    res = _new_result()
    try:
        mod = sys.modules.get(modname) or __import__(modname, fromlist=["x"])
        sub = [s for s in mod.SUBCHECKS if s.name == subname][0]
        prop = mod.PROPERTY
        known = known_buckets(prop)
        guard = sub.guard_s[0 if tier == "quick" else 1]
        state = {"last_fail": None}

        def evaluate(case):
            if time.time() - t0 > guard:
                res["inconclusive"] = True
                return
            res["evaluations"] += 1
            try:
                labels = call_oracle(sub, case)
            except Violation as v:
                if all(b in known for b in v.bucket):
                    for b in v.bucket:
                        res["excluded_known"][b] += 1
                    return
                if collect:
                    key = "+".join(v.bucket)
                    ent = res["collected"].setdefault(key, {"count": 0, "case": case, "msg": v.msg})
                    ent["count"] += 1
                    if len(json.dumps(case)) < len(json.dumps(ent["case"])):
                        ent["case"], ent["msg"] = case, v.msg
                    return
                state["last_fail"] = {"bucket": list(v.bucket), "msg": v.msg, "case": case}
                raise
            for lab in labels:
                res["labels"][lab] += 1
            if sub.nontrivial(case, labels):
                res["digests"].add(case_digest(sub.name, case))
                if len(res["samples"]) < 3:
                    res["samples"].append(case)

        if sub.cases is not None:
            try:
                for i, case in enumerate(sub.cases(tier)):
                    if i % nshards != shard:
                        continue
                    evaluate(case)
                    if res["inconclusive"]:
                        break
            except Violation:
                res["failure"] = state["last_fail"]
        else:
            import hypothesis
            from hypothesis import HealthCheck, Phase, given, settings
            total = sub.budget[0 if tier == "quick" else 1]
            n = max(1, total // nshards)
            phases = [Phase.generate] if tier == "quick" else [Phase.generate, Phase.shrink]
            st = sub.strategy()

            @hypothesis.seed(derive_seed(seed, prop, sub.name, shard))
            @settings(max_examples=n, database=None, deadline=None, derandomize=False,
                      report_multiple_bugs=False, phases=phases, print_blob=False,
                      suppress_health_check=list(HealthCheck))
            @given(st)
            def test(case):
                evaluate(case)

            try:
                test()
            except Violation:
                res["failure"] = state["last_fail"]
    except HarnessError as ex:
        res["harness_error"] = str(ex)
    except BaseException as ex:  # noqa
        res["harness_error"] = "%r\n%s" % (ex, traceback.format_exc())
    res["wall_s"] = time.time() - t0
    return (subname, shard, res)


# ---------------------------------------------------------------------------------------------------
# property-level run


def _emit_violation(prop, subname, fail, tag=None):
    d = os.environ.get("VERIF_REPLAY_DIR") or os.path.join(VERIF_DIR, "replays")
    os.makedirs(d, exist_ok=True)
    b = "+".join(fail["bucket"])
    safe = "".join(c if c.isalnum() or c in "-_." else "_" for c in (tag or b))[:80]
    path = os.path.join(d, "%s-%s-%s.json" % (prop, subname, safe))
    with open(path, "w") as f:
        json.dump({"property": prop, "subcheck": subname, "bucket": fail["bucket"], "msg": fail["msg"],
                   "case": fail["case"]}, f, indent=1, sort_keys=True)
    print("VIOLATION property=%s replay=%s" % (prop, path))
    print("  subcheck=%s bucket=%s" % (subname, b))
    print("  %s" % fail["msg"][:600])
    sys.stdout.flush()
    return path


def replay_file(mod, path):
    with open(path) as f:
        rec = json.load(f)
    sub = [s for s in mod.SUBCHECKS if s.name == rec["subcheck"]][0]
    try:
        call_oracle(sub, rec["case"])
    except Violation as v:
        return {"bucket": list(v.bucket), "msg": v.msg, "case": rec["case"]}, rec["subcheck"]
    return None, rec["subcheck"]


def run_property(mod, tier, seed, collect=False, only=None, pins_only=False):
    prop = mod.PROPERTY
    t0 = time.time()
    violations = 0
    notes = []
    subs = [s for s in mod.SUBCHECKS if only is None or s.name in only]
    by_name = {s.name: s for s in subs}

    # 1. pinned reproducers of known / fixed findings
    for ent in load_known():
        if ent["property"] != prop or ent.get("subcheck") not in by_name:
            continue
        sub = by_name[ent["subcheck"]]
        fail = None
        try:
            call_oracle(sub, ent["case"])
        except Violation as v:
            fail = {"bucket": list(v.bucket), "msg": v.msg, "case": ent["case"]}
        if ent["status"] == "known":
            if fail is not None and ent["bucket"] in fail["bucket"]:
                print("KNOWN-FINDING: property=%s %s [%s]" % (prop, ent["what"], ent["bucket"]))
            elif fail is not None:
                violations += 1
                _emit_violation(prop, sub.name, fail, tag="pin-" + ent["bucket"])
            else:
                notes.append("known finding %s no longer reproduces from its pinned case" % ent["bucket"])
        else:  # fixed
            if fail is not None:
                violations += 1
                _emit_violation(prop, sub.name, fail, tag="recurred-" + ent["bucket"])

    # 2. regression replays
    rdir = os.path.join(VERIF_DIR, "regress", prop)
    nreg = 0
    if os.path.isdir(rdir):
        known = known_buckets(prop)
        for fn in sorted(os.listdir(rdir)):
            if not fn.endswith(".json"):
                continue
            with open(os.path.join(rdir, fn)) as f:
                rec = json.load(f)
            if rec["subcheck"] not in by_name:
                continue
            nreg += 1
            fail, subname = replay_file(mod, os.path.join(rdir, fn))
            if fail is not None and not all(b in known for b in fail["bucket"]):
                violations += 1
                _emit_violation(prop, subname, fail, tag="regress-" + fn)

    # 3. generated search
    tasks = []
    for s in ([] if pins_only else subs):
        if s.cases is not None:
            ns = min(s.max_shards, NPROC)
        else:
            total = s.budget[0 if tier == "quick" else 1]
            ns = max(1, min(s.max_shards, NPROC, total // 20 or 1))
        for sh in range(ns):
            tasks.append((mod.__name__, s.name, tier, seed, sh, ns, collect))
    results = collections.defaultdict(_new_result)
    harness_errors = []
    failures = {}
    if tasks:
        ctx = multiprocessing.get_context("fork")
        with ctx.Pool(min(NPROC, len(tasks))) as pool:
            for subname, shard, res in pool.imap_unordered(run_shard, tasks, chunksize=1):
                agg = results[subname]
                agg["evaluations"] += res["evaluations"]
                agg["digests"] |= res["digests"]
                agg["labels"].update(res["labels"])
                agg["excluded_known"].update(res["excluded_known"])
                agg["samples"].extend(res["samples"])
                agg["inconclusive"] = agg["inconclusive"] or res["inconclusive"]
                agg["wall_s"] = max(agg["wall_s"], res["wall_s"])
                for k, v in res["collected"].items():
                    e = agg["collected"].setdefault(k, {"count": 0, "case": v["case"], "msg": v["msg"]})
                    e["count"] += v["count"]
                    if len(json.dumps(v["case"])) < len(json.dumps(e["case"])):
                        e["case"], e["msg"] = v["case"], v["msg"]
                if res["harness_error"]:
                    harness_errors.append((subname, shard, res["harness_error"]))
                if res["failure"] is not None:
                    key = (subname, "+".join(res["failure"]["bucket"]))
                    old = failures.get(key)
                    if old is None or len(json.dumps(res["failure"]["case"])) < len(json.dumps(old["case"])):
                        failures[key] = res["failure"]
    for (subname, _b), fail in sorted(failures.items()):
        violations += 1
        _emit_violation(prop, subname, fail)

    # 3b. coverage-guided campaigns (thorough tier): Atheris drives the same strategies and oracles
    fuzz_results = {}
    fuzz_note = None
    fuzz_plan = getattr(mod, "FUZZ", {}) if (tier == "thorough" and not pins_only) else {}
    fuzz_plan = {k: v for k, v in fuzz_plan.items() if k in by_name}
    if fuzz_plan:
        fuzz_results, fuzz_note, ffails = _run_fuzz(mod, fuzz_plan, seed)
        for subname, fail in ffails:
            violations += 1
            _emit_violation(prop, subname, fail, tag="fuzz-" + "+".join(fail["bucket"]))
    if fuzz_note:
        notes.append(fuzz_note)

    # 4. evidence
    cov_subs = {}
    total_evals = 0
    total_nt = 0
    samples = []
    rules = []
    inconclusive = False
    for s in subs:
        r = results[s.name]
        total_evals += r["evaluations"]
        total_nt += len(r["digests"])
        inconclusive = inconclusive or r["inconclusive"]
        lab = dict(sorted(r["labels"].items()))
        cov_subs[s.name] = {
            "evaluations": r["evaluations"], "distinct_nontrivial": len(r["digests"]), "rule": s.rule,
            "exhaustive": bool(s.exhaustive), "labels": lab, "excluded_known": dict(r["excluded_known"]),
            "inconclusive": r["inconclusive"], "wall_s": round(r["wall_s"], 2),
        }
        if s.name in fuzz_results:
            fr = fuzz_results[s.name]
            cov_subs[s.name]["fuzz"] = fr
            total_evals += fr["evaluations"]
        if r["collected"]:
            cov_subs[s.name]["collected"] = {k: {"count": v["count"], "msg": v["msg"][:400], "case": v["case"]}
                                             for k, v in r["collected"].items()}
        for c in r["samples"][:2]:
            samples.append({"subcheck": s.name, "case": _truncate(c)})
        rules.append("%s: %s" % (s.name, s.rule))
        for lab_name, frac in s.min_label_frac.items():
            got = r["labels"].get(lab_name, 0) / max(1, r["evaluations"])
            if got < frac:
                notes.append("label %s in %s below target: %.3f < %.3f" % (lab_name, s.name, got, frac))
    ev = {
        "property_id": prop, "tier": tier, "seed": seed, "level": "exploration",
        "coverage": {
            "evaluations": total_evals, "distinct_nontrivial": total_nt,
            "rule": " || ".join(rules), "samples": samples or [{"note": "no samples"}],
            "exhaustive": bool(subs) and all(s.exhaustive for s in subs),
            "subchecks": cov_subs, "regression_replays": nreg, "inconclusive": inconclusive,
            "configurations": getattr(mod, "CONFIGURATIONS", []),
            "unexplored_configurations": getattr(mod, "UNEXPLORED", []),
            "notes": notes,
        },
        "assumptions": getattr(mod, "ASSUMPTIONS", []),
        "wall_s": round(time.time() - t0, 2),
        "violations": violations,
    }
    if only is None and not pins_only:
        evdir = os.environ.get("VERIF_EVIDENCE_DIR") or os.path.join(VERIF_DIR, "evidence")
        os.makedirs(evdir, exist_ok=True)
        with open(os.path.join(evdir, prop + ".json"), "w") as f:
            json.dump(ev, f, indent=1, sort_keys=True)
    for subname, shard, he in harness_errors:
        print("HARNESS-ERROR subcheck=%s shard=%d\n%s" % (subname, shard, he), file=sys.stderr)
    return ev, violations, harness_errors


def _run_fuzz(mod, plan, seed, workers_per_sub=4):
    """plan: {subcheck name: runs per worker}.  Each worker is a separate process (vlib.fuzzworker)."""
    import shutil
    import subprocess
    import tempfile
    from concurrent.futures import ThreadPoolExecutor
    deps = next((d for d in (os.path.join(VERIF_DIR, ".deps"), os.environ.get("VERIF_DEPS", "/verif/.deps"))
                 if os.path.isdir(os.path.join(d, "atheris"))), None)
    if deps is None:
        return {}, "atheris not installed (run setup_cmd): coverage-guided campaigns skipped", []
    tmp = tempfile.mkdtemp(prefix="verif-fuzz-")
    jobs = []
    for subname, runs in plan.items():
        for k in range(workers_per_sub):
            jobs.append((subname, k, runs, os.path.join(tmp, "%s-%d.json" % (subname, k))))

    def run(job):
        subname, k, runs, out = job
        env = dict(os.environ, PYTHONHASHSEED="0", VERIF_REPO=REPO_DIR, VERIF_DEPS=deps)
        cmd = [sys.executable, "-m", "vlib.fuzzworker", mod.__name__, subname,
               str(derive_seed(seed, mod.PROPERTY, subname, "fuzz", k) % (2**31 - 1)), str(runs), out]
        p = subprocess.run(cmd, cwd=VERIF_DIR, env=env, stdout=subprocess.DEVNULL, stderr=subprocess.DEVNULL)
        try:
            with open(out) as f:
                return subname, json.load(f), p.returncode
        except Exception:
            return subname, None, p.returncode

    results, fails = {}, []
    note = None
    try:
        with ThreadPoolExecutor(max_workers=NPROC) as ex:
            for subname, res, rc in ex.map(run, jobs):
                if res is None:
                    note = "a fuzz worker produced no result file (exit %s)" % rc
                    continue
                agg = results.setdefault(subname, {"evaluations": 0, "distinct_nontrivial_per_worker": [], "labels": {},
                                                   "excluded_known": {}, "workers": 0, "engine": "atheris/libFuzzer via hypothesis fuzz_one_input"})
                agg["evaluations"] += res["evaluations"]
                agg["distinct_nontrivial_per_worker"].append(res["distinct_nontrivial"])
                agg["workers"] += 1
                for k2, v in res["labels"].items():
                    agg["labels"][k2] = agg["labels"].get(k2, 0) + v
                for k2, v in res["excluded_known"].items():
                    agg["excluded_known"][k2] = agg["excluded_known"].get(k2, 0) + v
                if res["failure"]:
                    fails.append((subname, res["failure"]))
    finally:
        shutil.rmtree(tmp, ignore_errors=True)
    # one failure per (subcheck, bucket)
    seen, uniq = set(), []
    for subname, f in fails:
        key = (subname, tuple(f["bucket"]))
        if key not in seen:
            seen.add(key)
            uniq.append((subname, f))
    return results, note, uniq


def _truncate(obj, lim=1500):
    s = json.dumps(obj)
    if len(s) <= lim:
        return obj
    return {"truncated_json": s[:lim], "length": len(s)}
