"""C03 - Script evaluation agrees with Bitcoin consensus for every script and flag set.

Differential against oracles/refvm.py (transliteration of Bitcoin Core's pre-taproot interpreter).
Level (i): BitcoinVM(...).eval_script() vs reference EvalScript (verdict + stack on success).
Level (ii): Tx.check_solution(i, flags) vs reference VerifyScript (verdict).
"""
import collections

from gen import scriptasm as A
from gen import scripts as G
from oracles import refvm as V
from oracles import refvm_calibrate
from vlib.core import HarnessError, SubCheck, Violation, known_buckets

from pycoin.coins.SolutionChecker import ScriptError
from pycoin.symbols.btc import network as BTC

from gen import subproc

PROPERTY = "C03"
ASSUMPTIONS = [
    "oracles/refvm.py is a transliteration of Bitcoin Core's pre-taproot interpreter.cpp/pubkey.cpp; it reproduces the "
    "expected result and error name of all 1205 script_tests.json and all 200 tx_valid/tx_invalid vectors shipped in the repo "
    "(re-checked on every run by the 'calibration' sub-check); it is a model of Core, not Core",
    "executed CLTV/CSV with its flag off under DISCOURAGE_UPGRADABLE_NOPS is EITHER (Core-version dependent policy), never compared",
    "an exception other than ScriptError escaping from eval_script / check_solution / is_solution_ok is a violation (bucket crash:<Type>@<frame>): the observation points are 'returned stack or raised ScriptError' and 'raising ScriptError or returning'",
]
UNEXPLORED = ["MINIMALIF / WITNESS_PUBKEYTYPE on a bare BitcoinVM with base sigversion (SolutionChecker strips them; only reachable through witness spends)"]

Tx = BTC.tx
DEVIATIONS = frozenset()      # named deviations of refvm that mirror listed known findings (see known_findings/C03.json)


def _mk_pycoin_tx(txd, n_in, spent_script, amount):
    txs_in = []
    for i in txd["ins"]:
        ti = Tx.TxIn(i["prev_hash"], i["prev_index"], i["script"], i["sequence"])
        ti.witness = list(i.get("witness") or [])
        txs_in.append(ti)
    txs_out = [Tx.TxOut(o["value"], o["script"]) for o in txd["outs"]]
    unspents = [Tx.TxOut(amount if k == n_in else 0, spent_script if k == n_in else b"\x51") for k in range(len(txs_in))]
    return Tx(txd["version"], txs_in, txs_out, txd["locktime"], unspents=unspents)


def _labels_for_ops(ctx, prefix="x:"):
    seen = set(ctx.executed)
    out = []
    for name, ops in (("arith", range(0x8b, 0xa6)), ("stack", range(0x6b, 0x7e)), ("hash", range(0xa6, 0xab)),
                      ("checksig", (0xac, 0xad)), ("multisig", (0xae, 0xaf)), ("cond", (0x63, 0x64, 0x67, 0x68)),
                      ("locktime", (0xb1, 0xb2)), ("nop", (0x61, 0xb0, 0xb3, 0xb4, 0xb5, 0xb6, 0xb7, 0xb8, 0xb9))):
        if seen & set(ops):
            out.append(prefix + name)
    return out


def _attribute(case_desc, pure, devrun):
    """pure: (verdict, stack) of the pure model; devrun: callable(dev) -> (verdict, stack, fired).
    Returns the bucket tuple for a disagreement with pycoin's (verdict, stack) already known to differ from pure."""
    raise NotImplementedError


def o_eval(case):
    prog_tokens = A.resolve_ctx(case["prog"], case)
    flags = case["flags"]
    sv = case["sigversion"]
    n_in = case.get("n_in", 0)
    amount = case.get("amount", 0)
    tx0 = A.build_tx(case)

    def z_fn(ht, cs):
        toks = A.code_after_separators(prog_tokens, cs)
        if sv == V.WITNESS_V0:
            from oracles import refsighash
            return refsighash.bip143(tx0, n_in, A.render(toks, lambda h, c: 1), amount, ht)
        from oracles import refsighash
        return refsighash.legacy(tx0, n_in, A.render(A.strip_sigs(toks)), ht)
    script = A.render(prog_tokens, z_fn)

    def z_stack(ht, cs):
        # items supplied on the initial stack sign the program as it is (nothing of theirs is inside it)
        after = A.code_after_separators(prog_tokens, cs)
        prefix = len(A.render(prog_tokens[:len(prog_tokens) - len(after)], z_fn))
        from oracles import refsighash
        if sv == V.WITNESS_V0:
            return refsighash.bip143(tx0, n_in, script[prefix:], amount, ht)
        return refsighash.legacy(tx0, n_in, script[prefix:], ht)
    init = []
    for x in case["stack"]:
        if isinstance(x, str):
            init.append(bytes.fromhex(x))
        else:
            init.extend(A.items([x[1]], z_stack))
    checker = V.TxChecker(tx0, n_in, amount)
    verdict, err, rstack, ctx = V.run_eval(script, flags, checker, init, sv)

    # pycoin
    tx = _mk_pycoin_tx(tx0, n_in, script, amount)
    sc = tx.SolutionChecker(tx)
    tctx = sc.tx_context_for_idx(n_in)
    sighash_f = sc._make_witness_sighash_f(n_in) if sv == V.WITNESS_V0 else sc._make_sighash_f(n_in)
    vm = sc.VM(script, tctx, sighash_f, flags, initial_stack=list(init))
    vm.is_solution_script = False
    unclean = None
    try:
        pstack = list(vm.eval_script())
        pverdict = V.OK
    except ScriptError:
        pstack, pverdict = None, V.FAIL
    # any other exception escapes: eval_script is observed as "returned stack or raised ScriptError", so the runner
    # reports it as crash:<Type>@<innermost pycoin frame>

    labels = ["ref=" + verdict, "sv=%d" % sv] + _labels_for_ops(ctx)
    if any(ok for _ht, _z, ok in checker.sig_results):
        labels.append("sig-verified")
    elif checker.sig_results:
        labels.append("sig-attempted")
    if unclean:
        labels.append("unclean-fail")
    if verdict == V.EITHER:
        return labels
    if pverdict != verdict or (verdict == V.OK and pstack != rstack):
        what = "verdict" if pverdict != verdict else "stack"
        fired = ()
        if DEVIATIONS:
            v2, e2, s2, c2 = V.run_eval(script, flags, V.TxChecker(tx0, n_in, amount), init, sv, dev=_active_devs())
            if v2 == pverdict and (v2 != V.OK or s2 == pstack) and c2.fired:
                fired = tuple(sorted(c2.fired))
        bucket = tuple("dev:" + f for f in fired) if fired else ("eval-%s:ref=%s(%s):pycoin=%s%s" % (
            what, verdict, err, pverdict, ("/" + unclean) if unclean else ""),)
        raise Violation(bucket, "eval disagreement on script %s flags=0x%x sigversion=%d initial stack %s: reference %s %s stack=%s; pycoin %s stack=%s" % (
            script.hex()[:400], flags, sv, case["stack"], verdict, err, _hx(rstack), pverdict + ("/" + unclean if unclean else ""), _hx(pstack)))
    return labels


def _hx(stack):
    return None if stack is None else [x.hex()[:40] for x in stack]


def _active_devs():
    known = known_buckets(PROPERTY)
    return frozenset(d for d in DEVIATIONS if "dev:" + d in known)


def o_spend(case):
    sp = A.assemble_spend(case)
    flags = case["flags"]
    tx0, n_in, amount = sp["tx"], sp["n_in"], sp["amount"]
    checker = V.TxChecker(tx0, n_in, amount)
    verdict, err, ctx = V.run_verify(sp["script_sig"], sp["spk"], sp["witness"], flags, checker)

    tx = _mk_pycoin_tx(tx0, n_in, sp["spk"], amount)
    unclean = None
    before = tx.as_bin(include_unspents=True)
    try:
        tx.check_solution(n_in, flags=flags)
        pverdict = V.OK
    except ScriptError:
        pverdict = V.FAIL
    if tx.as_bin(include_unspents=True) != before:
        raise Violation("spend:checking-an-input-modifies-the-transaction", "check_solution(%d) changed the transaction (%d inputs): a later check of "
                        "another input, and the transaction id, then depend on what was checked before" % (n_in, len(tx0["ins"])))
    # any other exception escapes (check_solution is observed as "raising ScriptError or returning")
    labels = ["ref=" + verdict, "shape=" + case["shape"]] + _labels_for_ops(ctx)
    if any(ok for _ht, _z, ok in checker.sig_results):
        labels.append("sig-verified")
    elif checker.sig_results:
        labels.append("sig-attempted")
    if V.OP_CODESEPARATOR in ctx.executed:
        labels.append("x:codesep")
    if unclean:
        labels.append("unclean-fail")
    if case.get("mut"):
        labels.append("mutated")
    if err == "PUSH_SIZE" and any(len(w) > 520 for w in sp["witness"]):
        labels.append("witness-item>520:" + case["shape"])
    if verdict == V.EITHER:
        return labels
    # is_solution_ok must agree with check_solution
    if tx.is_solution_ok(n_in, flags=flags) != (pverdict == V.OK) and not unclean:
        raise Violation("spend:is_solution_ok!=check_solution", "is_solution_ok disagrees with check_solution")
    if pverdict != verdict:
        fired = ()
        if DEVIATIONS:
            v2, e2, c2 = V.run_verify(sp["script_sig"], sp["spk"], sp["witness"], flags, V.TxChecker(tx0, n_in, amount),
                                      dev=_active_devs())
            if v2 == pverdict and c2.fired:
                fired = tuple(sorted(c2.fired))
        bucket = tuple("dev:" + f for f in fired) if fired else ("spend:ref=%s(%s):pycoin=%s%s" % (
            verdict, err, pverdict, ("/" + unclean) if unclean else ""),)
        raise Violation(bucket, "spend disagreement: scriptSig=%s scriptPubKey=%s witness=%s flags=0x%x amount=%d tx(version=%d locktime=%d seq=%d n_in=%d/%d outs=%d): reference %s %s; pycoin %s" % (
            sp["script_sig"].hex()[:300], sp["spk"].hex()[:300], [w.hex()[:80] for w in sp["witness"]], flags, amount,
            tx0["version"], tx0["locktime"], tx0["ins"][n_in]["sequence"], n_in, len(tx0["ins"]), len(tx0["outs"]),
            verdict, err, pverdict + ("/" + unclean if unclean else "")))
    return labels


def nt(case, labels):
    return any(l.startswith("x:") for l in labels)


# ------------------------------------------------------------------ calibration as a sub-check (harness error on mismatch)

def cases_calibration(tier):
    for k, v in enumerate(refvm_calibrate.script_vectors()):
        yield {"kind": "script", "i": k, "v": v}
    for k, v in enumerate(refvm_calibrate.tx_vectors()):
        yield {"kind": "tx", "i": k, "v": v}


def o_calibration(case):
    v = case["v"]
    if case["kind"] == "script":
        verdict, err = refvm_calibrate.run_script_vector(v)
        if verdict == V.EITHER:
            if v["expected"] != "DISCOURAGE_UPGRADABLE_NOPS":
                raise HarnessError("refvm calibration: EITHER on %r" % v)
            return ["either"]
        if (verdict == V.OK) != (v["expected"] == "OK"):
            raise HarnessError("refvm calibration failed on script vector %d: %s/%s, expected %s: %r" % (case["i"], verdict, err, v["expected"], v))
        aliases = {("SCRIPTNUM_OVERFLOW", "UNKNOWN_ERROR"), ("SCRIPTNUM_NONMINIMAL", "UNKNOWN_ERROR"), ("EVAL_FALSE", "CLEANSTACK")}
        if verdict != V.OK and err != v["expected"] and (err, v["expected"]) not in aliases:
            # error names are not part of the property, but agreement on them shows the model fails for the right reason
            raise HarnessError("refvm calibration: script vector %d fails with %s, Core's vector says %s: %r" % (case["i"], err, v["expected"], v))
        return ["script-" + ("ok" if verdict == V.OK else "fail:" + ("named" if err == v["expected"] else "alias"))]
    ok, either = refvm_calibrate.run_tx_vector(v)
    if not either and ok != v["valid"]:
        raise HarnessError("refvm calibration failed on tx vector %d" % case["i"])
    return ["tx-" + ("valid" if v["valid"] else "invalid")]


SUBCHECKS_RAW = [
    SubCheck("eval_raw_bytes", o_eval, strategy=G.raw_eval_cases, budget=(6000, 300000), nontrivial=nt,
             rule="byte strings (weighted to opcode values and push-length bytes, not a grammar) as the script: reaches instruction-decoder "
                  "edge cases (truncated pushes in odd places, pushes swallowing opcodes, unbalanced conditionals); same oracle as eval"),
    SubCheck("spend_raw_bytes", o_spend, strategy=G.raw_spend_cases, budget=(4000, 200000), nontrivial=nt,
             rule="byte-string scriptSig / scriptPubKey / witness items under generated flags: same oracle as spend (P2SH / witness "
                  "program recognition on arbitrary bytes)"),
]

SUBCHECKS = [
    SubCheck("calibration", o_calibration, cases=cases_calibration, exhaustive=True,
             nontrivial=lambda c, l: True,
             rule="every script_tests.json / tx_valid.json / tx_invalid.json vector through the reference interpreter; a mismatch is a harness error (exit 2), not a violation"),
    SubCheck("eval", o_eval, strategy=G.eval_cases, budget=(10000, 400000), nontrivial=nt,
             rule="grammar-generated programs (operands at numeric/push boundaries, all opcodes, nested/unbalanced conditionals, limit patterns, signatures by a key ring with DER/hash-type/key-form variants) x initial stack x flag set x tx context x sigversion: BitcoinVM.eval_script vs reference EvalScript (verdict, and stack on success); non-trivial = reference executed >= 1 non-push opcode"),
    SubCheck("spend", o_spend, strategy=G.spend_cases, budget=(8000, 300000), nontrivial=nt,
             rule="spends of bare/P2SH/P2WSH/P2SH-P2WSH/P2WPKH/P2SH-P2WPKH and raw scriptPubKeys, signature templates valid by construction then perturbed, witness/scriptSig/program mutations: Tx.check_solution vs reference VerifyScript (verdict); non-trivial = reference executed >= 1 non-push opcode"),
    SubCheck("spend_python_O", subproc.optimized_variant("checks.c03_script", "o_spend"), strategy=G.spend_cases, budget=(800, 30000), nontrivial=nt,
             rule="the spend cases evaluated in a child interpreter started with PYTHONOPTIMIZE=1 (python -O: assert statements are "
                  "compiled away, so validation written as an assert vanishes; the child asserts that mode)"),
]

# thorough tier: coverage-guided campaigns (runs per worker, 4 workers each)
FUZZ = {"eval": 60000, "spend": 40000}
SUBCHECKS = SUBCHECKS + SUBCHECKS_RAW
FUZZ.update({"eval_raw_bytes": 60000, "spend_raw_bytes": 40000})
