"""C06 - Validation is tamper-evident: signatures bind what their hash type commits.

Signed transactions come from the C05 builder (gen/signing.py).  The oracle is a *commitment table* written from the
signature-hash definitions (legacy SignatureHash, BIP143, the fork-id variant): for an input signed with hash type T it
lists the transaction fields T commits to.  An input must still validate after a change iff the data it commits to
(its *committed view*) is unchanged, its unlocking data is still attached to it, the script it satisfies is unchanged
and its spent output is known.  The table's verdict is cross-checked against oracles/refvm.py on every mutated
transaction; a disagreement between table and reference interpreter is a harness error, not a violation.
"""
import copy
import json

from hypothesis import strategies as st

from gen import signing as S
from gen.common import weighted
from oracles import refsighash
from vlib.core import HarnessError, SubCheck, Violation

PROPERTY = "C06"
ASSUMPTIONS = [
    "commitment table (COMMITS / committed_view below) derived by hand from Core's SignatureHash, BIP143 and the BCH/BTG fork-id "
    "digest; equal views => equal digest => same verdict; different views => different preimage => the signature fails (up to hash collisions)",
    "oracles/refvm.py + oracles/refsighash.py give a second, independent verdict on every mutated transaction (table vs refvm mismatch = exit 2)",
    "validation flags are pycoin's defaults (P2SH | WITNESS) for is_solution_ok / bad_solution_count, as the property's observation points state",
    "spent-script mutations flip bits inside the committed data of the puzzle (key / key hash / script hash / witness program), not in its "
    "opcodes: an opcode flip can turn the puzzle into a different, trivially satisfiable script, about which the property says nothing",
    "spent amounts stay >= 1: Tx.parse_unspents reads a zero amount back as 'unspent unknown', so a zero-valued spent output cannot be "
    "carried through as_bin(include_unspents=True); when the unspents list is incomplete (the state under test for 'unknown spent "
    "output') the fresh object is built from as_bin() plus a field-by-field copy of the unspents instead",
    "outpoints are distinct and never the all-zero hash; multisig n <= 5 here (the signer's > 10-item defect is C05's finding)",
]
CONFIGURATIONS = ["coins " + ", ".join(S.COIN_NAMES), "all 8 puzzle kinds x hash types {ALL, NONE, SINGLE} x {-, ANYONECANPAY}, one hash type per input",
                  "digest algorithms: legacy (BTC-like non-witness), BIP143 (witness), fork-id BIP143 for every input on BCH/BTG, single-SHA256 on GRS"]
UNEXPLORED = ["zero-valued spent outputs through as_bin(include_unspents=True) (see assumptions)", "flags other than the defaults"]

ALL, NONE, SINGLE, ACP = 1, 2, 3, 0x80

# ------------------------------------------------------------------------------------------ the commitment table
# what a signature with (base type, ANYONECANPAY?) commits to, besides what every signature commits to
ALWAYS = ("version", "lock_time", "own outpoint", "own sequence", "hash type byte", "script being satisfied")
COMMITS = {
    #  base   acp     other inputs' outpoints   other inputs' sequences   outputs
    (ALL, False): {"other_outpoints": True, "other_sequences": True, "outputs": "all"},
    (NONE, False): {"other_outpoints": True, "other_sequences": False, "outputs": "none"},
    (SINGLE, False): {"other_outpoints": True, "other_sequences": False, "outputs": "same-index"},
    (ALL, True): {"other_outpoints": False, "other_sequences": False, "outputs": "all"},
    (NONE, True): {"other_outpoints": False, "other_sequences": False, "outputs": "none"},
    (SINGLE, True): {"other_outpoints": False, "other_sequences": False, "outputs": "same-index"},
}
# the spent amount is committed only by the BIP143-style digests: witness inputs, and every input on fork-id coins


def digest_algo(mode, witness):
    return "bip143" if (witness or isinstance(mode, tuple)) else "legacy"


def committed_view(model, p, hash_type, algo):
    """canonical tuple of everything the signature of input p (hash type, algorithm) commits to in this transaction"""
    base, acp = hash_type & 0x1f, bool(hash_type & ACP)
    ins, outs = model["ins"], model["outs"]
    me = ins[p]
    if algo == "legacy" and base == SINGLE and p >= len(outs):
        return ("legacy SIGHASH_SINGLE without a matching output: the digest is the constant 1",)
    row = COMMITS[(base, acp)]
    v = [model["version"], model["lock_time"], (me["prev_hash"], me["prev_index"]), me["sequence"], hash_type]
    if algo == "bip143":
        v.append(("amount", model["unspents"][p][0]))
    if row["other_outpoints"]:
        v.append(("outpoints", tuple((i["prev_hash"], i["prev_index"]) for i in ins), p))
    if row["other_sequences"]:
        v.append(("sequences", tuple(i["sequence"] for i in ins)))
    if row["outputs"] == "all":
        v.append(("outputs", tuple(outs)))
    elif row["outputs"] == "same-index":
        # the legacy form serialises p blank outputs in front, so it also pins the index; BIP143 hashes output p alone
        if algo == "legacy":
            v.append(("output", p, outs[p]))
        else:
            v.append(("output", outs[p] if p < len(outs) else "none"))
    return tuple(v)


# ------------------------------------------------------------------------------------------ model of a signed tx

def model_from(B, txd):
    return {"version": B.version, "lock_time": B.lock_time,
            "ins": [{"prev_hash": d["prev_hash"], "prev_index": d["prev_index"], "sequence": d["sequence"], "script": d["script"],
                     "witness": tuple(d["witness"]), "src": q} for q, d in enumerate(txd["ins"])],
            "outs": [(o["value"], o["script"]) for o in txd["outs"]],
            "unspents": [(i.amount, i.spk) for i in B.ins]}


def model_txd(model):
    return {"version": model["version"], "locktime": model["lock_time"],
            "ins": [{"prev_hash": i["prev_hash"], "prev_index": i["prev_index"], "script": i["script"], "sequence": i["sequence"],
                     "witness": list(i["witness"])} for i in model["ins"]],
            "outs": [{"value": v, "script": s} for v, s in model["outs"]]}


def known_unspent(model, p):
    return p < len(model["unspents"]) and model["unspents"][p] is not None


def pycoin_from_model(T, model):
    ins = []
    for i in model["ins"]:
        ti = T.TxIn(i["prev_hash"], i["prev_index"], i["script"], i["sequence"])
        ti.witness = list(i["witness"])
        ins.append(ti)
    outs = [T.TxOut(v, s) for v, s in model["outs"]]
    unspents = [None if u is None else T.TxOut(u[0], u[1]) for u in model["unspents"]]
    tx = T(model["version"], ins, outs, model["lock_time"])
    tx.unspents = unspents
    return tx


def data_positions(script):
    """byte offsets inside the pushes of >= 20 bytes of a puzzle script (keys, key hashes, script hashes, programs)"""
    out = []
    pc = 0
    while pc < len(script):
        r = refsighash.get_op(script, pc)
        if r is None:
            break
        op, data, npc = r
        if data is not None and len(data) >= 20:
            out.extend(range(npc - len(data), npc))
        pc = npc
    return out


def flip(b, pos, bit):
    return b[:pos] + bytes([b[pos] ^ (1 << (bit % 8))]) + b[pos + 1:]


def _with_dummy(script, witness, sel):
    """(script, witness) with the leading empty element of a multisig unlocking stack replaced by a small non-empty one, or
    None when the unlocking data does not start with an empty element followed by a signature"""
    item = [b"\x01", b"\x00", b"\x81", b"\x02\x03"][sel % 4]
    witness = tuple(witness)
    if len(witness) >= 3 and witness[0] == b"" and len(witness[1]) > 60:
        return script, (item,) + witness[1:]
    if not witness and len(script) > 70 and script[0] == 0x00 and 0x40 <= script[1] <= 0x4b:
        push = bytes([0x51]) if item == b"\x01" and sel % 8 < 4 else bytes([len(item)]) + item
        return push + script[1:], witness
    return None


def _reencode_first_push(script):
    """the script with its first direct push of 20..75 bytes re-encoded as OP_PUSHDATA1, or None"""
    pc = 0
    while pc < len(script):
        op = script[pc]
        if 20 <= op <= 75 and pc + 1 + op <= len(script):
            return script[:pc] + b"\x4c" + script[pc:]
        if 1 <= op <= 75:
            pc += 1 + op
        elif op == 0x4c and pc + 1 < len(script):
            pc += 2 + script[pc + 1]
        elif op in (0x4d, 0x4e):
            return None
        else:
            pc += 1
    return None


def _sig_items(script, witness):
    """(where, index, blob) of everything in the unlocking data that looks like a DER signature plus hash-type byte"""
    out = []
    for k, w in enumerate(witness):
        if len(w) >= 9 and w[0] == 0x30 and w[1] == len(w) - 3:
            out.append(("w", k, bytes(w)))
    items = S.script_pushes(script) or []
    for k, it in enumerate(items):
        if len(it) >= 9 and it[0] == 0x30 and it[1] == len(it) - 3 and script.count(it) == 1:
            out.append(("s", k, bytes(it)))
    return out


def _with_hashtype_bit(script, witness, which, bit):
    sigs = _sig_items(script, tuple(witness))
    if not sigs:
        return None
    where, k, blob = sigs[which % len(sigs)]
    new = blob[:-1] + bytes([blob[-1] ^ (1 << (bit % 8))])
    if where == "w":
        w = list(witness)
        w[k] = new
        return script, tuple(w)
    return script.replace(blob, new, 1), tuple(witness)


def _special_outpoint(h, x, which):
    """an outpoint field replaced by a value with a meaning of its own: the all-zero / all-ones hash, index 0 / 2^32-1,
    and the null outpoint (zero hash, index 2^32-1: what a coinbase carries)"""
    Z, F = b"\0" * 32, b"\xff" * 32
    return [(Z, x), (F, x), (h, 0xffffffff), (h, 0), (Z, 0xffffffff), (Z, 0), (h[::-1], x)][which % 7]


def mutate(model, mut):
    """pure: returns (new model, label) ; label 'nop' when the mutation does not apply to this transaction"""
    m = copy.deepcopy(model)
    kind = mut[0]
    ins, outs, uns = m["ins"], m["outs"], m["unspents"]
    n_in, n_out = len(ins), len(outs)
    full = len(uns) == n_in
    if kind == "version":
        m["version"] ^= 1 << (mut[1] % 32)
    elif kind == "lock_time":
        m["lock_time"] ^= 1 << (mut[1] % 32)
    elif kind == "prev_hash":
        i = ins[mut[1] % n_in]
        i["prev_hash"] = flip(i["prev_hash"], (mut[2] // 8) % 32, mut[2])
    elif kind == "prev_index":
        ins[mut[1] % n_in]["prev_index"] ^= 1 << (mut[2] % 32)
    elif kind == "outpoint_set":
        i = ins[mut[1] % n_in]
        h, x = _special_outpoint(i["prev_hash"], i["prev_index"], mut[2])
        i["prev_hash"], i["prev_index"] = h, x
    elif kind == "sequence":
        ins[mut[1] % n_in]["sequence"] ^= 1 << (mut[2] % 32)
    elif kind == "out_value":
        if not n_out:
            return m, "nop"
        k = mut[1] % n_out
        outs[k] = (outs[k][0] ^ (1 << (mut[2] % 51)), outs[k][1])
    elif kind == "out_script":
        if not n_out:
            return m, "nop"
        k = mut[1] % n_out
        sc = outs[k][1]
        outs[k] = (outs[k][0], flip(sc, mut[2] % len(sc), mut[3]) if sc else b"\x51")
    elif kind == "insert_out":
        outs.insert(mut[1] % (n_out + 1), (1000 + mut[2] % 1000, b"\x51" if mut[2] % 2 else b""))
    elif kind == "remove_out":
        if not n_out:
            return m, "nop"
        del outs[mut[1] % n_out]
    elif kind == "swap_out":
        a, b = (mut[1] % n_out, mut[2] % n_out) if n_out else (0, 0)
        if a == b or outs[a] == outs[b]:
            return m, "nop"
        outs[a], outs[b] = outs[b], outs[a]
    elif kind == "insert_in":
        if not full:
            return m, "nop"
        pos = mut[1] % (n_in + 1)
        k = mut[2] % S.RING_N
        ins.insert(pos, {"prev_hash": S.sha256(b"verif inserted %d" % mut[2]), "prev_index": mut[2] % 7, "sequence": S.U32 - (mut[2] % 3),
                         "script": b"", "witness": (), "src": None})
        uns.insert(pos, (1000 + mut[2] % 1000, b"\x76\xa9\x14" + S.hash160(S.sec(k, True)) + b"\x88\xac"))
    elif kind == "remove_in":
        if n_in < 2 or not full:
            return m, "nop"
        j = mut[1] % n_in
        del ins[j]
        del uns[j]
    elif kind == "swap_in":
        a, b = mut[1] % n_in, mut[2] % n_in
        if a == b or not full:
            return m, "nop"
        ins[a], ins[b] = ins[b], ins[a]
        uns[a], uns[b] = uns[b], uns[a]
    elif kind == "swap_unlock":
        a, b = mut[1] % n_in, mut[2] % n_in
        if a == b or (ins[a]["script"], ins[a]["witness"]) == (ins[b]["script"], ins[b]["witness"]):
            return m, "nop"
        for f in ("script", "witness", "src"):
            ins[a][f], ins[b][f] = ins[b][f], ins[a][f]
        ta, tb = ins[a].get("tampered", False), ins[b].get("tampered", False)
        ins[a]["tampered"], ins[b]["tampered"] = tb, ta
    elif kind == "dummy":
        # unlocking data no signature commits to: the extra element OP_CHECKMULTISIG pops (empty as signed) becomes
        # non-empty.  Without the NULLDUMMY policy flag - the default validation does not set it - the input stays valid.
        j = mut[1] % n_in
        new = _with_dummy(ins[j]["script"], ins[j]["witness"], mut[2])
        if new is None:
            return m, "nop"
        ins[j]["script"], ins[j]["witness"] = new
    elif kind == "sig_hashtype":
        # the hash-type byte at the end of one signature is changed (any bit, also the undefined ones): the byte is part of
        # what was signed, so the reference interpreter decides - normally the input must fail
        j = mut[1] % n_in
        new = _with_hashtype_bit(ins[j]["script"], ins[j]["witness"], mut[2], mut[3])
        if new is None:
            return m, "nop"
        ins[j]["script"], ins[j]["witness"] = new
        ins[j]["tampered"] = True
    elif kind == "spent_amount":
        j = mut[1] % n_in
        if not known_unspent(m, j):
            return m, "nop"
        a = uns[j][0] ^ (1 << (mut[2] % 51))
        uns[j] = (a if a >= 1 else uns[j][0] + 2, uns[j][1])
    elif kind == "spent_script":
        j = mut[1] % n_in
        if not known_unspent(m, j):
            return m, "nop"
        pos = data_positions(uns[j][1])
        if not pos:
            return m, "nop"
        uns[j] = (uns[j][0], flip(uns[j][1], pos[mut[2] % len(pos)], mut[3]))
    elif kind == "spent_script_reencode":
        # the recorded spent script keeps its meaning but not its bytes: its first data push is rewritten with OP_PUSHDATA1
        # (legacy digests commit to the exact bytes; the reference interpreter decides)
        j = mut[1] % n_in
        if not known_unspent(m, j):
            return m, "nop"
        new = _reencode_first_push(uns[j][1])
        if new is None:
            return m, "nop"
        uns[j] = (uns[j][0], new)
        ins[j]["spk_reencoded"] = True
    elif kind == "unspents":
        how = mut[1]
        if how == "empty":
            if not uns:
                return m, "nop"
            del uns[:]
        elif how == "short":
            keep = mut[2] % n_in
            if keep >= len(uns):
                return m, "nop"
            del uns[keep:]
        elif how == "none":
            j = mut[2] % n_in
            if not known_unspent(m, j):
                return m, "nop"
            uns[j] = None
        else:
            raise HarnessError("bad unspents mutation %r" % (mut,))
    else:
        raise HarnessError("bad mutation %r" % (mut,))
    return m, kind if kind != "unspents" else "unspents-" + mut[1]


# ------------------------------------------------------------------------------------------ signing the base transaction

def _bad(bucket, msg):
    raise Violation(bucket, msg)


class Signed:
    """base transaction signed by pycoin (one hash type per input), checked valid by both judges"""

    def __init__(self, case):
        self.case = case
        self.B = B = S.Built(case["tx"])
        n = len(B.ins)
        self.hts = [case["hts"][i % len(case["hts"])] for i in range(n)]
        self.eff = [S.effective_hash_type(B.coin, h) for h in self.hts]
        self.algo = [digest_algo(B.mode, i.witness) for i in B.ins]
        tx = B.pycoin_tx()
        keys = sorted({k for i in B.ins for k in i.keys})
        unc = sorted({k for i in B.ins for k, c in zip(i.keys, i.comp) if not c})
        for ht in sorted(set(self.hts), key=lambda h: -1 if h is None else h):
            S.pycoin_sign(B, tx, "lookup", keys, ht, idx_set=[i for i in range(n) if self.hts[i] == ht], uncompressed=unc)
        self.tx = tx
        txd = B.ref_tx()
        S.fill_from_pycoin(txd, tx)
        self.memo = {}
        self.model0 = model_from(B, txd)
        self.view0 = [committed_view(self.model0, q, self.eff[q], self.algo[q]) for q in range(n)]
        self.spk0 = [i.spk for i in B.ins]
        for i in range(n):
            ok_ref, err = S.ref_verify(B, txd, i, S.DEFAULT, memo=self.memo)
            ok_py = tx.is_solution_ok(i)
            if not (ok_ref and ok_py):
                _bad("tamper:freshly-signed-input-not-valid", "%s input %d %s hash type 0x%02x: after signing pycoin says %r, reference says %r (%s)" % (
                    B.coin, i, B.ins[i].kind, self.eff[i], ok_py, ok_ref, err))

    def expected(self, model, p):
        """the table's verdict for input position p of a (mutated) model"""
        if not known_unspent(model, p):
            return False, "unknown-spent-output"
        q = model["ins"][p]["src"]
        if model["ins"][p].get("spk_reencoded"):
            # a re-encoded spent script need not be one of the standard kinds any more (a witness program written with
            # OP_PUSHDATA1 is "OP_0 <32 bytes>": true for anyone, even with no unlocking data): the table makes no
            # claim and the reference interpreter decides
            return None, "spent-script-re-encoded"
        if q is None:
            return False, "no-unlocking-data"
        if model["ins"][p].get("tampered"):
            return None, "signature-bytes-changed"
        view = committed_view(model, p, self.eff[q], self.algo[q])
        if model["unspents"][p][1] != self.spk0[q]:
            if len(view) == 1 and view == self.view0[q]:
                # legacy SIGHASH_SINGLE without a matching output signs the constant 1: not even the script is committed, the
                # signature only has to match a key that is still in the (changed) script.  The table makes no claim; refvm decides.
                return None, "single-bug-script-change"
            return False, "other-script"
        same = view == self.view0[q]
        return same, "view-same" if same else "view-differs"

    def reference(self, model, p):
        amount, spk = model["unspents"][p]
        return S.ref_verify_raw(self.B.mode, model_txd(model), p, spk, amount, S.DEFAULT, self.memo)

    def judge(self, model, tx, what, labels, fresh=None):
        """compare pycoin's verdicts on `tx` (and on `fresh`) with the table, and the table with refvm"""
        n = len(model["ins"])
        n_bad = 0
        # pycoin's convention (and property C20's last clause): a transaction whose single input has the all-zero previous
        # hash is a coinbase, which spends nothing and "is never counted as having unsigned inputs" - whatever is recorded
        # as its spent output.  A mutation that turns the transaction into that shape leaves this property's domain
        # (signed transactions spending recorded outputs): neither verdict is judged for it.
        coinbase_shaped = n == 1 and model["ins"][0]["prev_hash"] == b"\0" * 32
        for p in range(n):
            exp, why = self.expected(model, p)
            if known_unspent(model, p):
                ref, err = self.reference(model, p)
                if exp is None:
                    exp = ref
                if ref != exp:
                    raise HarnessError("commitment table and refvm disagree on %s, input %d (%s): table %r, refvm %r %s; signed tx %s hts %s" % (
                        what, p, why, exp, ref, err, json.dumps(self.case["tx"]), self.case["hts"]))
            got = tx.is_solution_ok(p)
            if coinbase_shaped and known_unspent(model, p):
                continue
            q = model["ins"][p]["src"]
            desc = "%s after %s: input %d (%s, hash type %s, %s)" % (
                self.B.coin, what, p, self.B.ins[q].kind if q is not None else "unsigned", "0x%02x" % self.eff[q] if q is not None else "-", why)
            if got != exp:
                if why == "unknown-spent-output":
                    _bad("tamper:unknown-spent-output-reported-valid", "%s: is_solution_ok = True although the spent output is unknown" % desc)
                if exp:
                    _bad("tamper:uncommitted-change-invalidates", "%s: the change is outside what the hash type commits to but is_solution_ok = False" % desc)
                _bad("tamper:committed-change-still-valid", "%s: is_solution_ok = True although a committed field / the unlocking data changed" % desc)
            if fresh is not None and fresh.is_solution_ok(p) != got:
                _bad("tamper:long-lived-object-differs-from-fresh", "%s: long-lived object says %r, a fresh object says %r" % (desc, got, not got))
            if not exp:
                n_bad += 1
            labels.append("must-stay-valid" if exp else "must-fail")
            labels.append("why=" + why)
        cnt = tx.bad_solution_count()
        if coinbase_shaped:
            labels.append("coinbase-shaped:not-judged")
        elif cnt != n_bad:
            _bad("tamper:bad_solution_count", "%s after %s: bad_solution_count() = %d, expected %d" % (self.B.coin, what, cnt, n_bad))
        if fresh is not None and fresh.bad_solution_count() != cnt:
            _bad("tamper:long-lived-object-differs-from-fresh", "%s after %s: bad_solution_count %d vs fresh %d" % (
                self.B.coin, what, cnt, fresh.bad_solution_count()))


def _base_labels(sg):
    out = ["coin=" + sg.B.coin]
    for i, inp in enumerate(sg.B.ins):
        out.append("kind=" + inp.kind)
        out.append("ht=%s" % ("none" if sg.hts[i] is None else "0x%02x" % sg.hts[i]))
        out.append("algo=" + sg.algo[i])
    return out


# =========================================================================================== sub-check: catalogue

def full_catalogue(model, seed):
    """the complete single-field catalogue for one transaction: every field of every input / output / spent output once
    (the bit that is flipped in each field is derived from the seed), every insert position, removal, swap and unlock swap"""
    n_in, n_out = len(model["ins"]), len(model["outs"])
    k = [seed]

    def nxt(mod):
        k[0] = (k[0] * 1103515245 + 12345) % (1 << 31)
        return (k[0] >> 8) % mod
    muts = [["version", nxt(32)], ["lock_time", nxt(32)]]
    for j in range(n_in):
        muts += [["prev_hash", j, nxt(256)], ["prev_index", j, nxt(32)], ["sequence", j, nxt(32)], ["spent_amount", j, nxt(51)],
                 ["spent_script", j, nxt(200), nxt(8)], ["spent_script_reencode", j], ["remove_in", j], ["unspents", "none", j], ["unspents", "short", j]]
        muts += [["swap_in", j, b] for b in range(j + 1, n_in)]
        muts += [["swap_unlock", j, b] for b in range(j + 1, n_in)]
        muts += [["dummy", j, nxt(8)], ["outpoint_set", j, 4], ["outpoint_set", j, nxt(7)]]
        muts += [["sig_hashtype", j, s, b] for s in range(3) for b in (5, nxt(8))]
    for o in range(n_out):
        muts += [["out_value", o, nxt(51)], ["out_script", o, nxt(40), nxt(8)], ["remove_out", o]]
        muts += [["swap_out", o, b] for b in range(o + 1, n_out)]
    muts += [["insert_in", pos, nxt(1000)] for pos in range(n_in + 1)]
    muts += [["insert_out", pos, nxt(1000)] for pos in range(n_out + 1)]
    muts.append(["unspents", "empty", 0])
    return muts


def o_tamper(case):
    sg = Signed(case)
    labels = _base_labels(sg)
    T = sg.B.net.tx
    muts = case["muts"]
    if isinstance(muts, dict):
        muts = full_catalogue(sg.model0, muts["full"])
        labels.append("full-catalogue")
    for mut in muts:
        model, lab = mutate(sg.model0, mut)
        labels.append("mut=" + lab)
        if lab == "nop":
            continue
        tx = pycoin_from_model(T, model)
        sg.judge(model, tx, "mutation %r" % (mut,), labels)
    return labels


def nt_tamper(case, labels):
    return "must-fail" in labels and "must-stay-valid" in labels


def s_mutation():
    j = st.integers(0, 5)
    bit32 = st.integers(0, 31)
    return st.one_of(
        st.tuples(st.just("version"), bit32),
        st.tuples(st.just("lock_time"), bit32),
        st.tuples(st.just("prev_hash"), j, st.integers(0, 255)),
        st.tuples(st.just("prev_index"), j, bit32),
        st.tuples(st.just("sequence"), j, bit32),
        st.tuples(st.just("outpoint_set"), j, st.integers(0, 6)),
        st.tuples(st.just("out_value"), j, st.integers(0, 50)),
        st.tuples(st.just("out_script"), j, st.integers(0, 40), st.integers(0, 7)),
        st.tuples(st.just("insert_out"), j, st.integers(0, 999)),
        st.tuples(st.just("remove_out"), j),
        st.tuples(st.just("swap_out"), j, j),
        st.tuples(st.just("insert_in"), j, st.integers(0, 999)),
        st.tuples(st.just("remove_in"), j),
        st.tuples(st.just("swap_in"), j, j),
        st.tuples(st.just("swap_unlock"), j, j),
        st.tuples(st.just("dummy"), j, st.integers(0, 7)),
        st.tuples(st.just("sig_hashtype"), j, st.integers(0, 3), st.integers(0, 7)),
        st.tuples(st.just("spent_amount"), j, st.integers(0, 50)),
        st.tuples(st.just("spent_script"), j, st.integers(0, 200), st.integers(0, 7)),
        st.tuples(st.just("spent_script_reencode"), j),
        st.tuples(st.just("unspents"), st.sampled_from(["empty", "short", "none"]), j),
    ).map(list)


def s_signed_tx(max_ins=4):
    n = st.sampled_from([1, 1, 2, 2, 2, 3, 3, 4, 5])
    inp = S.s_input(big=False, n=n)
    tx = st.fixed_dictionaries({
        "coin": S.s_coin(), "version": st.one_of(st.sampled_from([1, 2]), S.s_u32()), "lock_time": st.one_of(st.just(0), S.s_u32()),
        "ins": st.lists(inp, min_size=1, max_size=max_ins), "outs": S.s_outputs(4)})
    hts = st.lists(weighted((2, st.sampled_from([None, 1])), (5, st.sampled_from([2, 3, 0x81, 0x82, 0x83]))), min_size=1, max_size=4)
    return tx, hts


def s_tamper():
    tx, hts = s_signed_tx()
    muts = weighted((5, st.lists(s_mutation(), min_size=8, max_size=24)), (1, st.fixed_dictionaries({"full": st.integers(0, 2**31 - 1)})))
    return st.fixed_dictionaries({"tx": tx, "hts": hts, "muts": muts})


# =========================================================================================== sub-check: one long-lived object

def apply_live(tx, T, model_before, mut):
    """apply the same mutation in place to the long-lived pycoin Tx; returns an undo callable"""
    kind = mut[0]
    ins, outs = tx.txs_in, tx.txs_out
    n_in, n_out = len(ins), len(outs)
    if kind in ("version", "lock_time"):
        attr = kind
        old = getattr(tx, attr)
        setattr(tx, attr, old ^ (1 << (mut[1] % 32)))
        return lambda: setattr(tx, attr, old)
    if kind in ("prev_hash", "prev_index", "sequence"):
        ti = ins[mut[1] % n_in]
        attr = {"prev_hash": "previous_hash", "prev_index": "previous_index", "sequence": "sequence"}[kind]
        old = getattr(ti, attr)
        new = flip(old, (mut[2] // 8) % 32, mut[2]) if kind == "prev_hash" else old ^ (1 << (mut[2] % 32))
        setattr(ti, attr, new)
        return lambda: setattr(ti, attr, old)
    if kind == "outpoint_set":
        ti = ins[mut[1] % n_in]
        old = (ti.previous_hash, ti.previous_index)
        ti.previous_hash, ti.previous_index = _special_outpoint(old[0], old[1], mut[2])

        def undo():
            ti.previous_hash, ti.previous_index = old
        return undo
    if kind == "out_value":
        to = outs[mut[1] % n_out]
        old = to.coin_value
        to.coin_value = old ^ (1 << (mut[2] % 51))
        return lambda: setattr(to, "coin_value", old)
    if kind == "out_script":
        to = outs[mut[1] % n_out]
        old = to.script
        to.script = flip(old, mut[2] % len(old), mut[3]) if old else b"\x51"
        return lambda: setattr(to, "script", old)
    if kind == "insert_out":
        pos = mut[1] % (n_out + 1)
        outs.insert(pos, T.TxOut(1000 + mut[2] % 1000, b"\x51" if mut[2] % 2 else b""))
        return lambda: outs.pop(pos)
    if kind == "remove_out":
        k = mut[1] % n_out
        old = outs.pop(k)
        return lambda: outs.insert(k, old)
    if kind == "swap_out":
        a, b = mut[1] % n_out, mut[2] % n_out
        outs[a], outs[b] = outs[b], outs[a]

        def undo():
            outs[a], outs[b] = outs[b], outs[a]
        return undo
    if kind == "insert_in":
        pos = mut[1] % (n_in + 1)
        k = mut[2] % S.RING_N
        ins.insert(pos, T.TxIn(S.sha256(b"verif inserted %d" % mut[2]), mut[2] % 7, b"", S.U32 - (mut[2] % 3)))
        tx.unspents.insert(pos, T.TxOut(1000 + mut[2] % 1000, b"\x76\xa9\x14" + S.hash160(S.sec(k, True)) + b"\x88\xac"))

        def undo():
            ins.pop(pos)
            tx.unspents.pop(pos)
        return undo
    if kind == "remove_in":
        j = mut[1] % n_in
        old = (ins.pop(j), tx.unspents.pop(j))

        def undo():
            ins.insert(j, old[0])
            tx.unspents.insert(j, old[1])
        return undo
    if kind == "swap_in":
        a, b = mut[1] % n_in, mut[2] % n_in

        def swap():
            ins[a], ins[b] = ins[b], ins[a]
            tx.unspents[a], tx.unspents[b] = tx.unspents[b], tx.unspents[a]
        swap()
        return swap
    if kind == "swap_unlock":
        a, b = mut[1] % n_in, mut[2] % n_in

        def swap():
            ins[a].script, ins[b].script = ins[b].script, ins[a].script
            ins[a].witness, ins[b].witness = ins[b].witness, ins[a].witness
        swap()
        return swap
    if kind == "dummy":
        ti = ins[mut[1] % n_in]
        old = (ti.script, list(ti.witness))
        new = _with_dummy(ti.script, ti.witness, mut[2])
        if new is None:
            raise HarnessError("dummy mutation applied to an input without a multisig unlocking stack")
        ti.script, ti.witness = new[0], list(new[1])

        def undo():
            ti.script, ti.witness = old[0], list(old[1])
        return undo
    if kind == "spent_script_reencode":
        u = tx.unspents[mut[1] % n_in]
        old = u.script
        new = _reencode_first_push(old)
        if new is None:
            raise HarnessError("spent_script_reencode applied to a script without a direct push")
        u.script = new
        return lambda: setattr(u, "script", old)
    if kind == "sig_hashtype":
        ti = ins[mut[1] % n_in]
        old = (ti.script, list(ti.witness))
        new = _with_hashtype_bit(ti.script, ti.witness, mut[2], mut[3])
        if new is None:
            raise HarnessError("sig_hashtype mutation applied to an input without a signature")
        ti.script, ti.witness = new[0], list(new[1])

        def undo():
            ti.script, ti.witness = old[0], list(old[1])
        return undo
    if kind == "spent_amount":
        u = tx.unspents[mut[1] % n_in]
        old = u.coin_value
        a = old ^ (1 << (mut[2] % 51))
        u.coin_value = a if a >= 1 else old + 2
        return lambda: setattr(u, "coin_value", old)
    if kind == "spent_script":
        u = tx.unspents[mut[1] % n_in]
        old = u.script
        pos = data_positions(old)
        u.script = flip(old, pos[mut[2] % len(pos)], mut[3])
        return lambda: setattr(u, "script", old)
    if kind == "unspents":
        old = tx.unspents
        how = mut[1]
        if how == "empty":
            tx.unspents = []
        elif how == "short":
            tx.unspents = list(old[:mut[2] % n_in])
        else:
            new = list(old)
            new[mut[2] % n_in] = None
            tx.unspents = new
        return lambda: setattr(tx, "unspents", old)
    raise HarnessError("bad mutation %r" % (mut,))


def fresh_copy(T, tx, model):
    """a new object in the same state as the long-lived one"""
    uns = model["unspents"]
    if len(uns) == len(model["ins"]) and all(u is not None for u in uns):
        return T.from_bin(tx.as_bin(include_unspents=True)), "fresh=from_bin(include_unspents)"
    fresh = T.from_bin(tx.as_bin())
    fresh.unspents = [None if u is None else T.TxOut(u.coin_value, u.script) for u in tx.unspents]
    return fresh, "fresh=from_bin+copied-unspents"


def _same_state(tx, model):
    snap = S.snapshot(tx)
    want = {"version": model["version"], "lock_time": model["lock_time"],
            "ins": [(i["prev_hash"], i["prev_index"], i["sequence"]) for i in model["ins"]],
            "unlock": [(i["script"], tuple(i["witness"])) for i in model["ins"]],
            "outs": list(model["outs"]), "unspents": list(model["unspents"])}
    return snap == want


def o_history(case):
    sg = Signed(case)
    labels = _base_labels(sg)
    T = sg.B.net.tx
    tx = sg.tx                                   # the long-lived object: signed here, validated and mutated below
    stack = []                                   # (model before, undo)
    model = sg.model0
    for step, op in enumerate(case["ops"]):
        name = op[0]
        if name == "mut":
            new_model, lab = mutate(model, op[1])
            labels.append("mut=" + lab)
            if lab != "nop":
                undo = apply_live(tx, T, model, op[1])
                stack.append((model, undo))
                model = new_model
        elif name == "revert":
            if stack:
                model, undo = stack.pop()
                undo()
                labels.append("op=revert")
        elif name == "validate":
            labels.append("op=validate")
        elif name == "copy":
            # work continues on a (shallow) copy of the object, as code that wants to try a change without touching the
            # caller's transaction does; whatever the original had worked out about itself is not the copy's business
            import copy as _copy
            tx = _copy.copy(tx)
            stack = []
            labels.append("op=copy")
        else:
            raise HarnessError("bad op %r" % (op,))
        if not _same_state(tx, model):
            raise HarnessError("long-lived object and model diverged after step %d %r (or validation modified the transaction)" % (step, op))
        fresh, how = fresh_copy(T, tx, model)
        labels.append(how)
        sg.judge(model, tx, "step %d %r (history %r)" % (step, op, case["ops"][:step + 1]), labels, fresh=fresh)
        if not _same_state(tx, model):
            _bad("tamper:validation-modifies-transaction", "validating changed the long-lived transaction at step %d" % step)
    _probe_other_objects(T, tx, labels)
    return labels


def _probe_other_objects(T, tx, labels):
    """objects made from the same bytes: one that is told the spent outputs by growing its (initially empty) unspents list
    in place must agree with the long-lived object; one that is never told anything must report every input invalid -
    whatever other objects in the process have been told"""
    import io
    if any(u is None for u in tx.unspents) or len(tx.unspents) != len(tx.txs_in) or tx.is_coinbase():
        return
    raw = tx.as_bin()
    told = T.parse(io.BytesIO(raw))
    told.unspents.extend(T.TxOut(u.coin_value, u.script) for u in tx.unspents)
    try:
        a = [told.is_solution_ok(i) for i in range(len(told.txs_in))]
        b = [tx.is_solution_ok(i) for i in range(len(tx.txs_in))]
        if a != b:
            _bad("tamper:fresh-object-disagrees", "an object parsed from the same bytes and told the same spent outputs (unspents list "
                 "grown in place) reports %r, the long-lived object %r" % (a, b))
        for how, other in (("Tx.parse", T.parse(io.BytesIO(raw))),
                           ("constructor", T(tx.version, [T.TxIn(i.previous_hash, i.previous_index, i.script, i.sequence) for i in tx.txs_in],
                                             [T.TxOut(o.coin_value, o.script) for o in tx.txs_out], tx.lock_time))):
            if how == "constructor":
                for src, dst in zip(tx.txs_in, other.txs_in):
                    dst.witness = list(src.witness)
            got = [other.is_solution_ok(i) for i in range(len(other.txs_in))]
            coinbase_shaped = len(other.txs_in) == 1 and other.txs_in[0].previous_hash == b"\0" * 32
            if any(got) or (other.bad_solution_count() != len(other.txs_in) and not coinbase_shaped):
                _bad("tamper:unknown-spent-output-reported-valid", "an object made by %s from the same bytes, never told any spent output, "
                     "reports is_solution_ok=%r bad_solution_count=%d" % (how, got, other.bad_solution_count()))
        labels.append("other-objects-probed")
    finally:
        del told.unspents[:]


def nt_history(case, labels):
    return "must-fail" in labels and "must-stay-valid" in labels and any(l.startswith("mut=") and l != "mut=nop" for l in labels)


def s_history():
    tx, hts = s_signed_tx(max_ins=3)
    op = weighted((5, st.tuples(st.just("mut"), s_mutation()).map(list)), (2, st.just(["revert"])), (1, st.just(["validate"])), (1, st.just(["copy"])))
    return st.fixed_dictionaries({"tx": tx, "hts": hts, "ops": st.lists(op, min_size=2, max_size=10)})


# =========================================================================================== sub-check: records re-resolved from a database

_RESOLVE_SCRIPTS = ["51", "00", "52", "6a", "5187", "76a914" + "11" * 20 + "88ac", "0051", "5151"]


def o_resolve(case):
    """the recorded spent outputs of ONE long-lived Tx are tampered with, looked up again in a transaction database
    (unspents_from_db), tampered with again ...: after every step each input's verdict is the one a fresh object gives
    that was told the records as they now stand (after a look-up: the database's).  No signatures are involved: the
    spent scripts are OP_1 / OP_0 / OP_RETURN / hash-locked ones, so the verdict is a function of the recorded script."""
    from pycoin.symbols.btc import network as BTC
    T = BTC.tx
    sources = []
    for k, outs in enumerate(case["sources"]):
        src = T(1, [T.TxIn(bytes([k + 1]) * 32, k, b"\x51", 0xffffffff)],
                [T.TxOut(1000 + v, bytes.fromhex(_RESOLVE_SCRIPTS[sc % len(_RESOLVE_SCRIPTS)])) for v, sc in outs], 0)
        sources.append(src)
    db = dict((src.hash(), src) for src in sources)
    spend = []
    for a, b in case["spend"]:
        a %= len(sources)
        b %= len(sources[a].txs_out)
        if (a, b) not in spend:
            spend.append((a, b))
    true = [(sources[a].txs_out[b].coin_value, sources[a].txs_out[b].script) for a, b in spend]
    tx = T(1, [T.TxIn(sources[a].hash(), b, b"", 0xffffffff) for a, b in spend], [T.TxOut(500, b"\x51")], 0)
    tx.unspents_from_db(db)
    recorded = list(true)
    labels = set()
    for step, op in enumerate(case["ops"]):
        if op[0] == "tamper":
            i = op[1] % len(spend)
            v, sc = recorded[i]
            if op[2] % 3 == 0:
                new = (v + 1 + op[2], sc)
            else:
                new = (v, bytes.fromhex(_RESOLVE_SCRIPTS[(op[2] + _RESOLVE_SCRIPTS.index(sc.hex())) % len(_RESOLVE_SCRIPTS)]))
            recorded[i] = new
            # (replaced, not edited in place: after a look-up the recorded object IS the source transaction's own output)
            tx.unspents[i] = T.TxOut(*new)
            labels.add("tampered")
        elif op[0] == "resolve":
            tx.unspents_from_db(db)
            if recorded != true:
                labels.add("resolved-after-tamper")
            recorded = list(true)
        fresh = T.from_bin(tx.as_bin())
        fresh.set_unspents([T.TxOut(v, sc) for v, sc in recorded])
        got = [tx.is_solution_ok(i) for i in range(len(spend))]
        want = [fresh.is_solution_ok(i) for i in range(len(spend))]
        if got != want or tx.bad_solution_count() != fresh.bad_solution_count():
            _bad("tamper:resolved-object-differs-from-fresh", "step %d of %s: the long-lived object reports %r (bad count %d), a fresh object told the "
                 "records as they stand (%s) reports %r (%d)" % (step, case["ops"][:step + 1], got, tx.bad_solution_count(),
                                                                  [(v, sc.hex()) for v, sc in recorded], want, fresh.bad_solution_count()))
        if True in want and False in want:
            labels.add("mixed-verdicts")
    return sorted(labels)


def s_resolve():
    outs = st.lists(st.tuples(st.integers(0, 5), st.integers(0, 7)).map(list), min_size=1, max_size=3)
    op = st.one_of(st.tuples(st.just("tamper"), st.integers(0, 5), st.integers(0, 11)).map(list), st.just(["resolve"]), st.just(["validate"]))
    return st.fixed_dictionaries({"sources": st.lists(outs, min_size=1, max_size=3),
                                  "spend": st.lists(st.tuples(st.integers(0, 2), st.integers(0, 2)).map(list), min_size=1, max_size=4),
                                  "ops": st.lists(op, min_size=2, max_size=8)})


SUBCHECKS = [
    SubCheck("tamper_catalogue", o_tamper, strategy=s_tamper, budget=(360, 10000), nontrivial=nt_tamper,
             rule="pycoin-signed transaction (1-4 inputs of the 8 kinds, multisig n <= 5, own hash type per input, 9 coins) x 8-24 generated single-field "
                  "mutations (version, lock time, outpoint hash bit / index, sequence, output value / script byte, insert / remove / swap of inputs and "
                  "outputs, swap of unlocking data, spent amount, spent-script data bit, unspents empty / short / None; one case in six runs the complete "
                  "catalogue: every field of every input / output once, every insert position, removal and swap), each applied to a fresh object: "
                  "every input's is_solution_ok and bad_solution_count equal the commitment table; table == refvm on every (mutation, input); "
                  "non-trivial = the case has both must-fail and must-stay-valid verdicts"),
    SubCheck("mutate_revalidate", o_history, strategy=s_history, budget=(420, 12000), nontrivial=nt_history,
             rule="history of 2-10 ops (mutate in place / revert last mutation / validate again) on the one Tx object that was signed: after every op "
                  "is_solution_ok(i) for all i and bad_solution_count() equal those of a fresh object (from_bin(as_bin(include_unspents=True)), or "
                  "from_bin + copied unspents when the unspents list is incomplete), the commitment table, and refvm"),
    SubCheck("records_resolved_again", o_resolve, strategy=s_resolve, budget=(600, 20000),
             nontrivial=lambda c, l: "resolved-after-tamper" in l,
             rule="1-4 inputs spending outputs of 1-3 source transactions held in a database (spent scripts OP_1 / OP_0 / OP_RETURN / hash "
                  "locks: verdicts need no signatures), 2-8 ops on one Tx object: tamper with a recorded spent output (amount or script, by "
                  "replacing the TxOut), unspents_from_db again, validate; after every op is_solution_ok(i) and "
                  "bad_solution_count() equal those of a fresh object told the records as they stand (the database's after a look-up); "
                  "non-trivial = a look-up after a tamper"),
]
