"""C02 - Elliptic-curve arithmetic is the group law on every curve and backend.

Oracle: oracles/refec.py (affine chord-and-tangent law with pow(x,-1,p); plain double-and-add; Jacobian ladder
calibrated against it; brute-force point enumeration on toy curves).  Every pycoin result is compared with the
reference coordinates, so "pure == OpenSSL == shipped" follows from each being equal to the reference.
"""
import math

from hypothesis import strategies as st

from gen import ecgen
from gen.ecgen import REF, ref_curve, curve_label, get_gen
from vlib.core import HarnessError, SubCheck, Violation

from pycoin.ecdsa.Curve import Curve
from pycoin.ecdsa.Generator import Generator
from pycoin.ecdsa.Point import Point as PycoinPoint
from pycoin.ecdsa.encrypt import generate_shared_public_key

PROPERTY = "C02"
ASSUMPTIONS = [
    "oracles/refec.py: textbook affine addition with pow(x,-1,p), double-and-add, Jacobian ladder (calibrated on published "
    "2G/3G of secp256k1, 2G of P-256, n*G = infinity on all three shipped curves, and exhaustively against repeated addition on toy curves)",
    "toy curve group orders come from brute-force point counting (prime, odd, != p); every non-infinity point generates the group",
    "operands have reduced coordinates (0 <= x,y < p) and lie in the prime-order group; curves constructed without an order "
    "are only given non-negative scalars",
    "Python big integers, pow(a,-1,m), math.gcd",
]
CONFIGURATIONS = ecgen.describe_configurations(("k1", "r1")) + [
    "bls12-381-g1/shipped (pure Python: pycoin defines no native class for it)", "bls12-381-g1/pure (backend=pure)",
    "plain pycoin Curve(p,a,b,order) + Point objects (no Generator) on every curve, and Curve(p,a,b) without order for k >= 0",
    "toy curves p < 100 (quick) / p < 200 (thorough) as Curve+Point and as pure-Python Generator, every point as basis when n <= 13",
    "generators constructed with chosen entropy_f (blinding 0, n-1, n, 2^256-1 mod n, arbitrary), pure and OpenSSL classes",
]
UNEXPLORED = ["libsecp256k1 backend (library not installed: Optimizations.__mul__/multiply of pycoin.ecdsa.native.secp256k1 never run)"
              if not ecgen.LIBSECP_PRESENT else "",
              "shipped generators under PYCOIN_NATIVE=none are not re-run for C02 (the same Curve/Generator code is exercised by the "
              "explicit pure-Python generators)",
              "curves with p = 1 mod 4 (Generator refuses them), composite or even group order, unreduced or off-curve operands"]
UNEXPLORED = [u for u in UNEXPLORED if u]

INF = (None, None)


def _bad(bucket, msg):
    raise Violation(bucket, msg)


def to_ref(R):
    t = tuple(R)
    return None if t == INF else t


def mkpt(cobj, P):
    return cobj.infinity() if P is None else cobj.Point(P[0], P[1])


def _show(P):
    return "inf" if P is None else "(%s)" % ",".join(hex(v) if v > 10**6 else str(v) for v in P)


def pyc_neg(P, Pref, where):
    try:
        return -P
    except TypeError as ex:
        if Pref is None:
            _bad("neg:infinity-raises-TypeError", "%s: -infinity raised TypeError(%s) instead of returning infinity" % (where, ex))
        if isinstance(P, Generator):
            _bad("neg:generator-object-raises-TypeError", "%s: negating the Generator object (a Point) raised TypeError(%s)" % (where, ex))
        raise


def _neg_of_generator_raises(g):
    try:
        -g
    except TypeError:
        return True
    return False


def pyc_sub(P, Q, Qref, where):
    try:
        return P - Q
    except TypeError as ex:
        if Qref is None:
            _bad("neg:infinity-raises-TypeError", "%s: P - infinity raised TypeError(%s) instead of returning P" % (where, ex))
        if isinstance(Q, Generator):
            _bad("neg:generator-object-raises-TypeError", "%s: P - <Generator object> raised TypeError(%s)" % (where, ex))
        raise


def expect(got, want, c, bucket, what):
    if not isinstance(got, PycoinPoint):
        # the result of a group operation is a point of the group: it can be added to, negated, multiplied again
        _bad("closure:result-is-not-a-Point", "%s returned a %s (%r), not a Point object: using it in a further operation is not "
             "group arithmetic" % (what, type(got).__name__, got))
    g = to_ref(got)
    if g is not None and not (isinstance(g[0], int) and isinstance(g[1], int) and c.on_curve(g)):
        _bad(bucket + ":off-curve", "%s = %r is not a reduced point of %s" % (what, tuple(got), c.name))
    if g != want:
        _bad(bucket, "%s = %s on %s, reference %s" % (what, _show(g), c.name, _show(want)))
    return got


def relation(c, P, Q):
    if P is None or Q is None:
        return "infinity-operand"
    if P == Q:
        return "doubling"
    if P == c.neg(Q):
        return "inverse"
    return "generic"


_PLAIN = {}


def plain_curve(spec, with_order=True):
    key = (spec if isinstance(spec, str) else tuple(spec), with_order)
    if key not in _PLAIN:
        c = ref_curve(spec)
        _PLAIN[key] = Curve(c.p, c.a, c.b, c.n) if with_order else Curve(c.p, c.a, c.b)
    return _PLAIN[key]


def reps(spec, kinds=("shipped", "pure", "openssl")):
    """(name, pycoin curve-like object) pairs: plain Curve, and each available generator configuration"""
    out = [("Curve+Point", plain_curve(spec))]
    for cfg in ecgen.available_cfgs(spec, kinds):
        out.append(("Generator/" + cfg, get_gen(spec, cfg)))
    return out


def operand(cobj, c, P, use_generator_object=True):
    """pycoin operand for reference point P; the Generator object itself stands for its basis point"""
    if use_generator_object and isinstance(cobj, Generator) and P == c.G:
        return cobj
    return mkpt(cobj, P)


# ------------------------------------------------------------------------------------------------ additions


def check_add(spec, c, cobj, name, P, Q, labels=None):
    """sums of two Point objects; negation and subtraction of a non-infinity Q.  (Negating infinity and using the Generator
    object itself as an operand are separate cases in operand_forms, so that one defect there cannot mask everything else.)"""
    tag = "%s %s" % (c.name, name)
    p, q = mkpt(cobj, P), mkpt(cobj, Q)
    s = c.add(P, Q)
    expect(p + q, s, c, "add:!=ref:" + relation(c, P, Q), "%s: %s + %s" % (tag, _show(P), _show(Q)))
    expect(q + p, s, c, "add:not-commutative", "%s: %s + %s" % (tag, _show(Q), _show(P)))
    expect(cobj.add(p, q), s, c, "add:curve.add!=ref", "%s: add(%s, %s)" % (tag, _show(P), _show(Q)))
    if Q is not None:
        nq = pyc_neg(q, Q, tag)
        expect(nq, c.neg(Q), c, "neg:!=ref", "%s: -%s" % (tag, _show(Q)))
        expect(pyc_sub(p, q, Q, tag), c.add(P, c.neg(Q)), c, "sub:!=ref", "%s: %s - %s" % (tag, _show(P), _show(Q)))
        expect(q + nq, None, c, "add:P+(-P)!=infinity", "%s: %s + (-%s)" % (tag, _show(Q), _show(Q)))


# ------------------------------------------------------------------------------------------------ infinity / Generator object as operands

FORMS = ["-inf", "P-inf", "inf-P", "inf-inf", "inf+inf", "inf*k", "-Gobj", "Gobj+P", "P+Gobj", "Gobj-P", "P-Gobj", "Gobj+Gobj",
         "Gobj+inf", "Gobj-Gobj", "Gobj*k", "multiply(Gobj,k)"]


def o_forms(case):
    spec, form, i, k = case["curve"], case["form"], case["i"], case["k"]
    c = ref_curve(spec)
    P = c.mul_fast(i, c.G)
    G = c.G
    labels = [curve_label(spec), "form=" + form]
    for name, cobj in reps(spec):
        if "Gobj" in form and not isinstance(cobj, Generator):
            continue
        tag = "%s %s" % (c.name, name)
        inf, p = cobj.infinity(), mkpt(cobj, P)
        if form == "-inf":
            expect(pyc_neg(inf, None, tag), None, c, "neg:!=ref", tag + ": -infinity")
        elif form == "P-inf":
            expect(pyc_sub(p, inf, None, tag), P, c, "sub:!=ref", tag + ": P - infinity")
        elif form == "inf-P":
            expect(pyc_sub(inf, p, P, tag), c.neg(P), c, "sub:!=ref", tag + ": infinity - P")
        elif form == "inf-inf":
            expect(pyc_sub(inf, inf, None, tag), None, c, "sub:!=ref", tag + ": infinity - infinity")
        elif form == "inf+inf":
            expect(inf + inf, None, c, "add:!=ref:infinity-operand", tag + ": infinity + infinity")
        elif form == "inf*k":
            expect(inf * k, None, c, "mul:P*k!=ref:infinity", tag + ": infinity * %d" % k)
            expect(k * inf, None, c, "mul:k*P!=ref:infinity", tag + ": %d * infinity" % k)
        elif form == "-Gobj":
            expect(pyc_neg(cobj, G, tag), c.neg(G), c, "neg:!=ref", tag + ": -<Generator object>")
        elif form == "Gobj+P":
            expect(cobj + p, c.add(G, P), c, "add:!=ref:" + relation(c, G, P), tag + ": <Generator object> + %s" % _show(P))
        elif form == "P+Gobj":
            expect(p + cobj, c.add(P, G), c, "add:!=ref:" + relation(c, P, G), tag + ": %s + <Generator object>" % _show(P))
        elif form == "Gobj-P":
            expect(pyc_sub(cobj, p, P, tag), c.add(G, c.neg(P)), c, "sub:!=ref", tag + ": <Generator object> - %s" % _show(P))
        elif form == "P-Gobj":
            expect(pyc_sub(p, cobj, G, tag), c.add(P, c.neg(G)), c, "sub:!=ref", tag + ": %s - <Generator object>" % _show(P))
        elif form == "Gobj+Gobj":
            expect(cobj + cobj, c.add(G, G), c, "add:!=ref:doubling", tag + ": <Generator object> + itself")
        elif form == "Gobj+inf":
            expect(cobj + inf, G, c, "add:identity", tag + ": <Generator object> + infinity")
            expect(inf + cobj, G, c, "add:identity", tag + ": infinity + <Generator object>")
        elif form == "Gobj-Gobj":
            expect(pyc_sub(cobj, cobj, G, tag), None, c, "sub:!=ref", tag + ": <Generator object> - itself")
        elif form == "Gobj*k":
            check_genmul(c, cobj, name, G, k, c.mul_fast(k, G))
        elif form == "multiply(Gobj,k)":
            try:
                got = cobj.multiply(cobj, k)
            except TypeError as ex:
                # Curve.multiply's signed-digit ladder computes result - p, i.e. -p, on the Generator object: same root cause as -Gobj
                if _neg_of_generator_raises(cobj):
                    _bad("neg:generator-object-raises-TypeError", "%s: multiply(<Generator object>, %d) raised TypeError(%s): the ladder "
                         "negates its point argument and -<Generator object> raises" % (tag, k, ex))
                raise
            expect(got, c.mul_fast(k, G), c, "genmul:multiply(G,k)!=ref:" + _kclass(k, c.n), tag + ": multiply(<Generator object>, %d)" % k)
    return labels


def cases_forms(tier):
    toys = _toy_list(tier)
    if tier == "quick":
        toys = toys[::3]
    for spec in ["k1", "r1", "bls"] + toys:
        n = ref_curve(spec).n
        for form in FORMS:
            for i in (1, 2, n - 1, n // 2):
                for k in (0, 1, -1, n, n + 2, -3, 5, n - 2):
                    if i != 1 and ("P" not in form.replace("Gobj", "")):
                        continue
                    if k != 0 and "k" not in form:
                        continue
                    yield {"curve": spec, "form": form, "i": i, "k": k}


def o_toy_add(case):
    spec, i = case["curve"], case["i"]
    c = ref_curve(spec)
    P = c.mul(i, c.G)
    labels = [curve_label(spec)]
    rel = {}
    for name, cobj in reps(spec):
        Q = None
        for _j in range(c.n):
            check_add(spec, c, cobj, name, P, Q)
            r = relation(c, P, Q)
            rel[r] = rel.get(r, 0) + 1
            Q = c.add(Q, c.G)
    return labels + sorted(rel)


def _toy_list(tier, nmax=None):
    return ecgen.toy_specs(100 if tier == "quick" else 200, nmax=nmax, max_per_p=3 if tier == "quick" else 4)


def cases_toy_add(tier):
    for spec in _toy_list(tier):
        for i in range(spec[5]):
            yield {"curve": spec, "i": i}


def o_toy_assoc(case):
    spec, i, j = case["curve"], case["i"], case["j"]
    c = ref_curve(spec)
    P, Q = c.mul(i, c.G), c.mul(j, c.G)
    for name, cobj in reps(spec):
        p, q = mkpt(cobj, P), mkpt(cobj, Q)
        pq = p + q
        R = None
        for _k in range(c.n):
            r = mkpt(cobj, R)
            want = c.add(c.add(P, Q), R)
            expect(pq + r, want, c, "add:not-associative", "%s %s: (%s + %s) + %s" % (c.name, name, _show(P), _show(Q), _show(R)))
            expect(p + (q + r), want, c, "add:not-associative", "%s %s: %s + (%s + %s)" % (c.name, name, _show(P), _show(Q), _show(R)))
            R = c.add(R, c.G)
    return [curve_label(spec), "P=inf" if P is None else "Q=inf" if Q is None else relation(c, P, Q)]


def cases_toy_assoc(tier):
    for spec in _toy_list(tier, nmax=31 if tier == "quick" else 47):
        n = spec[5]
        for i in range(n):
            for j in range(n):
                yield {"curve": spec, "i": i, "j": j}


# ------------------------------------------------------------------------------------------------ multiplication


def check_mul(c, cobj, name, P, k, want, wrappers=True):
    p = mkpt(cobj, P)
    what = "%s %s: " % (c.name, name)
    kind = "k<0" if k < 0 else "k>=n" if k >= c.n else "0<=k<n"
    expect(p * k, want, c, "mul:P*k!=ref:" + kind, what + "%s * %d" % (_show(P), k))
    if wrappers:
        expect(k * p, want, c, "mul:k*P!=ref:" + kind, what + "%d * %s" % (k, _show(P)))
        expect(cobj.multiply(p, k), want, c, "mul:curve.multiply!=ref:" + kind, what + "multiply(%s, %d)" % (_show(P), k))


def o_toy_mul(case):
    spec, i = case["curve"], case["i"]
    c = ref_curve(spec)
    n = c.n
    P = c.mul(i, c.G)
    labels = [curve_label(spec), "P=inf" if P is None else "P=G" if P == c.G else "P-other"]
    # expected values by repeated reference addition, k = -2n .. 3n
    table = {0: None}
    acc = None
    for k in range(1, 3 * n + 1):
        acc = c.add(acc, P)
        table[k] = acc
    acc = None
    NP = c.neg(P)
    for k in range(1, 2 * n + 1):
        acc = c.add(acc, NP)
        table[-k] = acc
    if table[n] is not None or table[-n] is not None:
        raise AssertionError("reference: n*P != infinity on %s" % c.name)
    noord = plain_curve(spec, with_order=False)
    for name, cobj in reps(spec):
        for k in range(-2 * n, 3 * n + 1):
            # P*k for every k; the thin wrappers k*P and curve.multiply(P,k) for every third k and around multiples of n
            check_mul(c, cobj, name, P, k, table[k], wrappers=(k % 3 == 0 or (k + 1) % n <= 2))
    for k in range(0, 3 * n + 1):
        expect(noord.multiply(mkpt(noord, P), k), table[k], c, "mul:curve-without-order!=ref",
               "%s Curve(p,a,b) without order: multiply(%s, %d)" % (c.name, _show(P), k))
        expect(mkpt(noord, P) * k, table[k], c, "mul:curve-without-order!=ref", "%s Curve(p,a,b) without order: %s * %d" % (c.name, _show(P), k))
    # P as the basis of a Generator: table-driven raw_mul and blinded G*k
    if P is not None and (P == c.G or n <= 13 or i == n - 1):
        g = get_gen(spec[:3] + [P[0], P[1], n], "pure")
        for k in range(-2 * n, 3 * n + 1):
            check_genmul(c, g, "Generator(basis=%s)" % _show(P), P, k, table[k])
        labels.append("as-generator-basis")
    return labels


def check_genmul(c, g, name, B, k, want):
    what = "%s %s: " % (c.name, name)
    kind = "k<0" if k < 0 else "k>=n" if k >= c.n else "0<=k<n"
    expect(g * k, want, c, "genmul:G*k!=ref:" + kind, what + "G * %d" % k)
    expect(k * g, want, c, "genmul:k*G!=ref:" + kind, what + "%d * G" % k)
    expect(g.raw_mul(k), want, c, "genmul:raw_mul!=ref:" + kind, what + "raw_mul(%d)" % k)
    # the basis passed as a plain Point; multiply(<Generator object>, k) is exercised one form per case in operand_forms
    expect(g.multiply(g.Point(B[0], B[1]), k), want, c, "genmul:multiply(G,k)!=ref:" + kind, what + "multiply(G, %d)" % k)


def cases_toy_mul(tier):
    specs = ecgen.toy_specs(60, max_per_p=2) if tier == "quick" else _toy_list(tier)
    for spec in specs:
        for i in range(spec[5]):
            yield {"curve": spec, "i": i}


# ------------------------------------------------------------------------------------------------ points_for_x


def check_points_for_x(c, g, name, x):
    ys = c.ys_for_x(x)
    what = "%s %s: points_for_x(%s)" % (c.name, name, hex(x) if x > 10**6 else x)
    try:
        got = g.points_for_x(x)
    except ValueError:
        got = None
    if len(ys) == 1:
        return "single-root(order-2 point; not judged)"
    if not ys:
        if got is not None:
            _bad("points_for_x:returns-points-when-none-exist", "%s = %r but no curve point has that abscissa" % (what, [tuple(t) for t in got]))
        return "no-point"
    want = [(x, ys[0]), (x, ys[1])]
    if got is None:
        _bad("points_for_x:refuses-existing-x", "%s raised ValueError, the curve has %r" % (what, want))
    gl = [tuple(t) for t in got]
    if len(gl) != 2 or sorted(gl) != sorted(want):
        _bad("points_for_x:wrong-points", "%s = %r, reference %r" % (what, gl, want))
    if gl != want:
        _bad("points_for_x:parity-order", "%s = %r: even y must come first (reference %r)" % (what, gl, want))
    return "two-points"


def o_toy_pfx(case):
    spec, x = case["curve"], case["x"]
    c = ref_curve(spec)
    return [curve_label(spec), check_points_for_x(c, get_gen(spec, "pure"), "Generator/pure", x)]


def cases_toy_pfx(tier):
    for spec in _toy_list(tier):
        for x in range(spec[0]):
            yield {"curve": spec, "x": x}


def o_big_pfx(case):
    spec, x = case["curve"], case["x"]
    c = REF[spec]
    labels = [curve_label(spec), "how=" + case["how"]]
    for cfg in ecgen.available_cfgs(spec):
        lab = check_points_for_x(c, get_gen(spec, cfg), "Generator/" + cfg, x)
    labels.append(lab)
    return labels


def s_big_pfx():
    def mk(cv, how, k, off, u):
        c = REF[cv]
        if how in ("x-of-kG", "x-of-kG+off"):
            x = c.mul_fast(k, c.G)[0]
            if how == "x-of-kG+off":
                x = (x + off) % c.p
        elif how == "small":
            x = off % 64
        elif how == "top":
            x = c.p - 1 - off % 64
        elif how == "near-n":
            x = (c.n + off - 32) % c.p
        else:
            x = u % c.p
        return {"curve": cv, "x": x, "how": how}
    return st.sampled_from(["k1", "r1", "bls"]).flatmap(lambda cv: st.builds(
        mk, st.just(cv), st.sampled_from(["x-of-kG", "x-of-kG+off", "small", "top", "near-n", "uniform", "uniform"]),
        ecgen.scalars(REF[cv].n), st.integers(1, 1 << 20), st.integers(0, 1 << 400)))


# ------------------------------------------------------------------------------------------------ inverse_mod


def check_inverse(obj, name, a, m):
    got = obj.inverse_mod(a, m)
    if not isinstance(got, int) or (got * a) % m != 1 % m:
        _bad("inverse_mod:wrong:" + name, "%s inverse_mod(%d, %d) = %r; a*b mod m = %r" % (name, a, m, got, (got * a) % m if isinstance(got, int) else None))
    return "canonical" if 0 <= got < m else "non-canonical-representative"


def _inv_objs(kinds):
    out = [("pure", plain_curve("k1"))]
    if "openssl" in kinds and "openssl" in ecgen.available_cfgs("k1"):
        out.append(("openssl", get_gen("k1", "openssl")))
    return out


def o_inv_exh(case):
    m = case["m"]
    labs = set()
    cnt = 0
    for name, obj in _inv_objs(("pure", "openssl")):
        for a in range(-m, 2 * m + 1):
            if math.gcd(a, m) != 1:
                continue
            labs.add(check_inverse(obj, name, a, m))
            cnt += 1
    return sorted(labs) + ["m-prime" if all(m % q for q in range(2, int(m ** 0.5) + 1)) else "m-composite"]


def cases_inv(tier):
    for m in range(2, 260 if tier == "quick" else 1200):
        yield {"m": m}


def o_big_inv(case):
    m, a = case["m"], case["a"]
    labels = ["mod=" + case["which"], "a<0" if a < 0 else "a>=m" if a >= m else "0<a<m"]
    for name, obj in _inv_objs(("pure", "openssl")):
        labels.append(check_inverse(obj, name, a, m))
    return sorted(set(labels))


def s_big_inv():
    mods = []
    for cv in ("k1", "r1", "bls"):
        mods += [(cv + ".p", REF[cv].p), (cv + ".n", REF[cv].n)]
    return st.builds(lambda wm, raw, j: {"which": wm[0], "m": wm[1], "a": raw % (wm[1] - 1) + 1 + j * wm[1]},
                     st.sampled_from(mods), st.one_of(st.integers(0, 1 << 400), st.integers(0, 300), st.integers(0, 1 << 64).map(lambda v: (1 << 384) - v)),
                     st.sampled_from([0, 0, 0, -1, -2, 1, 2, 5]))


# ------------------------------------------------------------------------------------------------ big curves: addition


def o_big_add(case):
    spec, ks = case["curve"], case["ks"]
    c = REF[spec]
    P, Q, R = (c.mul_fast(k, c.G) for k in ks)
    if case.get("qx") is not None and P is not None:
        # Q is the curve point whose abscissa is nearest to x(P) + dx in the direction of dx: operands whose coordinate
        # difference is a small (positive or negative) number, a machine-word boundary, ...
        dx, odd = case["qx"]
        step = 1 if dx >= 0 else -1
        Q = None
        for j in range(200):
            x = P[0] + dx + j * step
            Q = special_point(c, x, odd) if 0 <= x < c.p else None
            if Q is not None:
                break
        if Q is None:
            Q = c.mul_fast(ks[1], c.G)       # x(P) + dx falls outside the field: the plain scalar multiple is used
    labels = [curve_label(spec), "rel=" + case["rel"], relation(c, P, Q)]
    for name, cobj in reps(spec):
        check_add(spec, c, cobj, name, P, Q, labels)
        p, q, r = mkpt(cobj, P), mkpt(cobj, Q), mkpt(cobj, R)
        want = c.add(c.add(P, Q), R)
        expect((p + q) + r, want, c, "add:not-associative", "%s %s: (P+Q)+R for scalars %r" % (c.name, name, ks))
        expect(p + (q + r), want, c, "add:not-associative", "%s %s: P+(Q+R) for scalars %r" % (c.name, name, ks))
        expect(p + cobj.infinity(), P, c, "add:identity", "%s %s: P + infinity" % (c.name, name))
        expect(cobj.infinity() + p, P, c, "add:identity", "%s %s: infinity + P" % (c.name, name))
    labels.append("QR:" + relation(c, Q, R))
    return labels


ADD_RELS = ["free", "Q=P", "Q=-P", "Q=inf", "P=inf", "P=G", "Q=G", "R=-(P+Q)", "R=Q", "R=P+Q", "free", "Q.x~P.x", "Q.x~P.x", "Q.x~P.x",
            "Q.y=P.y", "Q.y=-P.y"]
# secp256k1: multiplication by LAMBDA (a cube root of unity mod n) maps (x, y) to (beta*x, y): three distinct points share
# every ordinate, and P, LAMBDA*P, LAMBDA^2*P sum to infinity
LAMBDA_K1 = 0x5363ad4cc05c30e0a5261c028812645a122e22ea20816678df02967c1b23bd72
assert REF["k1"].mul_fast(LAMBDA_K1, REF["k1"].G)[1] == REF["k1"].G[1] and pow(LAMBDA_K1, 3, REF["k1"].n) == 1


def s_big_add():
    def mk(cv, k1, k2, k3, rel):
        n = REF[cv].n
        if rel == "Q=P":
            k2 = k1
        elif rel == "Q=-P":
            k2 = n - k1
        elif rel == "Q=inf":
            k2 = 0
        elif rel == "P=inf":
            k1 = 0
        elif rel == "P=G":
            k1 = 1
        elif rel == "Q=G":
            k2 = 1
        elif rel == "R=-(P+Q)":
            k3 = (-(k1 + k2)) % n
        elif rel == "R=Q":
            k3 = k2
        elif rel == "R=P+Q":
            k3 = (k1 + k2) % n
        elif rel in ("Q.y=P.y", "Q.y=-P.y") and cv == "k1":
            # distinct abscissas, equal (or opposite) ordinates; R the third point of the triple or free
            lam = pow(LAMBDA_K1, 1 + k2 % 2, n)
            k2 = k1 * lam % n if rel == "Q.y=P.y" else -k1 * lam % n
            if k3 % 3 == 0:
                k3 = k1 * lam * lam % n
        case = {"curve": cv, "ks": [k1, k2, k3], "rel": rel}
        if rel == "Q.x~P.x" and cv != "bls" and k1 % n:
            mag = CLOSE_DX[k2 % len(CLOSE_DX)]
            case["qx"] = [mag if k3 & 1 else -mag, (k3 >> 1) & 1]
        return case
    return st.sampled_from(["k1", "r1", "bls"]).flatmap(lambda cv: st.builds(
        mk, st.just(cv), ecgen.scalars(REF[cv].n), ecgen.scalars(REF[cv].n), ecgen.scalars(REF[cv].n), st.sampled_from(ADD_RELS)))


# coordinate differences between the two operands of an addition (both signs are generated)
CLOSE_DX = [1, 2, 3, 5, 255, 256, 65535, 65536, 2**31 - 1, 2**31, 2**32 - 1, 2**32, 2**32 + 1, 2**62, 2**63 - 1, 2**63, 2**63 + 1,
            2**64 - 1, 2**64, 2**64 + 1, 2**65, 2**96, 2**127, 2**128, 2**192, 2**255]


# ------------------------------------------------------------------------------------------------ big curves: k*P


def _kclass(k, n):
    return "k<0" if k < 0 else "k=0" if k == 0 else "k>=n" if k >= n else "0<k<n"


def special_point(c, px, odd):
    """the curve point with abscissa px (taken mod p) and the requested y parity, or None when there is none.
    Only used on cofactor-1 curves, where every curve point lies in the prime-order group."""
    ys = c.ys_for_x(px % c.p)
    if not ys:
        return None
    return (px % c.p, ys[odd % len(ys)])


def o_big_mul(case):
    spec, kp, k, k2 = case["curve"], case["kp"], case["k"], case["k2"]
    c = REF[spec]
    n = c.n
    P = c.mul_fast(kp, c.G)
    if case.get("px") is not None and spec in ("k1", "r1"):
        sp = special_point(c, case["px"], case.get("py_odd", 0))
        if sp is not None:
            P = sp
    want = c.mul_fast(k, P)
    want2 = c.mul_fast(k2, P)
    wsum = c.mul_fast(k + k2, P)
    if c.add(want, want2) != wsum:
        raise AssertionError("reference: (k+k2)P != kP + k2P")
    labels = [curve_label(spec), _kclass(k, n), "|k|>=2" if abs(k) >= 2 else "|k|<2", "P=G" if kp == 1 else "P=inf" if P is None else "P-other"]
    if P is not None and (P[0] < 16 or P[0] > c.p - 16 or P[1] < 16):
        labels.append("P-small-coordinate")
    for name, cobj in reps(spec):
        accel = ecgen.backend_of(cobj) == "openssl" if isinstance(cobj, Generator) else False
        p = mkpt(cobj, P)
        kind = _kclass(k, n)
        what = "%s %s: P=%s " % (c.name, name, _show(P))
        r1 = expect(p * k, want, c, "mul:P*k!=ref:" + kind, what + "P * %d" % k)
        if accel or name.startswith("Generator"):
            r2 = expect(k2 * p, want2, c, "mul:k*P!=ref:" + _kclass(k2, n), what + "%d * P" % k2)
            expect(r1 + r2, wsum, c, "mul:kP+k2P!=(k+k2)P", what + "k*P + k2*P for k=%d k2=%d" % (k, k2))
        if accel:
            expect(cobj.multiply(p, k), want, c, "mul:curve.multiply!=ref:" + kind, what + "multiply(P, %d)" % k)
            expect(p * (k + k2), wsum, c, "mul:P*k!=ref:" + _kclass(k + k2, n), what + "P * %d" % (k + k2))
            expect(p * n, None, c, "mul:n*P!=infinity", what + "P * n")
            expect(p * -k, c.neg(want), c, "mul:P*k!=ref:" + _kclass(-k, n), what + "P * %d" % -k)
            if P == c.G:
                expect(cobj * k, want, c, "genmul:G*k!=ref:" + kind, what + "G * %d (Generator object)" % k)
    if k >= 0:
        noord = plain_curve(spec, with_order=False)
        if case.get("noorder"):
            expect(mkpt(noord, P) * k, want, c, "mul:curve-without-order!=ref", "%s Curve(p,a,b) without order: P * %d" % (c.name, k))
            labels.append("curve-without-order")
    return labels


def s_big_mul():
    def mk(cv, kp, k, k2, pg, noorder, px, odd):
        if pg == 0:
            kp = 1
        d = {"curve": cv, "kp": kp, "k": k, "k2": k2, "noorder": noorder and 0 <= k < (1 << 260)}
        if pg == 1 and cv in ("k1", "r1"):
            # points with extreme coordinates (x = 0, 1, 2, ..., p-1, ...) rather than multiples of G
            d["px"], d["py_odd"] = px, odd
        return d
    return st.sampled_from(["k1", "k1", "r1", "r1", "bls"]).flatmap(lambda cv: st.builds(
        mk, st.just(cv), ecgen.scalars(REF[cv].n), ecgen.big_scalars(REF[cv].n), ecgen.big_scalars(REF[cv].n),
        st.integers(0, 5), st.sampled_from([False, False, False, True]),
        st.sampled_from([0, 1, 2, 3, 4, 5, 6, 7, 8, 9, 10, -1, -2, -3, -4, -5]), st.integers(0, 1)))


# ------------------------------------------------------------------------------------------------ big curves: generator, blinding


def o_big_genmul(case):
    spec, cfg, k = case["curve"], case["cfg"], case["k"]
    c = REF[spec]
    n = c.n
    want = c.mul_fast(k, c.G)
    labels = [curve_label(spec), "cfg=" + cfg, _kclass(k, n), "rel=" + case["rel"], "entropy=" + case["ent"]]
    basis = None
    if case.get("basis_mult") and spec in ("k1", "r1"):
        # the same curve and order with a non-standard base point H = m*G (every non-zero point generates the prime-order group)
        basis = c.mul_fast(case["basis_mult"], c.G)
        want = c.mul_fast(k, basis)
        labels.append("non-standard-base-point")
    g = ecgen.build_generator(spec, cfg, entropy_f=ecgen.entropy_from_hex(case["entropy"]), basis=basis)
    b = int.from_bytes(bytes.fromhex(case["entropy"]), "big") % n
    if getattr(g, "_blinding_factor", None) != b:
        raise HarnessError("the generator built with chosen entropy does not carry the chosen blinding factor: this "
                           "sub-check would be vacuous (attribute renamed or entropy width changed?)")
    labels.append("blinding-factor-as-chosen")
    check_genmul(c, g, "Generator/%s with blinding factor %s%s" % (cfg, hex(b), "" if basis is None else " and base point %d*G" % case["basis_mult"]),
                 basis or c.G, k, want)
    if basis is not None:
        expect(g.multiply(g, k), want, c, "genmul:multiply(<generator>,k)!=ref", "%s multiply(generator object with base point %d*G, %d)" % (
            c.name, case["basis_mult"], k))
    s = get_gen(spec, "shipped")
    check_genmul(c, s, "Generator/shipped", c.G, k, c.mul_fast(k, c.G))
    labels.append("blinding=0" if b == 0 else "blinding!=0")
    return labels


def s_big_genmul():
    def mk(cv, cfg, ent, raw, rel, k, j):
        n = REF[cv].n
        if cfg == "openssl" and cv not in ecgen.NID:
            cfg = "pure"
        e = {"zero": 0, "n-1": n - 1, "n": n, "n+1": n + 1, "ones": (1 << 256) - 1, "one": 1, "random": raw}[ent]
        b = e % n
        if rel == "k=-b":
            k = -b + j * n
        elif rel == "k=-2b":
            k = -2 * b + j * n
        elif rel == "k=b":
            k = b + j * n
        elif rel == "k=1-b":
            k = 1 - b + j * n
        elif rel == "k=0":
            k = j * n
        case = {"curve": cv, "cfg": cfg, "entropy": e.to_bytes(32, "big").hex(), "ent": ent, "rel": rel, "k": k}
        if raw % 3 == 0 and cv != "bls":
            case["basis_mult"] = [2, 7, n - 1, raw % n or 5][j % 4]
        return case
    return st.sampled_from(["k1", "r1", "bls"]).flatmap(lambda cv: st.builds(
        mk, st.just(cv), st.sampled_from(["pure", "openssl"] if ecgen.OPENSSL_PRESENT else ["pure"]),
        st.sampled_from(["zero", "n-1", "n", "n+1", "ones", "one", "random", "random", "random"]), st.integers(0, (1 << 256) - 1),
        st.sampled_from(["free", "free", "free", "k=-b", "k=-2b", "k=b", "k=1-b", "k=0"]), ecgen.big_scalars(REF[cv].n),
        st.sampled_from([0, 0, 1, -1, 2])))


# ------------------------------------------------------------------------------------------------ long histories


def o_genmul_history(case):
    """one generator object, many multiplications: the answer never depends on how many came before.  The generator's
    entropy source answers differently every time it is asked (as os.urandom does)."""
    import hashlib
    spec, cfg, calls, seed = case["curve"], case["cfg"], case["calls"], case["seed"]
    c = ref_curve(spec) if not isinstance(spec, str) else REF[spec]
    n = c.n
    asked = [0]

    def entropy_f(nbytes):
        asked[0] += 1
        return (hashlib.sha256(b"verif history %d %d" % (seed, asked[0])).digest() * (nbytes // 32 + 1))[:nbytes]
    g = ecgen.build_generator(spec, cfg, entropy_f=entropy_f)
    toy = not isinstance(spec, str)
    table = None
    if toy:
        table, P = [None], c.G
        for _ in range(n - 1):
            table.append(P)
            P = c.add(P, c.G)
    checked = 0
    for i in range(1, calls + 1):
        k = (i * 2654435761 + seed) % (3 * n) - n if toy else (i * 0x9E3779B97F4A7C15F39CC0605CEDC835 + seed) % n
        got = g * k if i % 2 else k * g
        # every call is judged on toy curves; on the production curves the calls around powers of two and multiples of 4096
        near = min(i & (i - 1), (i + 1) & i, (i - 1) & (i - 2), (i + 2) & (i + 1), (i - 2) & (i - 3) if i > 2 else 1) == 0 or i % 4096 < 2
        if toy or near or i == calls:
            want = table[k % n] if toy else c.mul_fast(k, c.G)
            expect(got, want, c, "genmul:history:call-count-dependent", "%s Generator/%s, multiplication number %d on this object (entropy "
                   "source asked %d times so far): %s" % (c.name, cfg, i, asked[0], ("G * %d" if i % 2 else "%d * G") % k))
            checked += 1
    return [curve_label(spec), "cfg=" + cfg, "calls>65536" if calls > 65536 else "calls<=65536", "calls>131072" if calls > 131072 else "calls<=131072"]


def cases_genmul_history(tier):
    toys = ecgen.toy_specs(200)
    # (a pure-Python multiplication costs a millisecond whatever the curve: 256 additions by design)
    yield {"curve": toys[3], "cfg": "pure", "calls": 3000, "seed": 2}
    if ecgen.OPENSSL_PRESENT:
        yield {"curve": "k1", "cfg": "openssl", "calls": 66000, "seed": 3}
    else:
        yield {"curve": toys[len(toys) // 2], "cfg": "pure", "calls": 66000, "seed": 1}
    if tier != "quick":
        yield {"curve": toys[len(toys) // 2], "cfg": "pure", "calls": 70000, "seed": 1}
        yield {"curve": toys[-1], "cfg": "pure", "calls": 300000, "seed": 4}
        # (pure-Python secp256k1 costs ~25 ms a multiplication: 66000 of them would take half an hour; the call count is
        # what matters here and the pure class is the same code on the toy curves above)
        yield {"curve": "k1", "cfg": "pure", "calls": 1100, "seed": 5}
        if ecgen.OPENSSL_PRESENT:
            yield {"curve": "r1", "cfg": "openssl", "calls": 140000, "seed": 6}


# ------------------------------------------------------------------------------------------------ shared key


def o_shared(case):
    spec, d1, d2 = case["curve"], case["d1"], case["d2"]
    c = REF[spec]
    Q1, Q2 = c.mul_fast(d1, c.G), c.mul_fast(d2, c.G)
    want = c.mul_fast(d1 * d2 % c.n, c.G)
    if c.mul_fast(d1, Q2) != want:
        raise AssertionError("reference: d1*(d2*G) != (d1*d2)*G")
    labels = [curve_label(spec), "d1=d2" if d1 == d2 else "d1*d2=1" if d1 * d2 % c.n == 1 else "generic"]
    for cfg in case["cfgs"]:
        if cfg not in ecgen.available_cfgs(spec):
            continue
        g = get_gen(spec, cfg)
        a = expect(generate_shared_public_key(d1, Q2, g), want, c, "shared_key:!=(d1*d2)G", "%s/%s: shared(d1=%d, d2*G)" % (c.name, cfg, d1))
        b = expect(generate_shared_public_key(d2, Q1, g), want, c, "shared_key:!=(d1*d2)G", "%s/%s: shared(d2=%d, d1*G)" % (c.name, cfg, d2))
        if tuple(a) != tuple(b):
            _bad("shared_key:not-symmetric", "%s/%s: %r != %r" % (c.name, cfg, tuple(a), tuple(b)))
        labels.append("cfg=" + cfg)
        # the peer's key in the forms a caller may hold it in: a list, a Point object of this generator, and a Point object
        # that belongs to ANOTHER curve over the same field which happens to pass through the same coordinates - the
        # pair is what is agreed on, the arithmetic is the generator's
        if Q2 is not None and case.get("forms"):
            x, y = Q2
            other = Curve(c.p, (c.a + 1) % c.p, (y * y - x * x * x - (c.a + 1) * x) % c.p)
            for how, arg in (("list", [x, y]), ("own Point", g.Point(x, y)), ("Point of another curve through the same pair", other.Point(x, y))):
                got = generate_shared_public_key(d1, arg, g)
                expect(got, want, c, "shared_key:depends-on-the-form-of-the-public-pair", "%s/%s: shared(d1=%d, d2*G as %s)" % (c.name, cfg, d1, how))
            labels.append("peer-key-forms")
    return labels


def s_shared():
    def mk(cv, d1, d2, rel, pure):
        n = REF[cv].n
        if rel == "same":
            d2 = d1
        elif rel == "inverse":
            d2 = pow(d1, -1, n)
        elif rel == "negated":
            d2 = n - d1
        cfgs = ["shipped", "openssl"] + (["pure"] if pure else [])
        if cv == "bls":
            cfgs = ["shipped"]
        return {"curve": cv, "d1": d1, "d2": d2, "cfgs": cfgs, "forms": 1 if (d1 + d2) % 3 == 0 else 0}
    return st.sampled_from(["k1", "k1", "r1", "r1", "bls"]).flatmap(lambda cv: st.builds(
        mk, st.just(cv), ecgen.scalars(REF[cv].n), ecgen.scalars(REF[cv].n), st.sampled_from(["free", "free", "free", "same", "inverse", "negated"]),
        st.sampled_from([True, False, False, False])))


# ------------------------------------------------------------------------------------------------ sub-checks

def cases_special_points(tier):
    """points with extreme coordinates on the cofactor-1 production curves, a few scalars each"""
    for cv in ("k1", "r1"):
        n = REF[cv].n
        for px in list(range(0, 12)) + [-1, -2, -3, -4, -5, -6]:
            for odd in (0, 1):
                if special_point(REF[cv], px, odd) is None:
                    continue
                for k, k2 in ((1, 2), (2, n - 1), (3, -1), (n - 1, n), (n + 1, 5), (-2, 7)):
                    yield {"curve": cv, "kp": 1, "k": k, "k2": k2, "noorder": False, "px": px, "py_odd": odd}


SUBCHECKS = [
    SubCheck("special_points_mul", o_big_mul, cases=cases_special_points, exhaustive=True,
             nontrivial=lambda c, l: True,
             rule="secp256k1 / secp256r1 points whose abscissa is 0..11 or p-1..p-6 (where such a point exists), both parities, scalars 1, 2, 3, n-1, n+1, -2 (and 2, n-1, -1, n, 5, 7 as second scalar): same oracle as big_mul on every representation"),
    SubCheck("toy_add_exhaustive", o_toy_add, cases=cases_toy_add, exhaustive=True,
             rule="every toy curve (p = 3 mod 4 prime < 100, thorough < 200; prime order; up to 3 (thorough 4) curves per p), as Curve+Point and as "
                  "Generator: every ordered pair (P,Q) including infinity, P=Q, P=-Q (one case = one P, all Q): P+Q, Q+P, curve.add, -Q, P-Q, "
                  "Q+(-Q) equal the reference (negation/subtraction of infinity: see operand_forms)"),
    SubCheck("operand_forms", o_forms, cases=cases_forms, exhaustive=False,
             rule="secp256k1, P-256, BLS12-381 G1 and every third toy curve, every representation, one operator form per case: -infinity, "
                  "P-infinity, infinity-P, infinity+-infinity, infinity*k, and the Generator object itself used as a point (-G, G+P, P+G, G-P, "
                  "P-G, G+G, G-G, G+infinity, G*k, multiply(G,k)) for P in {G, 2G, -G, (n//2)G}, k in {0,1,-1,n,n+2,-3,5,n-2}"),
    SubCheck("toy_assoc_exhaustive", o_toy_assoc, cases=cases_toy_assoc, exhaustive=True,
             rule="toy curves with n <= 31 (thorough 47): every triple (P,Q,R) including infinity (one case = one (P,Q), all R): "
                  "(P+Q)+R == P+(Q+R) == reference"),
    SubCheck("toy_mul_exhaustive", o_toy_mul, cases=cases_toy_mul, exhaustive=True,
             nontrivial=lambda c, l: "P=inf" not in l,
             rule="toy curves p < 60, two per p (thorough: all p < 200), every P (incl. infinity), every k in [-2n, 3n]: P*k (k*P and "
                  "curve.multiply(P,k) for every third k and near multiples of n) (Curve+Point with order, Generator) and k >= 0 on a Curve without order equal k-fold reference addition (n*P = infinity included); with P as the "
                  "basis of a Generator (P = G, P = -G, every P when n <= 13): G*k (blinded), k*G, raw_mul(k), multiply(G,k)"),
    SubCheck("toy_points_for_x_exhaustive", o_toy_pfx, cases=cases_toy_pfx, exhaustive=True,
             rule="every toy curve, every x in [0,p): points_for_x returns exactly the two points with that abscissa, even y first, or raises "
                  "ValueError iff the reference finds none"),
    SubCheck("inverse_mod_exhaustive", o_inv_exh, cases=cases_inv, exhaustive=True,
             rule="every modulus m in [2,260) (thorough [2,1200)), every a in [-m,2m] coprime to m: inverse_mod(a,m)*a = 1 mod m, "
                  "pure-Python Curve.inverse_mod and the OpenSSL override"),
    SubCheck("big_add", o_big_add, strategy=s_big_add, budget=(1000, 60000),
             nontrivial=lambda c, l: "infinity-operand" not in l,
             min_label_frac={"doubling": 0.05, "inverse": 0.05, "infinity-operand": 0.05},
             rule="secp256k1, P-256, BLS12-381 G1; P,Q,R = k_i*G with k_i boundary/uniform and forced relations (Q=P, Q=-P, Q=inf, P=inf, "
                  "P=G, R=-(P+Q), ...); Curve+Point, shipped, pure and OpenSSL generators: sums, negation, subtraction, identity, "
                  "commutativity, associativity equal the reference; non-trivial = both operands != infinity"),
    SubCheck("big_mul", o_big_mul, strategy=s_big_mul, budget=(400, 12000),
             nontrivial=lambda c, l: "|k|>=2" in l and "P=inf" not in l,
             min_label_frac={"k>=n": 0.05, "k<0": 0.05},
             rule="P = kp*G, scalars k, k2 from {0, +-1, +-2, n-1, n, n+1, 2n+3, -n, 2^256-1, 2^256, 2^512-ish, n^2, uniform, negative, "
                  ">= n, up to 2^300}: P*k equals the reference ladder run on the unreduced k on every representation; on generators also "
                  "k2*P and kP + k2P == (k+k2)P; on OpenSSL-backed ones also curve.multiply, P*(k+k2), n*P = infinity, P*(-k); a quarter "
                  "of non-negative k also on a Curve without order; non-trivial = |k| >= 2 and P != infinity"),
    SubCheck("big_generator_mul", o_big_genmul, strategy=s_big_genmul, budget=(240, 6000),
             nontrivial=lambda c, l: "blinding!=0" in l,
             rule="generators constructed (pure / OpenSSL class) with entropy_f returning 0, 1, n-1, n, n+1, 2^256-1 or arbitrary bytes: the "
                  "blinding factor is entropy mod n and G*k (blinded), k*G, raw_mul(k), multiply(G,k) all equal the reference k*G, for k "
                  "free or tied to the blinding factor b (k = -b, -2b, b, 1-b, 0, each + j*n); the shipped generator is checked on the same k"),
    SubCheck("generator_mul_history", o_genmul_history, cases=cases_genmul_history, exhaustive=False, guard_s=(240, 3000),
             nontrivial=lambda c, l: "calls>65536" in l,
             rule="one freshly constructed generator whose entropy source answers differently on every call, then 3000 / 66000 (thorough: 70000, "
                  "300000) alternating G*k and k*G on that one object with k spread over [-n, 2n): every call on toy "
                  "curves, and the calls around powers of two and multiples of 4096 on secp256k1 / secp256r1, equal the reference; "
                  "non-trivial = more than 65536 calls on one object"),
    SubCheck("shared_public_key", o_shared, strategy=s_shared, budget=(300, 10000),
             rule="generate_shared_public_key(d1, d2*G) == generate_shared_public_key(d2, d1*G) == (d1*d2 mod n)*G on shipped / OpenSSL / "
                  "(a quarter of cases) pure generators; d2 free, = d1, = 1/d1, = -d1"),
    SubCheck("big_points_for_x", o_big_pfx, strategy=s_big_pfx, budget=(1200, 80000),
             nontrivial=lambda c, l: "two-points" in l,
             rule="x = abscissa of k*G, that + offset, small, p-1-small, around n, uniform (reduced mod p): points_for_x equals the "
                  "reference roots (even y first) or raises ValueError iff there are none; shipped, pure, OpenSSL generators"),
    SubCheck("big_inverse_mod", o_big_inv, strategy=s_big_inv, budget=(1200, 80000),
             rule="m in {p, n} of the three shipped curves, a uniform / tiny / near 2^384 and shifted by j*m, j in [-2,5] (a != 0 mod m): "
                  "inverse_mod(a,m)*a = 1 mod m for the pure-Python and OpenSSL implementations"),
]
