"""C05 - Signing standard inputs yields valid canonical signatures, changing nothing else.

Oracle = validity predicate (pycoin is_solution_ok AND the reference interpreter oracles/refvm.py, both under the
standard policy flag set) + canonical-signature predicate (reference strict DER, low S, hash-type byte) + frame
snapshot.  The transactions, puzzle scripts, keys and digests on the reference side come from gen/signing.py
(byte-level, no pycoin); pycoin only ever sees its own public API (Tx.sign / tx_utils.sign_tx / Keychain).
"""
import hashlib
import os

from hypothesis import strategies as st

from gen import signing as S
from gen.common import weighted
from oracles import refvm as V
from vlib.core import HarnessError, SubCheck, Violation

from gen import subproc

PROPERTY = "C05"
ASSUMPTIONS = [
    "oracles/refvm.py (transliteration of Core's pre-taproot interpreter, calibrated on the 1405 Core vectors) with oracles/refsighash.py "
    "digests (legacy, BIP143, fork-id 0 / 79, single-SHA256 for GRS) is the second validity judge; both judges must accept",
    "STANDARD = Core's STANDARD_SCRIPT_VERIFY_FLAGS restricted to the 16 flags pycoin defines (DESIGN Appendix B); on BCH/BTG the set "
    "without STRICTENC",
    "'already valid' means valid under the consensus-level default flags P2SH|WITNESS (what Solver.sign itself tests), judged by refvm",
    "ring keys are BIP32 children computed with oracles/refbip32.py; under the keychain mechanism a key that an input uses in "
    "uncompressed form is additionally added as a plain secret (a Keychain indexes hierarchical keys by compressed hash160 only, and "
    "BIP32 keys are compressed by definition)",
    "keys inside one multisig are distinct ring keys; spent amounts are >= 1; outpoint hashes are never all-zero (pycoin treats a single "
    "input with a zero hash as a coinbase)",
]
CONFIGURATIONS = ["coins " + ", ".join(S.COIN_NAMES) + " (GRS without the WIF mechanism: groestlcoin_hash is not installed)",
                  "key supply: build_hash160_lookup + build_p2sh_lookup | tx_utils.sign_tx(WIFs) | Keychain(BIP32 nodes + paths + add_p2s_scripts)",
                  "OpenSSL-accelerated secp256k1 generator (libsecp256k1 not installed)"]
UNEXPLORED = ["libsecp256k1 signing backend", "GRS/TGRS WIF text (needs groestlcoin_hash)",
              "foreign (non-pycoin) partially signed multisig scripts as a starting point for further pycoin passes"]


def _bad(bucket, msg):
    raise Violation(bucket, msg)


def _uncompressed(B):
    return sorted({k for i in B.ins for k, c in zip(i.keys, i.comp) if not c})


def _frame_diff(before, after, may_change):
    """names of the fields that differ, ignoring the unlocking data of the inputs in may_change"""
    out = []
    for f in ("version", "lock_time", "ins", "outs", "unspents"):
        if before[f] != after[f]:
            out.append(f)
    if len(before["unlock"]) != len(after["unlock"]):
        out.append("input-count")
    else:
        for i, (a, b) in enumerate(zip(before["unlock"], after["unlock"])):
            if a != b and i not in may_change:
                out.append("unlock[%d]" % i)
    return out


def _check_sig_blobs(B, inp, script_sig, witness, allowed_types, expect_count, where):
    blobs = S.signature_blobs(inp, script_sig, witness)
    if blobs is None:
        _bad("sign:scriptsig-not-push-only", "%s: scriptSig %s is not push-only" % (where, script_sig.hex()))
    if len(blobs) != expect_count:
        _bad("sign:wrong-number-of-signature-items", "%s: %d signature items, expected %d: %s" % (
            where, len(blobs), expect_count, [b.hex() for b in blobs]))
    for b in blobs:
        if b == S.PLACEHOLDER:
            _bad("sign:placeholder-in-complete-script", "%s: placeholder signature left in a complete script" % where)
        if not V.is_valid_signature_encoding(b):
            _bad("sign:not-strict-der", "%s: signature %s is not strict DER" % (where, b.hex()))
        r, s = V.parse_der_lax(b[:-1])
        if s > V.N // 2:
            _bad("sign:high-s", "%s: signature %s has s > n/2" % (where, b.hex()))
        if b[-1] not in allowed_types:
            _bad("sign:hash-type-byte", "%s: signature ends in hash type 0x%02x, requested %s" % (
                where, b[-1], ["0x%02x" % t for t in sorted(allowed_types)]))
    return blobs


NAME_ORDER = "solver:more-than-10-unlocking-items-are-ordered-by-atom-name-as-text"


def _name_order_explains(B, txd, i, flags, memo):
    """exact attribution of one confirmed defect: Solver.solve_for_constraints orders the solved stack atoms x_0, x_1, ...
    (w_0, ...) by their *names as text*, so with more than 10 unlocking items x_10 sorts between x_1 and x_2.
    True iff undoing exactly that permutation turns the unlocking data into one the reference accepts."""
    def unpermute(items):
        top = len(items) - 1
        perm = sorted(range(top + 1), key=lambda k: "x_%d" % k, reverse=True)
        correct = [None] * (top + 1)
        for j, it in enumerate(items):
            correct[top - perm[j]] = it
        return correct
    d = txd["ins"][i]
    saved = (d["script"], d["witness"])
    pushes = S.script_pushes(d["script"])
    try:
        if len(d["witness"]) > 10:
            d["witness"] = unpermute(list(d["witness"]))
        elif pushes is not None and len(pushes) > 10:
            d["script"] = b"".join(S.push_min(x) for x in unpermute(pushes))
        else:
            return False
        return S.ref_verify(B, txd, i, flags, memo=memo)[0]
    finally:
        d["script"], d["witness"] = saved


def _desc(B, i):
    inp = B.ins[i]
    return "%s input %d %s %d-of-%d comp=%s" % (B.coin, i, inp.kind, inp.m, inp.n, "".join(map(str, inp.comp)))


# =========================================================================================== main sub-check

def o_sign(case):
    B = S.Built(case["tx"])
    n_in = len(B.ins)
    mech = case["mech"]
    if mech == "wif" and not S.COINS[B.coin]["wif"]:
        mech = "lookup"
    req_ht = case["hash_type"]
    if B.forkid and req_ht is not None and case.get("forms", 0) & 1:
        req_ht |= 0x40           # on a fork-id coin the caller may well ask for the type with the fork-id bit already set
    eff_ht = S.effective_hash_type(B.coin, req_ht)
    std = S.standard_flags(B.coin)
    tx = B.pycoin_tx()
    txd = B.ref_tx()
    memo = {}
    labels = ["coin=" + B.coin, "mech=" + mech, "ht=%s" % ("none" if req_ht is None else "0x%02x" % req_ht), "ins=%d" % n_in]

    # ---- inputs signed beforehand (by the reference signer, or by an earlier pycoin pass with another hash type)
    pre = {}
    for sel, who, ht, variant in case["pre"]:
        i = sel % n_in
        if i in pre:
            continue
        inp = B.ins[i]
        full = S.effective_hash_type(B.coin, ht)
        if who == "ref":
            S.ref_sign_input(B, txd, i, range(inp.m), full, variant)
            S.put_into_pycoin(tx, txd, i)
        else:
            S.pycoin_sign(B, tx, "lookup", inp.keys, ht, idx_set=[i], uncompressed=_uncompressed(B))
            S.fill_from_pycoin(txd, tx)
        ok, err = S.ref_verify(B, txd, i, S.DEFAULT, memo=memo)
        if who == "ref" and variant == "stale":
            if ok:
                raise HarnessError("a stale reference signature verifies: %s" % _desc(B, i))
            labels.append("pre-stale")       # not valid: the signer must replace it like any other unsigned input
            continue
        if not ok:
            if who == "ref":
                raise HarnessError("reference pre-signature does not verify under refvm: %s %s" % (_desc(B, i), err))
            _bad(NAME_ORDER if _name_order_explains(B, txd, i, S.DEFAULT, memo) else "sign:not-valid-under-refvm",
                 "pass with hash type %r: %s fails the reference interpreter (%s)" % (ht, _desc(B, i), err))
        pre[i] = who
        labels.append("pre-" + who + ("-" + variant if who == "ref" else ""))

    # ---- what is requested and what is supplied
    mask = case["idx_mask"]
    requested = list(range(n_in)) if mask is None else [i for i in range(n_in) if (mask >> i) & 1]
    used = sorted({k for i in B.ins for k in i.keys})
    withheld = set()
    for isel, ksel in case["withhold"]:
        inp = B.ins[isel % n_in]
        withheld.add(inp.keys[ksel % inp.n])
    supply = [k for k in used if k not in withheld]
    no_script = {sel % n_in for sel in case["no_script"]}
    scripts = B.all_scripts(skip=no_script)
    # a script withheld for one input may still be supplied through another input using the same script
    solvable = {}
    for i, inp in enumerate(B.ins):
        have = len([k for k in inp.keys if k in supply])
        s_ok = all(s in scripts for s in inp.scripts())
        solvable[i] = s_ok and have >= inp.m
    if mask is not None:
        labels.append("idx-set")
    if withheld:
        labels.append("keys-withheld")
    if no_script:
        labels.append("script-withheld")

    before = S.snapshot(tx)
    forms = case.get("forms", 0)
    if forms:
        labels.append("iterable-forms")
    crowd = case.get("crowd", 0)
    if crowd:
        labels.append("crowd>1024" if abs(crowd) > 1024 else "crowd")
    if mask is None:
        S.pycoin_sign(B, tx, mech, supply, req_ht, None, scripts, _uncompressed(B), forms=forms, crowd=crowd)
    else:
        S.pycoin_sign(B, tx, mech, supply, req_ht, requested, scripts, _uncompressed(B), forms=forms, crowd=crowd)
    after = S.snapshot(tx)

    may_change = {i for i in requested if i not in pre}
    diff = _frame_diff(before, after, may_change)
    if diff:
        touched_pre = [d for d in diff if d.startswith("unlock[") and int(d[7:-1]) in pre]
        bucket = "sign:already-valid-input-modified" if touched_pre and len(touched_pre) == len(diff) else \
            "sign:unrequested-input-modified" if all(d.startswith("unlock[") for d in diff) else "sign:frame-modified"
        _bad(bucket, "signing (%s, hash type %r, idx_set %r) changed %s; %s" % (mech, req_ht, None if mask is None else requested, diff,
                                                                              [_desc(B, int(d[7:-1])) for d in diff if d.startswith("unlock[")]))

    S.fill_from_pycoin(txd, tx)
    n_bad_ref = 0
    deferred = None          # a failure explained exactly by a named defect: reported only if nothing else is wrong
    for i, inp in enumerate(B.ins):
        where = "%s (mech %s, hash type %r)" % (_desc(B, i), mech, req_ht)
        labels.append("kind=" + inp.kind)
        if inp.is_multisig():
            if inp.m >= 2:
                labels.append("m>=2")
            if inp.n >= 16:
                labels.append("n>=16")
            elif inp.n >= 8:
                labels.append("n>=8")
        if 0 in inp.comp:
            labels.append("uncompressed-key")
        ref_std, err = S.ref_verify(B, txd, i, std, memo=memo)
        if not ref_std:
            n_bad_ref += 1
        py_std = tx.is_solution_ok(i, flags=std)
        if i in pre:
            if not tx.is_solution_ok(i):
                _bad("sign:already-valid-input-reported-invalid", "%s was valid before signing and is not afterwards" % where)
            if py_std != ref_std:
                _bad("sign:standard-verdict-differs-from-refvm", "%s pre-signed: pycoin %r reference %r (%s)" % (where, py_std, ref_std, err))
            continue
        if i in may_change and solvable[i]:
            if not py_std and not ref_std and _name_order_explains(B, txd, i, std, memo):
                deferred = Violation(NAME_ORDER, "%s: signed input is invalid for pycoin and the reference (%s); it becomes valid when the "
                                     "unlocking items are put back into numeric atom order" % (where, err))
                labels.append("name-order-defect")
                continue
            if not py_std:
                _bad("sign:not-valid-under-standard-flags", "%s: is_solution_ok(flags=STANDARD) is False after signing; scriptSig=%s witness=%s" % (
                    where, txd["ins"][i]["script"].hex()[:200], [w.hex()[:40] for w in txd["ins"][i]["witness"]]))
            if not ref_std:
                _bad("sign:not-valid-under-refvm", "%s: the reference interpreter rejects the signed input (%s); scriptSig=%s witness=%s" % (
                    where, err, txd["ins"][i]["script"].hex()[:200], [w.hex()[:40] for w in txd["ins"][i]["witness"]]))
            _check_sig_blobs(B, inp, txd["ins"][i]["script"], txd["ins"][i]["witness"], {eff_ht}, inp.m, where)
            labels.append("signed-ok")
        else:
            # not requested, or keys / scripts missing: must be left failing, under every flag set, for both judges
            ref_def, _ = S.ref_verify(B, txd, i, S.DEFAULT, memo=memo)
            py_def = tx.is_solution_ok(i)
            if py_def or py_std:
                _bad("sign:unsolvable-input-reported-valid", "%s with too few keys / scripts or not requested is reported valid (default %r, standard %r)" % (
                    where, py_def, py_std))
            if ref_def or ref_std:
                raise HarnessError("reference accepts an input that cannot have been signed: %s" % where)
            labels.append("left-unsigned" if i not in may_change else "unsolvable")
    got = tx.bad_solution_count(flags=std)
    if got != n_bad_ref:
        _bad("sign:bad_solution_count", "bad_solution_count(flags=STANDARD) = %d, reference says %d inputs fail" % (got, n_bad_ref))
    if deferred is not None:
        raise deferred
    return labels


def nt_sign(case, labels):
    kinds = {l for l in labels if l.startswith("kind=")}
    return len(kinds) >= 2 or "m>=2" in labels


def s_sign():
    pre = st.lists(st.tuples(st.integers(0, 4), weighted((2, st.just("ref")), (1, st.just("pycoin"))), st.sampled_from(S.HASH_TYPES),
                             st.sampled_from(["plain", "plain", "highs", "p1push", "junk", "stale", "stale"])).map(list), max_size=2)
    withhold = weighted((4, st.just([])), (1, st.lists(st.tuples(st.integers(0, 4), st.integers(0, 19)).map(list), min_size=1, max_size=3)))
    no_script = weighted((7, st.just([])), (1, st.lists(st.integers(0, 4), min_size=1, max_size=1)))
    return st.fixed_dictionaries({
        "tx": S.s_tx(1, 5),
        "mech": st.sampled_from(S.MECHS),
        "hash_type": S.s_hash_type(),
        "idx_mask": weighted((2, st.none()), (1, st.integers(0, 31))),
        "pre": weighted((1, st.just([])), (1, pre)),
        "withhold": withhold,
        "no_script": no_script,
        "forms": weighted((1, st.just(0)), (1, st.integers(0, 255))),
        # a wallet's worth of unrelated keys handed over with the needed ones (the needed ones first / last)
        "crowd": weighted((40, st.just(0)), (2, st.sampled_from([40, -40, 300, -300])), (3, st.sampled_from([1100, 1100, -1100, 2100, 4200]))),
    })


# =========================================================================================== partial multisig histories

def o_partial(case):
    B = S.Built(case["tx"])
    pos = case["pos"] % len(B.ins)
    inp = B.ins[pos]
    if not inp.is_multisig():
        raise HarnessError("partial_multisig case without a multisig input at pos")
    mech = case["mech"]
    if mech == "wif" and not S.COINS[B.coin]["wif"]:
        mech = "lookup"
    if mech == "keychain-live" and _uncompressed(B):
        mech = "keychain"        # a keychain indexes hierarchical keys by their compressed hash160 only
    std = S.standard_flags(B.coin)
    tx = B.pycoin_tx()
    txd = B.ref_tx()
    memo = {}
    live = None
    if mech == "keychain-live":
        # ONE keychain for the whole history, as a wallet would keep it: the public parents of every listed key and the
        # redeem / witness scripts are registered up front, private parents arrive pass by pass.  A pass therefore
        # looks up cosigner keys whose secrets are not there yet, and must find them once they have been added.
        net = B.net
        masters = [net.keys.bip32_seed(s) for s in S.SEEDS]

        def group(k):
            mi, p = S.ring_path(k)
            return (mi, p[0])

        def parent(k):
            mi, p = S.ring_path(k)
            c = p[0]
            return masters[mi].subkey_for_path("%d%s" % (c & 0x7fffffff, "H" if c >= 0x80000000 else ""))
        live = {"kc": net.keychain(), "groups": set(), "group": group, "parent": parent}
        for k in inp.keys:
            live["kc"].add_key_paths(parent(k).public_copy(), [str(k)])
        live["kc"].add_p2s_scripts(B.all_scripts())
    offered = set()          # positions of listed keys that have been offered to the signer so far
    types_used = set()
    frozen = None            # snapshot taken when the input became valid
    last = None
    unlisted_pool = [r for r in range(S.RING_N) if r not in inp.keys]
    labels = ["coin=" + B.coin, "mech=" + mech, "kind=" + inp.kind, "m=%d" % min(inp.m, 4), "n=%d" % min(inp.n, 8)]
    frame0 = S.snapshot(tx)
    for step, op in enumerate(case["ops"]):
        name = op[0]
        if name == "again":
            if last is None:
                continue
            name, keys_pos, ring, ht = last
        elif name == "sign":
            keys_pos, ht = [], op[2]
            for p in op[1]:
                if p % inp.n not in keys_pos:
                    keys_pos.append(p % inp.n)
            ring = [inp.keys[p] for p in keys_pos]
        elif name == "unlisted":
            keys_pos, ht = [], op[2]
            ring = []
            for sel in op[1]:
                r = unlisted_pool[sel % len(unlisted_pool)]
                if r not in ring:
                    ring.append(r)
        else:
            raise HarnessError("bad op %r" % (op,))
        last = (name, keys_pos, ring, ht)
        labels.append("op=" + op[0])
        before = S.snapshot(tx)
        if live is not None:
            for k in ring:
                if live["group"](k) not in live["groups"]:
                    live["groups"].add(live["group"](k))
                    live["kc"].add_secret(live["parent"](k))
            kw = {} if ht is None else {"hash_type": ht}
            tx.sign(live["kc"], p2sh_lookup=live["kc"], tx_in_idx_set={pos}, **kw)
            # a private parent unlocks every listed key below it, not only the one that was asked for
            keys_pos = [p for p, k in enumerate(inp.keys) if live["group"](k) in live["groups"]]
        else:
            S.pycoin_sign(B, tx, mech, ring, ht, idx_set=[pos], uncompressed=_uncompressed(B))
        after = S.snapshot(tx)
        if [p for p in keys_pos if p not in offered] and len(offered) < inp.m:
            types_used.add(S.effective_hash_type(B.coin, ht))      # this pass adds at least one signature
        offered.update(keys_pos)
        expect = len(offered) >= inp.m
        where = "%s after step %d %r (keys offered so far: %s, mech %s)" % (_desc(B, pos), step, op, sorted(offered), mech)
        diff = _frame_diff(before, after, {pos})
        if diff:
            _bad("sign:unrequested-input-modified" if all(d.startswith("unlock[") for d in diff) else "sign:frame-modified",
                 "%s: signing input %d changed %s" % (where, pos, diff))
        if frozen is not None and after != frozen:
            _bad("partial:complete-input-modified-by-later-pass", "%s: a pass after completion changed the transaction" % where)
        S.fill_from_pycoin(txd, tx)
        py_def = tx.is_solution_ok(pos)
        py_std = tx.is_solution_ok(pos, flags=std)
        ref_def, err_def = S.ref_verify(B, txd, pos, S.DEFAULT, memo=memo)
        ref_std, err_std = S.ref_verify(B, txd, pos, std, memo=memo)
        state = "scriptSig=%s witness=%s" % (txd["ins"][pos]["script"].hex()[:300], [w.hex()[:24] for w in txd["ins"][pos]["witness"]])
        if expect:
            if not py_def and not ref_def and _name_order_explains(B, txd, pos, std, memo):
                _bad(NAME_ORDER, "%s: invalid for pycoin and the reference, valid once the unlocking items are in numeric atom order" % where)
            if not py_def or not py_std:
                _bad("partial:not-valid-after-m-distinct-keys", "%s: %d distinct listed keys have signed but is_solution_ok is default=%r standard=%r; %s" % (
                    where, len(offered), py_def, py_std, state))
            if not ref_def or not ref_std:
                _bad("partial:not-valid-under-refvm-after-m-distinct-keys", "%s: reference rejects (%s / %s); %s" % (where, err_def, err_std, state))
            _check_sig_blobs(B, inp, txd["ins"][pos]["script"], txd["ins"][pos]["witness"], types_used, inp.m, where)
            if frozen is None:
                frozen = after
                labels.append("became-valid")
            else:
                labels.append("pass-after-valid")
        else:
            if py_def or py_std:
                _bad("partial:reported-valid-with-too-few-keys", "%s: only %d of %d required distinct listed keys have signed but is_solution_ok is default=%r standard=%r; %s" % (
                    where, len(offered), inp.m, py_def, py_std, state))
            if ref_def or ref_std:
                raise HarnessError("reference accepts an input with too few signatures: %s; %s" % (where, state))
            labels.append("still-invalid")
    # the untouched neighbours are still exactly as built
    end = S.snapshot(tx)
    if _frame_diff(frame0, end, {pos}):
        _bad("sign:unrequested-input-modified", "neighbouring inputs / frame changed over the history: %s" % _frame_diff(frame0, end, {pos}))
    return labels


def nt_partial(case, labels):
    return "became-valid" in labels and ("still-invalid" in labels or "pass-after-valid" in labels)


def s_partial():
    ms = S.s_input(S.MULTISIG_KINDS, n=st.sampled_from([1, 2, 2, 3, 3, 3, 4, 5, 6, 7]), mmodes=("one", "all", "all", "any", "any", "any"))
    other = S.s_input(["p2pkh", "p2wpkh", "p2pk", "p2sh-p2wpkh"], big=False)
    posl = st.lists(st.integers(0, 19), min_size=1, max_size=4)
    op = weighted((6, st.tuples(st.just("sign"), posl, S.s_hash_type()).map(list)),
                  (1, st.tuples(st.just("unlisted"), st.lists(st.integers(0, 30), min_size=1, max_size=2), S.s_hash_type()).map(list)),
                  (1, st.just(["again"])))

    def mk(tx, msin, others, pos, mech, ops):
        ins = list(others)
        p = pos % (len(ins) + 1)
        ins.insert(p, msin)
        return {"tx": dict(tx, ins=ins), "pos": p, "mech": mech, "ops": ops}
    return st.builds(mk, S.s_tx(1, 1, kinds=["p2pkh"]), ms, st.lists(other, max_size=2), st.integers(0, 2),
                     st.sampled_from(S.MECHS + ["keychain-live", "keychain-live"]), st.lists(op, min_size=1, max_size=8))


# =========================================================================================== re-signing after a permitted edit

def o_resign(case):
    """a multisig input is completed one key at a time with a hash type per signer; the transaction is then edited (an
    output changed or appended, an input appended); the signers whose signature the edit invalidated sign again.  The
    signatures that still commit to the transaction as it stands were made by listed keys, so once the others have signed
    again m distinct listed keys have signed and the input must validate."""
    from oracles import refecdsa, refvm as RV
    B = S.Built(case["tx"])
    pos = case["pos"] % len(B.ins)
    inp = B.ins[pos]
    if not inp.is_multisig():
        raise HarnessError("resign case without a multisig input at pos")
    std = S.standard_flags(B.coin)
    T = B.net.tx
    tx, txd = B.pycoin_tx(), B.ref_tx()
    signers = sorted(set(p % inp.n for p in case["signers"]))[:inp.m]
    rest = [p for p in range(inp.n) if p not in signers]
    signers = (signers + rest)[:inp.m]
    labels = ["coin=" + B.coin, "kind=" + inp.kind, "m=%d" % min(inp.m, 4), "edit=" + case["edit"][0]]
    for j, kp in enumerate(signers):
        S.pycoin_sign(B, tx, "lookup", [inp.keys[kp]], case["hts"][j % len(case["hts"])], idx_set=[pos], uncompressed=_uncompressed(B))
    if not tx.is_solution_ok(pos, flags=std):
        return labels + ["not-complete-before-edit"]       # judged by partial_multisig / multisig_grid
    # ---- the edit, on both sides
    e = case["edit"]
    if e[0] == "out-value" and tx.txs_out:
        j = e[1] % len(tx.txs_out)
        tx.txs_out[j].coin_value = txd["outs"][j]["value"] = (txd["outs"][j]["value"] + 1 + e[2] % 1000) % (21 * 10**14)
    elif e[0] == "append-in":
        k = [r for r in range(S.RING_N) if r not in inp.keys][e[1] % (S.RING_N - len(inp.keys))]
        spk = b"\x76\xa9\x14" + S.hash160(S.sec(k, True)) + b"\x88\xac"
        ph = hashlib.sha256(b"appended%d" % e[2]).digest()
        tx.txs_in.append(T.TxIn(ph, 1, b"", 0xfffffffd))
        tx.unspents.append(T.TxOut(1234, spk))
        txd["ins"].append({"prev_hash": ph, "prev_index": 1, "script": b"", "sequence": 0xfffffffd, "witness": []})
    else:
        labels[-1] = "edit=append-out"
        scr = b"\x51" * (1 + e[1] % 3)
        tx.txs_out.append(T.TxOut(777 + e[2] % 1000, scr))
        txd["outs"].append({"value": 777 + e[2] % 1000, "script": scr})
    # ---- which of the signatures still commit to the transaction as it stands (reference digest + reference ECDSA)
    S.fill_from_pycoin(txd, tx)
    blobs = S.signature_blobs(inp, txd["ins"][pos]["script"], txd["ins"][pos]["witness"]) or []
    alive = set()
    for blob in blobs:
        rs = RV.parse_der_lax(blob[:-1])
        if rs is None:
            continue
        z = S.ref_digest(B, txd, pos, blob[-1], amounts=B.amounts() + [1234])
        if z is None:
            continue
        for kp in signers:
            Q = S.CURVE.mul_fast(S.RING_D[inp.keys[kp]], S.CURVE.G)
            if refecdsa.verify(S.CURVE, Q, z, rs[0], rs[1]):
                alive.add(kp)
    stale = [kp for kp in signers if kp not in alive]
    labels.append("alive=%d" % min(len(alive), 3))
    labels.append("stale=%d" % min(len(stale), 3))
    if not stale:
        if not tx.is_solution_ok(pos, flags=std):
            _bad("resign:valid-signatures-not-accepted", "%s: every signature still verifies after the edit, is_solution_ok is False" % _desc(B, pos))
        return labels
    # ---- the stale signers sign again (together, or one pass each), with the default hash type
    before = S.snapshot(tx)
    passes = [stale] if case["together"] else [[kp] for kp in stale]
    for grp in passes:
        S.pycoin_sign(B, tx, "lookup", [inp.keys[kp] for kp in grp], None, idx_set=[pos], uncompressed=_uncompressed(B))
    after = S.snapshot(tx)
    diff = _frame_diff(before, after, {pos})
    if diff:
        _bad("sign:frame-modified", "%s: re-signing input %d changed %s" % (_desc(B, pos), pos, diff))
    S.fill_from_pycoin(txd, tx)
    ok_def, ok_std = tx.is_solution_ok(pos), tx.is_solution_ok(pos, flags=std)
    if not ok_def or not ok_std:
        _bad("resign:not-valid-after-stale-signers-signed-again",
             "%s: signers %r completed the input (hash types %r), then %r; signatures of %r still verify, %r signed again, but "
             "is_solution_ok is default=%r standard=%r; scriptSig=%s witness=%s" % (
                 _desc(B, pos), signers, case["hts"], case["edit"], sorted(alive), stale, ok_def, ok_std,
                 txd["ins"][pos]["script"].hex()[:300], [w.hex()[:24] for w in txd["ins"][pos]["witness"]]))
    return labels + ["resigned"]


def s_resign():
    ms = S.s_input(S.MULTISIG_KINDS, n=st.sampled_from([2, 2, 3, 3, 4]), mmodes=("all", "any", "any"))
    other = S.s_input(["p2pkh", "p2wpkh"], big=False)
    hts = st.lists(st.sampled_from([1, 1, 0x81, 0x81, 2, 0x82, 3, 0x83]), min_size=2, max_size=4)
    edit = st.one_of(st.tuples(st.just("out-value"), st.integers(0, 5), st.integers(0, 10**6)),
                     st.tuples(st.just("append-in"), st.integers(0, 30), st.integers(0, 1000)),
                     st.tuples(st.just("append-out"), st.integers(0, 5), st.integers(0, 1000))).map(list)

    def mk(tx, msin, others, pos, signers, hts, edit, together):
        ins = list(others)
        p = pos % (len(ins) + 1)
        ins.insert(p, msin)
        return {"tx": dict(tx, ins=ins), "pos": p, "signers": signers, "hts": hts, "edit": edit, "together": together}
    return st.builds(mk, S.s_tx(1, 1, kinds=["p2pkh"]), ms, st.lists(other, max_size=1), st.integers(0, 1),
                     st.lists(st.integers(0, 19), min_size=1, max_size=4), hts, edit, st.booleans())


# =========================================================================================== (m, n) grid, one key at a time

def _perm(n, *tag):
    """deterministic permutation of range(n) from a tag (no random module)"""
    keyed = []
    for j in range(n):
        h = hashlib.blake2b(("%s|%d" % ("|".join(str(t) for t in tag), j)).encode(), digest_size=8).digest()
        keyed.append((h, j))
    return [j for _h, j in sorted(keyed)]


QUICK_GRID = [("p2wsh-multisig", 1, 1), ("p2wsh-multisig", 2, 3), ("p2wsh-multisig", 1, 16), ("p2wsh-multisig", 3, 17),
              ("p2wsh-multisig", 2, 20), ("p2wsh-multisig", 7, 9), ("p2wsh-multisig", 10, 10), ("p2wsh-multisig", 5, 20),
              ("p2sh-multisig", 1, 1), ("p2sh-multisig", 2, 2), ("p2sh-multisig", 1, 15), ("p2sh-multisig", 4, 15),
              ("p2sh-multisig", 3, 5), ("p2sh-multisig", 8, 8), ("p2sh-multisig", 6, 11), ("p2sh-multisig", 2, 7)]
GRID_COINS = ["BTC", "BCH", "LTC", "BTG", "BTC", "GRS", "DOGE"]


def cases_grid(tier):
    seed = os.environ.get("VERIF_SEED") or "1"
    if tier == "quick":
        grid = QUICK_GRID
    else:
        grid = [("p2wsh-multisig", m, n) for n in range(1, 21) for m in range(1, n + 1)] + \
               [("p2sh-multisig", m, n) for n in range(1, 16) for m in range(1, n + 1)]
        # most expensive first so that the shards finish together
        grid.sort(key=lambda t: -(t[1] * t[1] * t[2]))
    for idx, (kind, m, n) in enumerate(grid):
        a = _perm(S.RING_N, seed, "ring", kind, m, n)
        yield {"coin": GRID_COINS[(m + 3 * n) % len(GRID_COINS)], "kind": kind, "m": m, "n": n, "keys": a[:n],
               "order": _perm(n, seed, "order", kind, m, n), "hash_type": ([None] + S.HASH_TYPES)[(m + n) % 7]}


def o_grid(case):
    m, n = case["m"], case["n"]
    txc = {"coin": case["coin"], "version": 1, "lock_time": 0,
           "ins": [{"kind": case["kind"], "keys": case["keys"], "m": m, "comp": [1] * n, "amount": 100000 + n, "sequence": S.U32,
                    "prev": m * 100 + n, "index": 0}],
           "outs": [[90000, "51"]]}
    B = S.Built(txc)
    inp = B.ins[0]
    if inp.n != n or inp.m != m:
        raise HarnessError("grid cell outside the supported domain: %r" % case)
    std = S.standard_flags(B.coin)
    req_ht = case["hash_type"]
    eff = S.effective_hash_type(B.coin, req_ht)
    tx = B.pycoin_tx()
    txd = B.ref_tx()
    memo = {}
    order = case["order"]
    frozen = None
    for t, p in enumerate(order[:m + 1], 1):
        S.pycoin_sign(B, tx, "lookup", [inp.keys[p]], req_ht)
        ok = tx.is_solution_ok(0)
        where = "%s %s %d-of-%d after %d single-key passes (order %s)" % (B.coin, inp.kind, m, n, t, order[:t])
        if t >= m and not ok:
            S.fill_from_pycoin(txd, tx)
            if _name_order_explains(B, txd, 0, std, memo):
                _bad(NAME_ORDER, "%s: invalid, valid once the unlocking items are in numeric atom order" % where)
        if ok != (t >= m):
            _bad("partial:not-valid-after-m-distinct-keys" if t >= m else "partial:reported-valid-with-too-few-keys",
                 "%s: is_solution_ok = %r" % (where, ok))
        if t == m - 1 or t == m:
            S.fill_from_pycoin(txd, tx)
            r_def, e1 = S.ref_verify(B, txd, 0, S.DEFAULT, memo=memo)
            if t == m - 1 and r_def:
                raise HarnessError("reference accepts %d signatures for %d-of-%d" % (t, m, n))
            if t == m:
                r_std, e2 = S.ref_verify(B, txd, 0, std, memo=memo)
                if not tx.is_solution_ok(0, flags=std):
                    _bad("sign:not-valid-under-standard-flags", "%s: is_solution_ok(flags=STANDARD) False" % where)
                if not (r_def and r_std):
                    _bad("partial:not-valid-under-refvm-after-m-distinct-keys", "%s: reference rejects (%s / %s)" % (where, e1, e2))
                _check_sig_blobs(B, inp, txd["ins"][0]["script"], txd["ins"][0]["witness"], {eff}, m, where)
                frozen = S.snapshot(tx)
        if t > m and S.snapshot(tx) != frozen:
            _bad("partial:complete-input-modified-by-later-pass", "%s: a pass after completion changed the transaction" % where)
    return ["kind=" + inp.kind, "n>=16" if n >= 16 else "n<16", "m=n" if m == n else "m<n", "coin=" + B.coin]


SUBCHECKS = [
    SubCheck("sign_transactions", o_sign, strategy=s_sign, budget=(1200, 40000), nontrivial=nt_sign,
             rule="1-5 inputs of the 8 standard puzzle kinds (multisig n 1-20, weighted to small n; uncompressed keys outside witness programs) x 9 coins "
                  "x 3 key-supply mechanisms x hash types {default, ALL, NONE, SINGLE} x {-, ANYONECANPAY} x optional tx_in_idx_set x inputs signed "
                  "beforehand (reference signer incl. high-S / PUSHDATA1 / extra-push forms, or an earlier pycoin pass) x withheld keys / scripts: "
                  "requested+solvable inputs valid under STANDARD for pycoin AND refvm, signatures strict DER / low S / requested type, everything "
                  "else unchanged, unsolvable inputs left failing; non-trivial = >= 2 different kinds or a multisig with m >= 2"),
    SubCheck("partial_multisig", o_partial, strategy=s_partial, budget=(480, 15000), nontrivial=nt_partial,
             rule="one m-of-n input (4 multisig kinds, n <= 7) among 0-2 never-requested neighbours; history of <= 8 passes: sign_with(subset of "
                  "listed keys, generated order, own hash type) / sign_with(unlisted keys) / sign_again; after every pass the input validates "
                  "(pycoin default+STANDARD, refvm default+STANDARD) iff >= m distinct listed keys have signed, later passes change nothing; "
                  "non-trivial = the history crosses the validity threshold and has a step on the other side"),
    SubCheck("multisig_grid", o_grid, cases=cases_grid, exhaustive=False, max_shards=16, guard_s=(240, 3000),
             rule="(m, n) grid, one key per pass in a seed-derived order, m+1 passes: P2WSH n <= 20 and P2SH n <= 15 (thorough: every 1 <= m <= n; "
                  "quick: 16 cells incl. n = 15, 16, 17, 20); pycoin verdict after every pass, refvm at m-1 and m"),
    SubCheck("multisig_resign_after_edit", o_resign, strategy=s_resign, budget=(320, 12000),
             nontrivial=lambda c, l: "resigned" in l and "alive=0" not in l,
             rule="2-4 key multisig input (all four kinds, all coins) completed one key at a time with a hash type per signer (ALL / NONE / "
                  "SINGLE, with and without ANYONECANPAY); then an output value is changed, an output appended or an input appended; the "
                  "signatures that still verify (reference digest + reference ECDSA) are kept and the signers whose signature the edit "
                  "invalidated sign again, together or one pass each: m distinct listed keys have then signed the transaction as it "
                  "stands and the input must validate under the default and standard flags; non-trivial = at least one surviving "
                  "signature and at least one re-signed"),
    SubCheck("sign_transactions_pure_python", subproc.pure_python_variant("checks.c05_signing", "o_sign"), strategy=s_sign,
             budget=(16, 1200), nontrivial=nt_sign,
             rule="the sign_transactions cases in a child interpreter started with PYCOIN_NATIVE=none (pure-Python point arithmetic, asserted)"),
]
