"""C20 - Context-free transaction checks accept exactly the well-formed transactions.

Three-valued oracle: Core's CheckTransaction restated over the fields with the coin's MAX_MONEY.
must-reject / must-accept / don't-care, where "null outpoint" and "coinbase" are evaluated under both candidate
readings (A: hash 0^32 AND index 2^32-1, Bitcoin's; B: hash 0^32 with any index, pycoin's) and a verdict is
demanded only where the two readings agree.
"""
from hypothesis import strategies as st

from gen import txgen
from gen.txgen import expand_tx, weighted
from oracles import refser
from vlib.core import SubCheck, Violation

from pycoin.coins.exceptions import ValidationFailureError
from pycoin.coins.groestlcoin.Tx import Tx as GrsTx
from pycoin.symbols.bch import network as BCH
from pycoin.symbols.btc import network as BTC
from pycoin.symbols.btg import network as BTG
from pycoin.symbols.ltc import network as LTC
from pycoin.symbols.grs import network as GRSNET
from pycoin.symbols.grsrt import network as GRSRT
from pycoin.symbols.tgrs import network as TGRS
from pycoin.symbols.xtn import network as XTN

from gen import subproc

# every network the library ships is loaded into this process before anything is checked (ku and any wallet that lists the
# supported coins do the same): what one coin's module sets up must not change what another coin's check() accepts
import contextlib as _contextlib
import io as _io
from pycoin.networks.registry import network_codes as _codes, network_for_netcode as _net_for
with _contextlib.redirect_stdout(_io.StringIO()):
    ALL_NETWORKS_LOADED = sorted(c for c in _codes() if _net_for(c) is not None)

PROPERTY = "C20"
COIN = 10**8
# per-coin MAX_MONEY as the property states it: 21,000,000 coins; "Groestlcoin differs" (105,000,000 GRS)
MAX_MONEY = {"BTC": 21000000 * COIN, "LTC": 21000000 * COIN, "BCH": 21000000 * COIN, "BTG": 21000000 * COIN,
             "GRS": 105000000 * COIN,
             # the same coins as their networks hand the class out (network.tx), incl. the test networks
             "XTN": 21000000 * COIN, "GRS.net": 105000000 * COIN, "TGRS": 105000000 * COIN, "GRSRT": 105000000 * COIN}
CLASSES = {"BTC": BTC.tx, "LTC": LTC.tx, "BCH": BCH.tx, "BTG": BTG.tx, "GRS": GrsTx,
           "XTN": XTN.tx, "GRS.net": GRSNET.tx, "TGRS": TGRS.tx, "GRSRT": GRSRT.tx}
MAX_SIZE = 1000000
ZERO = b"\0" * 32
NULL_INDEX = 0xFFFFFFFF

ASSUMPTIONS = [
    "oracle = Bitcoin Core CheckTransaction restated over fields (counts, value range, running total, duplicate outpoints, "
    "coinbase script length 2..100, null prevout in non-coinbase, witness-stripped size <= 1,000,000), sizes from oracles/refser.py",
    "MAX_MONEY is 21,000,000 coins for BTC/LTC/BCH/BTG and 105,000,000 for GRS, as the property text states (constants in the "
    "oracle, not read from the classes)",
    "transactions whose verdict depends on whether a zero prev-hash with index != 2^32-1 counts as null/coinbase are don't-care",
    "stripped size <= 1,000,000 < total size is don't-care (the property demands acceptance only up to a total of 1,000,000)",
]
CONFIGURATIONS = ["all shipped network modules imported first", "BTC, LTC, BCH, BTG Tx classes via pycoin.symbols.*; GRS Tx class imported directly (pycoin.coins.groestlcoin.Tx; "
                  "groestlcoin_hash C module absent, not needed by check())"]
UNEXPLORED = ["transactions with more than ~260 inputs (pycoin's duplicate scan is quadratic)",
              "output values outside the 64-bit range other than small negative ones"]


def _bad(b, m):
    raise Violation(b, m)


def reference_verdict(coin, m):
    """-> (verdict, reasons_A, reasons_B, info) with verdict in 'reject' | 'accept' | 'dontcare'"""
    mx = MAX_MONEY[coin]
    common = []
    if not m["ins"]:
        common.append("no-inputs")
    if not m["outs"]:
        common.append("no-outputs")
    total = 0
    serialisable = True
    for o in m["outs"]:
        v = o["value"]
        if not 0 <= v <= 2**64 - 1:
            serialisable = False
        if v < 0 or v > mx:
            common.append("value-out-of-range")
            break
        total += v
        if total > mx:
            common.append("total-out-of-range")
            break
    pairs = [(i["prev"], i["index"]) for i in m["ins"]]
    if len(set(pairs)) != len(pairs):
        common.append("duplicate-outpoint")
    stripped = total_size = None
    if serialisable:
        stripped = len(refser.ser_tx_legacy(m))
        total_size = len(refser.ser_tx(m))
        if stripped > MAX_SIZE:
            common.append("stripped-size>1000000")

    def reading(is_null):
        r = []
        coinbase = len(m["ins"]) == 1 and is_null(m["ins"][0])
        if coinbase:
            if not 2 <= len(m["ins"][0]["script"]) <= 100:
                r.append("coinbase-script-size")
        elif any(is_null(i) for i in m["ins"]):
            r.append("null-prevout")
        return coinbase, r

    cb_a, ra = reading(lambda i: i["prev"] == ZERO and i["index"] == NULL_INDEX)
    cb_b, rb = reading(lambda i: i["prev"] == ZERO)
    rej_a, rej_b = bool(common or ra), bool(common or rb)
    info = {"coinbase_a": cb_a, "coinbase_b": cb_b, "stripped": stripped, "total": total_size,
            "near_null": any(i["prev"] == ZERO and i["index"] != NULL_INDEX for i in m["ins"])}
    if rej_a and rej_b:
        verdict = "reject"
    elif not rej_a and not rej_b:
        verdict = "accept" if total_size is not None and total_size <= MAX_SIZE else "dontcare"
    else:
        verdict = "dontcare"
    return verdict, common + ra, common + rb, info


def _snapshot(tx):
    return (tx.version, tx.lock_time,
            tuple((bytes(i.previous_hash), i.previous_index, bytes(i.script), i.sequence, tuple(bytes(w) for w in i.witness))
                  for i in tx.txs_in),
            tuple((o.coin_value, bytes(o.script)) for o in tx.txs_out), len(tx.unspents))


def o_check(case):
    coin = case["coin"]
    Tx = CLASSES[coin]
    m = expand_tx(case["tx"])
    verdict, ra, rb, info = reference_verdict(coin, m)
    tx = txgen.to_pycoin(Tx, m)
    serialisable = info["total"] is not None
    if serialisable and len(m["ins"]) >= 2 and (len(m["ins"]) + len(m["outs"])) % 3 == 0:
        # inputs of mixed provenance, as in a transaction that was parsed and then extended by hand: every other input is
        # the parsed object (its hash is the library's reversed-hex bytes subclass), the rest are constructed from plain bytes
        parsed = Tx.from_bin(tx.as_bin())
        for k in range(0, len(tx.txs_in), 2):
            tx.txs_in[k] = parsed.txs_in[k]
    before = _snapshot(tx)
    before_bin = tx.as_bin() if serialisable else None
    if serialisable and before_bin != refser.ser_tx(m):
        _bad("c20:as_bin!=ref", "as_bin differs from the reference serialisation (C07 territory)")
    # one case in three runs with the calling thread's decimal context set to a short precision (an application doing
    # 8-digit coin arithmetic): the money limits are integers, whatever type the library stores them in
    import decimal
    ctx = [None, None, decimal.BasicContext, None, None, decimal.Context(prec=8), None, None, decimal.Context(prec=12, rounding=decimal.ROUND_DOWN)][
        (len(m["ins"]) + len(m["outs"]) + sum(o["value"] for o in m["outs"])) % 9]
    try:
        with decimal.localcontext(ctx) if ctx is not None else decimal.localcontext():
            r = tx.check()
        got = "accept"
        if r is not None:
            _bad("check:return-value", "check() returned %r" % (r,))
    except ValidationFailureError as ex:
        got = "reject"
        why = str(ex)
    if _snapshot(tx) != before or (serialisable and tx.as_bin() != before_bin):
        _bad("check:modifies-tx", "transaction changed by check()")

    reasons = sorted(set(ra) & set(rb)) or sorted(set(ra) | set(rb))
    if verdict == "reject" and got != "reject":
        _bad("check:accepts-malformed:" + "+".join(sorted(set(ra) & set(rb) or set(ra))),
             "%s check() accepted a transaction that must be rejected: %s" % (coin, reasons))
    if verdict == "accept" and got != "accept":
        _bad("check:rejects-wellformed:" + _slug(why),
             "%s check() raised %r for a well-formed transaction (stripped %s, total %s bytes, %d in, %d out)" % (
                 coin, why, info["stripped"], info["total"], len(m["ins"]), len(m["outs"])))

    # coinbase detection and exemption, where both readings agree
    labels = ["coin=" + coin, "oracle=" + verdict, "pycoin=" + got]
    if info["coinbase_a"] == info["coinbase_b"]:
        if tx.is_coinbase() != info["coinbase_a"]:
            _bad("is_coinbase:wrong", "is_coinbase() = %r, expected %r" % (tx.is_coinbase(), info["coinbase_a"]))
    if info["coinbase_a"]:
        labels.append("coinbase:script=%d" % len(m["ins"][0]["script"]) if len(m["ins"][0]["script"]) in (0, 1, 2, 3, 99, 100, 101)
                      else "coinbase:script=other")
        n = tx.bad_solution_count()
        if n != 0:
            _bad("coinbase:counted-unsigned", "coinbase transaction has bad_solution_count() == %d" % n)
        if _snapshot(tx) != before:
            _bad("bad_solution_count:modifies-tx", "transaction changed by bad_solution_count()")
        # the exemption must not depend on what is recorded as the (meaningless) spent output of the coinbase input,
        # nor on the flags: every way a caller may have filled tx.unspents for it
        script_len = len(m["ins"][0]["script"])
        variants = [("no unspents", []), ("unspents=[None]", [None]),
                    ("a recorded TxOut", [tx.TxOut(50 * 10**8, b"\x51")]),
                    ("a recorded TxOut with an unsatisfiable script", [tx.TxOut(0, b"\x6a")])]
        name, uns = variants[(script_len + len(m["outs"])) % len(variants)]
        saved = tx.unspents
        tx.unspents = uns
        try:
            for kw in ({}, {"flags": 0}):
                n2 = tx.bad_solution_count(**kw)
                if n2 != 0:
                    _bad("coinbase:counted-unsigned", "coinbase transaction (script %s) with %s has bad_solution_count(%s) == %d" % (
                        m["ins"][0]["script"][:40] if isinstance(m["ins"][0]["script"], str) else script_len, name, kw, n2))
        finally:
            tx.unspents = saved
        labels.append("coinbase-unspents:" + name.split()[0])
    for r in sorted(set(ra) | set(rb)):
        labels.append("why=" + r)
    if info["near_null"]:
        labels.append("near-null:" + ("readings-agree" if verdict != "dontcare" or set(ra) == set(rb) else "dontcare"))
        labels.append("near-null:pycoin=" + got)
    labels.extend(_boundary_labels(coin, m, info))
    return labels


def _slug(s):
    return "".join(c if c.isalnum() else "-" for c in s)[:40]


def _boundary_labels(coin, m, info):
    mx = MAX_MONEY[coin]
    out = set()
    tot = 0
    for k, o in enumerate(m["outs"]):
        v = o["value"]
        for name, b in (("0", 0), ("1", 1), ("MAX-1", mx - 1), ("MAX", mx), ("MAX+1", mx + 1), ("2^63", 2**63), ("2^64-1", 2**64 - 1), ("-1", -1)):
            if v == b:
                out.add("value=" + name)
        if mx > 21000000 * COIN and 21000000 * COIN < v <= mx:
            out.add("value:grs-between-21M-and-105M")
        if 0 <= v <= mx:
            prev = tot
            tot += v
            if prev <= mx < tot:
                out.add("total-crosses-at=%s" % ("first" if k == 0 else "last" if k == len(m["outs"]) - 1 else "middle"))
            if tot == mx:
                out.add("total=MAX")
    for name, val in (("stripped", info["stripped"]), ("total", info["total"])):
        if val is not None and abs(val - MAX_SIZE) <= 1:
            out.add("%s-size=%d" % (name, val))
    if info["stripped"] is not None and info["stripped"] <= MAX_SIZE < info["total"]:
        out.add("size:stripped<=1M<total")
    n = len(m["ins"])
    out.add("n_in=%s" % (n if n < 3 else "3+" if n < 200 else "200+"))
    hs = [i["prev"] for i in m["ins"]]
    if len(set(hs)) < len(hs) and len(set((i["prev"], i["index"]) for i in m["ins"])) == len(hs):
        out.add("same-hash-different-index")
    if any(i["prev"] != ZERO and i["index"] == NULL_INDEX for i in m["ins"]):
        out.add("nonzero-hash-index-ffffffff")
    if any(i["prev"] == ZERO and i["index"] == NULL_INDEX for i in m["ins"]) and n > 1:
        out.add("exact-null-among-others")
    if refser.has_witness(m):
        out.add("witness")
    return sorted(out)


def nt_check(case, labels):
    return any(x.startswith(("value=", "total", "stripped-size", "total-size", "size:", "coinbase:script=", "near-null", "why=",
                             "same-hash", "nonzero-hash", "exact-null")) for x in labels)


# ------------------------------------------------------------------ generator (boundary-directed, by construction)


def _small_script():
    return st.binary(max_size=12).map(bytes.hex)


def _normal_hash():
    plain = st.binary(min_size=31, max_size=31).map(lambda b: (b"\x01" + b).hex())
    # non-null hashes that begin or end with a run of zero bytes (real transaction ids of low-difficulty coins do)
    runs = st.builds(lambda j, b, front: ((b"\0" * j + b"\x01" + (b * 2)[:31 - j]) if front else ((b * 2)[:31 - j] + b"\x01" + b"\0" * j)).hex(),
                     st.integers(1, 31), st.binary(min_size=16, max_size=16), st.booleans())
    return weighted([(9, plain), (1, runs)])


def _normal_in():
    idx = st.one_of(st.integers(0, 5), st.sampled_from([0, 1, NULL_INDEX - 1, NULL_INDEX]), st.integers(0, NULL_INDEX))
    wit = weighted([(80, st.just([])), (20, st.lists(_small_script(), min_size=1, max_size=2))])
    return st.builds(lambda h, i, s, q, w: {"prev": h, "index": i, "script": s, "sequence": q, "witness": w},
                     _normal_hash(), idx, _small_script(), st.sampled_from([0, NULL_INDEX, NULL_INDEX - 1]), wit)


def _values(mx):
    """a list of output values (1..4, or many nearly equal ones); mostly within range, built around the MAX boundaries"""
    single = st.sampled_from([0, 1, 2, mx - 1, mx, mx + 1, 2**63 - 1, 2**63, 2**64 - 1, -1, 21000000 * COIN, 21000000 * COIN + 1, mx // 2])
    ok_small = st.lists(st.integers(0, 10**10), min_size=1, max_size=4)

    def split_total(total, cuts, n):
        # n values summing to `total` exactly
        cuts = sorted(c % (total + 1) for c in cuts[:n - 1])
        pts = [0] + cuts + [total]
        return [b - a for a, b in zip(pts, pts[1:])]
    exact = st.builds(lambda n, cuts, d: split_total(mx + d, cuts, n), st.integers(1, 4), st.lists(st.integers(0, 2**62), min_size=3, max_size=3),
                      st.sampled_from([0, 0, 1, -1, 2]))
    # prefix sums stay <= MAX until position k, where one more unit crosses it
    cross = st.builds(lambda n, cuts, k, tail: (lambda vs: vs[:k % len(vs) + 1] + [tail] + vs[k % len(vs) + 1:])(split_total(mx, cuts, n)),
                      st.integers(1, 3), st.lists(st.integers(0, 2**62), min_size=3, max_size=3), st.integers(0, 3), st.sampled_from([1, 0, 1, 2, mx]))
    with_single = st.builds(lambda vs, s, pos: vs[:pos % (len(vs) + 1)] + [s] + vs[pos % (len(vs) + 1):],
                            st.lists(st.integers(0, 1000), max_size=3), single, st.integers(0, 3))
    # many outputs of (nearly) the same value whose total lands next to MAX: n * (MAX // n) and one unit more each; or all
    # one below a power of two, with the count chosen so that the total is the first to exceed MAX
    def equal(n, d, kind):
        if kind == "pow2":
            v = (1 << max(1, (mx // n).bit_length())) - 1 - d % 3
            k = mx // v + 1                     # the smallest count whose total exceeds MAX
            return [v] * (k if d % 2 == 0 else k - 1) if k <= 5000 else [mx // n] * n
        v = mx // n + d
        return [v] * n if kind == "same" else [v] * (n - 1) + [mx - (mx // n) * (n - 1) + d]
    counts = st.one_of(st.integers(2, 70), st.sampled_from([15, 16, 30, 31, 32, 60, 62, 63, 64, 100, 120, 127, 128, 239, 255, 256, 1000]))
    equal_total = st.builds(equal, counts, st.sampled_from([0, 1, 1, -1, 2]), st.sampled_from(["same", "same", "last-adjusted", "pow2"]))
    return weighted([(25, ok_small), (25, exact), (20, cross), (30, with_single), (12, equal_total)])


def _mk_outs(vals, scripts):
    return [{"value": v, "script": scripts[k % len(scripts)]} for k, v in enumerate(vals)]


def s_check():
    def build(coin):
        mx = MAX_MONEY[coin]
        outs = st.builds(_mk_outs, _values(mx), st.lists(_small_script(), min_size=1, max_size=3))
        ok_outs = st.builds(_mk_outs, st.lists(st.integers(0, 10**9), min_size=1, max_size=3), st.lists(_small_script(), min_size=1, max_size=3))
        ins_normal = st.lists(_normal_in(), min_size=1, max_size=4)

        def base(ins, outs_, version=1, lock_time=0, **kw):
            d = {"version": version, "lock_time": lock_time, "ins": ins, "outs": outs_}
            d.update(kw)
            return d

        def dedupe(ins):
            # by construction: make outpoints distinct by bumping the first hash byte
            seen, out = set(), []
            for k, i in enumerate(ins):
                i = dict(i)
                while (i["prev"], i["index"]) in seen:
                    i["prev"] = "%02x" % ((int(i["prev"][:2], 16) % 254) + 1) + i["prev"][2:]
                    i["index"] = (i["index"] + 1) & NULL_INDEX
                seen.add((i["prev"], i["index"]))
                out.append(i)
            return out
        ins_ok = ins_normal.map(dedupe)

        # 1. value / total boundaries on an otherwise well-formed transaction
        c_values = st.builds(base, ins_ok, outs)
        # 2. counts
        c_counts = st.one_of(st.builds(base, st.just([]), ok_outs), st.builds(base, ins_ok, st.just([])),
                             st.builds(base, st.just([]), st.just([])))

        # 3. duplicate outpoints at a chosen pair of positions / same hash with a different index
        def dup(ins, a, b, same_index, script, between=0):
            ins = [dict(i) for i in ins]
            if len(ins) < 2:
                ins.append(dict(ins[0], script=script, index=(ins[0]["index"] + 7) & NULL_INDEX, prev="02" + ins[0]["prev"][2:]))
            a %= len(ins)
            b = (a + 1 + b % (len(ins) - 1)) % len(ins)
            ins[b]["prev"] = ins[a]["prev"]
            ins[b]["index"] = ins[a]["index"] if same_index else (ins[a]["index"] ^ 1)
            ins[b]["script"] = script
            # optionally, inputs spending OTHER outputs of the same previous transaction stand between (and around) the two
            lo, hi = min(a, b), max(a, b)
            for t in range(between):
                sib = dict(ins[a], index=(ins[a]["index"] + 2 + t) & NULL_INDEX, script=script)
                ins.insert([hi, lo + 1, 0, len(ins)][(t + between) % 4] if t else hi, sib)
                hi += 1
            return ins
        c_dups = st.builds(base, st.builds(dup, ins_ok, st.integers(0, 5), st.integers(0, 5), st.booleans(), _small_script(),
                                            st.sampled_from([0, 0, 1, 1, 2, 3])), ok_outs)
        c_many = st.builds(lambda n, d, o: base([txgen_xin_json(d % n)] if d is not None else [], o, xins=n),
                           st.sampled_from([2, 0xFC, 0xFD, 0xFE]), st.one_of(st.none(), st.integers(0, 300)), ok_outs)

        # 4. coinbase script lengths; exact / near-null outpoints at every position
        def cb(length, seed, index, hsh, wit):
            return [{"prev": hsh, "index": index, "script": [length, seed], "sequence": NULL_INDEX, "witness": wit}]
        cb_len = weighted([(85, st.sampled_from([0, 1, 2, 2, 3, 99, 100, 100, 101])), (15, st.integers(0, 110))])
        cb_wit = st.sampled_from([[], [], ["00" * 32]])
        c_coinbase = st.builds(base, st.builds(cb, cb_len, st.integers(0, 250), st.just(NULL_INDEX), st.just("00" * 32), cb_wit),
                               st.one_of(ok_outs, outs))
        c_nearnull_alone = st.builds(base, st.builds(cb, cb_len, st.integers(0, 250),
                                                     st.one_of(st.sampled_from([0, 1, 5, NULL_INDEX - 1]), st.integers(0, NULL_INDEX - 1)),
                                                     st.just("00" * 32), cb_wit), ok_outs)
        c_ffff_alone = st.builds(base, st.builds(cb, cb_len, st.integers(0, 250), st.just(NULL_INDEX), _normal_hash(), cb_wit), ok_outs)

        def plant(ins, pos, kind, idx, twice):
            ins = [dict(i) for i in ins]
            special = {"prev": "00" * 32, "index": NULL_INDEX if kind == "exact" else idx % NULL_INDEX, "script": "5151", "sequence": 0, "witness": []}
            pos %= len(ins) + 1
            ins.insert(pos, special)
            if twice:
                ins.append(dict(special, script="52", index=special["index"] if twice == 2 else (special["index"] ^ 1)))
            return ins
        c_planted = st.builds(base, st.builds(plant, ins_ok, st.integers(0, 4), st.sampled_from(["exact", "near", "near"]),
                                              st.one_of(st.sampled_from([0, 1, 5]), st.integers(0, NULL_INDEX - 1)),
                                              st.sampled_from([0, 0, 0, 1, 2])), ok_outs)

        # 4b. two neighbouring inputs whose (non-null) hashes together contain 32 zero bytes in a row: the first ends in j zero
        # bytes, the second begins with 32 - j or more
        def straddle(ins, pos, j, extra, b):
            ins = [dict(i) for i in ins]
            first = ((b * 2)[:31 - j] + b"\x01" + b"\0" * j).hex()
            k = min(31, 32 - j + extra)
            second = (b"\0" * k + b"\x02" + (b * 2)[:31 - k]).hex()
            pos %= len(ins) + 1
            ins[pos:pos] = [{"prev": first, "index": 1, "script": "51", "sequence": 0, "witness": []},
                            {"prev": second, "index": 2, "script": "52", "sequence": 0, "witness": []}]
            return ins
        c_straddle = st.builds(base, st.builds(straddle, ins_ok, st.integers(0, 4), st.integers(1, 31), st.integers(0, 2),
                                               st.binary(min_size=16, max_size=16)), ok_outs)

        # 5. sizes 999 999 / 1 000 000 / 1 000 001 through one padded script, measured stripped or in total, with / without witness
        def sized(ins, outs_, where, pos, size, of, seed, wit, coinbase, shape):
            ins = [dict(i, witness=[]) for i in ins]
            if coinbase:
                ins = [{"prev": "00" * 32, "index": NULL_INDEX, "script": "0102", "sequence": 0, "witness": []}]
                where = "out"
            if wit:
                ins[0]["witness"] = ["aa" * wit]
            extra = {}
            if shape is not None:
                # the rest of the transaction carries fields sitting on compact-size boundaries (a length or a count of
                # exactly 252 / 253 / 254 / 255 / 256 / 65535 / 65536), so that a size computed otherwise than by
                # serialising has every prefix width to get right
                kind, b = shape
                if kind == "script":
                    outs_ = list(outs_) + [{"value": 1, "script": [b, seed]}, {"value": 2, "script": [b, seed + 1]}]
                elif kind == "outs" and b < 1000:
                    extra["xouts"] = max(0, b - len(outs_))
                elif kind == "ins" and b < 1000 and not coinbase:
                    extra["xins"] = max(0, b - len(ins))
            return base(ins, outs_, pad={"where": where, "pos": pos, "size": size, "of": of, "seed": seed}, **extra)
        c_size = st.builds(sized, ins_ok, ok_outs, st.sampled_from(["in", "out"]), st.integers(0, 3),
                           st.sampled_from([MAX_SIZE - 1, MAX_SIZE, MAX_SIZE + 1, MAX_SIZE + 1, MAX_SIZE + 2, MAX_SIZE + 3, MAX_SIZE + 4, MAX_SIZE + 8]),
                           st.sampled_from(["stripped", "total"]),
                           st.integers(0, 250), st.sampled_from([0, 0, 1, 33]), st.sampled_from([False, False, False, True]),
                           st.one_of(st.none(), st.tuples(st.sampled_from(["script", "script", "outs", "ins"]),
                                                          st.sampled_from([252, 253, 253, 254, 255, 256, 65535, 65536]))))
        # 6. anything goes (small): arbitrary mixtures
        c_free = st.builds(base, st.lists(st.one_of(_normal_in(), txgen.txins(big=0)), max_size=4), st.one_of(outs, ok_outs, st.just([])),
                           txgen.u32s(), txgen.u32s())
        tx = weighted([(26, c_values), (6, c_counts), (14, c_dups), (3, c_many), (12, c_coinbase), (6, c_nearnull_alone),
                       (3, c_ffff_alone), (14, c_planted), (6, c_size), (10, c_free), (3, c_straddle)])
        return tx.map(lambda t: {"coin": coin, "tx": t})
    built = {coin: build(coin) for coin in MAX_MONEY}       # built once; drawing a coin must not rebuild the strategy tree
    return st.one_of(*[built[c] for c in ("BTC", "BTC", "LTC", "BCH", "BTG", "GRS", "GRS", "XTN", "GRS.net", "TGRS", "GRSRT")])


def txgen_xin_json(k):
    """JSON form of the k-th procedurally generated input (to plant a duplicate of it)"""
    x = txgen._xin(k)
    return {"prev": x["prev"].hex(), "index": x["index"], "script": "ab", "sequence": 1, "witness": []}


# ------------------------------------------------------------------ transactions that arrive as bytes


def cases_parsed_empty(tier):
    """serialisations with no inputs and / or no outputs in the extended (marker 00) layouts, per coin"""
    one_in = "01" + "11" * 32 + "00000000" + "00" + "ffffffff"
    one_out = "01" + "e803000000000000" + "0151"
    for coin in ("BTC", "LTC", "XTN", "BCH"):
        for flag in ("01", "08", "09", "03"):
            for ins, outs in (("00", "00"), ("00", one_out), (one_in, "00")):
                for tail in ("", "00", "0000"):
                    yield {"coin": coin, "hex": "01000000" + "00" + flag + ins + outs + tail + "00000000"}
        for ins, outs in (("00", "00"), ("00", one_out)):
            yield {"coin": coin, "hex": "01000000" + ins + outs + "00000000"}


def o_parsed_empty(case):
    T = CLASSES[case["coin"]]
    try:
        tx = T.from_hex(case["hex"])
    except Exception:       # noqa - whether these bytes parse at all is the wire-format property's business
        return ["not-parsed"]
    if tx.txs_in and tx.txs_out:
        return ["parsed-with-inputs-and-outputs"]
    try:
        tx.check()
    except ValidationFailureError:
        return ["parsed-empty:rejected"]
    _bad("check:accepts-malformed:no-inputs-or-outputs", "%s transaction parsed from %s has %d inputs and %d outputs and check() accepts it" % (
        case["coin"], case["hex"], len(tx.txs_in), len(tx.txs_out)))


SUBCHECKS = [
    SubCheck("parsed_without_inputs_or_outputs", o_parsed_empty, cases=cases_parsed_empty, exhaustive=True, max_shards=2,
             nontrivial=lambda c, l: "parsed-empty:rejected" in l,
             rule="byte strings in the plain and the extended (marker 00, flag 01 / 03 / 08 / 09) layouts with no inputs and / or no "
                  "outputs, read with from_hex by the BTC, LTC, XTN and BCH classes: whenever the class parses them into a transaction "
                  "lacking inputs or outputs, check() rejects it; non-trivial = such a transaction was parsed"),
    SubCheck("check_tx", o_check, strategy=s_check, budget=(6000, 100000), nontrivial=nt_check,
             rule="boundary-directed transactions for BTC/LTC/BCH/BTG/GRS: values {0,1,MAX-1,MAX,MAX+1,2^63,2^64-1,-1}, totals equal to / "
                  "crossing MAX at a chosen output, no inputs / outputs, duplicate outpoints at chosen positions (and same hash with other "
                  "index), 2..254 inputs, coinbase script lengths {0,1,2,3,99,100,101,...}, exact and near-null outpoints alone and planted "
                  "among normal inputs, padded scripts giving stripped/total size 999999/1000000/1000001 with and without witness; "
                  "verdict must-reject/must-accept/don't-care per the two-readings rule; check() must not modify the transaction; "
                  "coinbase => is_coinbase() and bad_solution_count()==0; non-trivial = some field on a boundary or a defect present"),
    SubCheck("check_tx_python_O", subproc.optimized_variant("checks.c20_checktx", "o_check"), strategy=s_check, budget=(600, 10000), nontrivial=nt_check,
             rule="the check_tx cases evaluated in a child interpreter started with PYTHONOPTIMIZE=1 (python -O: assert statements are "
                  "compiled away, so validation written as an assert vanishes; the child asserts that mode)"),
]
