"""C04 - Signature hashes equal the consensus definition for every hash type."""
import struct

from hypothesis import strategies as st

from gen import scriptasm as A
from gen import scripts as G
from oracles import refsighash as R
from vlib.core import SubCheck, Violation

from pycoin.coins.SolutionChecker import ScriptError
from pycoin.symbols.btc import network as BTC
from pycoin.symbols.ltc import network as LTC
from pycoin.symbols.bch import network as BCH
from pycoin.symbols.btg import network as BTG
from pycoin.coins.groestlcoin.Tx import Tx as GRSTx

PROPERTY = "C04"
ASSUMPTIONS = [
    "oracles/refsighash.py: transliteration of Core's SignatureHash (legacy incl. FindAndDelete / code-separator stripping / "
    "SIGHASH_SINGLE 'one') and BIP143, calibrated on the BIP143 worked examples and Core's FindAndDelete unit vectors; through "
    "oracles/refvm.py it also verifies every signature in tx_valid.json",
    "script codes are well-formed (every push complete): a script with a truncated push can never validate, so its digest is unobservable",
    "signature blobs handed to the legacy closure are empty or >= 2 bytes (a 1-byte blob can never reach verification; pycoin and Core "
    "encode its push differently, OP_n vs 0x01 <byte>, which is unobservable through validation)",
]
CONFIGURATIONS = ["BTC Tx", "LTC Tx", "BCH Tx (fork id 0)", "BTG Tx (fork id 79)", "GRS Tx (single SHA256)"]

TX = {"btc": BTC.tx, "ltc": LTC.tx, "bch": BCH.tx, "btg": BTG.tx, "grs": GRSTx}
ONE = int.from_bytes(b"\x01" + b"\0" * 31, "big")


def _tx_dict(case):
    txd = {"version": case["version"], "locktime": case["locktime"],
           "ins": [{"prev_hash": bytes.fromhex(i[0]), "prev_index": i[1], "script": bytes.fromhex(i[2]), "sequence": i[3]}
                   for i in case["ins"]],
           "outs": [{"value": o[0], "script": bytes.fromhex(o[1])} for o in case["outs"]]}
    # many inputs / outputs, described compactly: further ones derived from their position
    for k in range(case.get("more_ins", 0)):
        txd["ins"].append({"prev_hash": R.sha256(b"in%d" % k), "prev_index": k, "script": bytes([0x51 + k % 16]) * (k % 3),
                           "sequence": 0xffffffff - k})
    for k in range(case.get("more_outs", 0)):
        txd["outs"].append({"value": 1000 + k, "script": bytes([0x51 + k % 16])})
    return txd


def _pycoin_tx(T, txd, amounts, only=None):
    ins = [T.TxIn(i["prev_hash"], i["prev_index"], i["script"], i["sequence"]) for i in txd["ins"]]
    # equal outputs / inputs are the SAME object in the lists (txs_out = [out] * n, one `out` variable appended twice): what is
    # hashed depends on positions and values, never on object identity
    shared = {}
    outs = [shared.setdefault((o["value"], o["script"]), T.TxOut(o["value"], o["script"])) for o in txd["outs"]]
    unspents = [T.TxOut(a, b"\x51") for a in amounts]
    if only is not None:
        # only the spent output of the input being hashed is known (a co-signer who knows its own coin, a database with
        # gaps): its digest needs no other amount
        unspents = [u if k == only else None for k, u in enumerate(unspents)]
    return T(txd["version"], ins, outs, txd["locktime"], unspents=unspents)


def _snapshot(tx):
    return (tx.version, tx.lock_time, id(tx.txs_in), id(tx.txs_out), len(tx.txs_in), len(tx.txs_out),
            tuple((id(i), i.previous_hash, i.previous_index, i.script, i.sequence, tuple(i.witness)) for i in tx.txs_in),
            tuple((id(o), o.coin_value, o.script) for o in tx.txs_out),
            tuple(None if o is None else (o.coin_value, o.script) for o in tx.unspents),
            tx.as_bin(include_unspents=True) if all(o is not None for o in tx.unspents) else tx.as_bin())


class _VMStub:
    def __init__(self, script, begin):
        self.script, self.begin_code_hash = script, begin


def o_sighash(case):
    coin = case["coin"]
    T = TX[coin]
    txd = _tx_dict(case)
    n_in = case["n_in"] % len(txd["ins"])
    amount = case["amount"]
    code = A.render(case["code"])
    if case.get("partial") and len(case["code"]) >= 2:
        # some other code in the process has looked at this very script before, from an instruction boundary inside it
        # (a tool listing what follows the first instruction): the digest is a function of the bytes, not of who read them
        try:
            list(BTC.script.get_opcodes(code, pc=len(A.render(case["code"][:1]))))
        except ScriptError:
            pass
    amounts = [(amount if k == n_in else 7 + k) for k in range(len(txd["ins"]))]
    tx = _pycoin_tx(T, txd, amounts, only=n_in if case.get("partial") else None)
    snap = _snapshot(tx)
    sc = T.SolutionChecker(tx)
    labels = ["coin=" + coin, "ins=%d" % min(len(txd["ins"]), 3), "outs=%d" % min(len(txd["outs"]), 3)]
    if n_in >= 253:
        labels.append("input-index>=257" if n_in >= 257 else "input-index=253..256")
    if b"\xab" in code:
        labels.append("has-ab-byte")
    single_oob = n_in >= len(txd["outs"])
    if single_oob:
        labels.append("single-no-output")
    for ht in range(256):
        # ---- legacy entry point
        try:
            got = sc._signature_hash(code, n_in, ht)
        except ScriptError:
            got = "refused"
        if coin in ("btc", "ltc"):
            exp = R.legacy(txd, n_in, code, ht)
        elif coin == "grs":
            exp = R.legacy(txd, n_in, code, ht, R.sha256)
        else:
            exp = R.forkid(txd, n_in, code, amount, ht, 0 if coin == "bch" else 79)
            if exp is None:
                exp = "refused"
        if got != exp:
            raise Violation("sighash:legacy-entry:%s:ht&1f=%d:acp=%d" % (coin if coin in ("bch", "btg", "grs") else "btc", ht & 0x1f if (ht & 0x1f) in (1, 2, 3) else 0, ht >> 7),
                            "%s _signature_hash(code=%s, idx=%d, ht=0x%02x) = %s, reference %s; tx %s" % (
                                coin, code.hex()[:200], n_in, ht, _h(got), _h(exp), _short(case)))
        # ---- BIP143 entry point
        try:
            got = sc._signature_for_hash_type_segwit(code, n_in, ht)
        except ScriptError:
            got = "refused"
        if got == "refused" and coin in ("bch", "btg") and not ht & 0x40:
            continue      # the statement lets fork-id coins refuse hash types without the fork-id bit, at either entry point
        if coin in ("btc", "ltc"):
            exp = R.bip143(txd, n_in, code, amount, ht)
        elif coin == "grs":
            exp = R.bip143(txd, n_in, code, amount, ht, R.sha256)
        elif coin == "bch":
            exp = R.bip143(txd, n_in, code, amount, ht)
        else:
            # BTG: BIP143 preimage with the fork id folded into the trailing hash-type word only
            pre = R.bip143_preimage(txd, n_in, code, amount, ht)
            exp = int.from_bytes(R.sha256d(pre[:-4] + struct.pack("<L", ht | (79 << 8))), "big")
        if got != exp:
            raise Violation("sighash:bip143-entry:%s:ht&1f=%d:acp=%d" % (coin if coin in ("bch", "btg", "grs") else "btc", ht & 0x1f if (ht & 0x1f) in (1, 2, 3) else 0, ht >> 7),
                            "%s _signature_for_hash_type_segwit(code=%s, idx=%d, ht=0x%02x, amount=%d) = %s, reference %s; tx %s" % (
                                coin, code.hex()[:200], n_in, ht, amount, _h(got), _h(exp), _short(case)))
    if _snapshot(tx) != snap:
        raise Violation("sighash:modifies-tx", "transaction changed by signature-hash computation: %s" % _short(case))
    return labels


def _h(v):
    return v if isinstance(v, str) else "%064x" % v


def _short(case):
    return "v=%d lt=%d ins=%d outs=%d n_in=%d" % (case["version"], case["locktime"], len(case["ins"]) + case.get("more_ins", 0),
                                                 len(case["outs"]) + case.get("more_outs", 0), case["n_in"])


def o_closure(case):
    """the function handed to the VM: FindAndDelete of the checked signature blobs, slicing at the last code separator"""
    coin = case["coin"]
    T = TX[coin]
    txd = _tx_dict(case)
    n_in = case["n_in"] % len(txd["ins"])
    script = A.render(case["code"])
    pushes = []
    pc = 0
    seps = [0]
    while pc < len(script):
        r = R.get_op(script, pc)
        assert r is not None
        if r[1] is not None and (len(r[1]) >= 2 or len(r[1]) == 0):
            pushes.append(r[1])
        pc = r[2]
        if r[0] == 0xab:
            seps.append(pc)
    begin = seps[case["sep"] % len(seps)]
    blobs = []
    for b in case["blobs"]:
        if b[0] == "push" and pushes:
            blobs.append(pushes[b[1] % len(pushes)])
        elif b[0] == "other":
            blobs.append(bytes.fromhex(b[1]))
    amounts = [5 + 11 * k for k in range(len(txd["ins"]))]
    tx = _pycoin_tx(T, txd, amounts)
    snap = _snapshot(tx)
    sc = T.SolutionChecker(tx)
    f = sc._make_sighash_f(n_in)
    code = script[begin:]
    removed = 0
    if coin in ("bch", "btg"):
        # fork-id coins: the digest is the BIP143-style one over the script code from the last executed separator,
        # later separators kept.  Only blobs that do not occur in the script are used, so signature removal (on which
        # the fork-id chains' rules differ from Bitcoin's) cannot matter.
        blobs = [b for b in blobs if R.find_and_delete(code, R.push_encoding(b))[1] == 0]
    for b in blobs:
        code, n = R.find_and_delete(code, R.push_encoding(b))
        removed += n
    labels = ["coin=" + coin, "blobs=%d" % len(blobs), "removed" if removed else "nothing-removed", "sep" if begin else "nosep"]
    if b"\xab" in code:
        labels.append("separator-left-in-code")
    for ht in case["hts"]:
        try:
            got = f(ht, list(blobs), _VMStub(script, begin))
        except ScriptError:
            got = "refused"
        if coin in ("bch", "btg"):
            exp = R.forkid(txd, n_in, code, amounts[n_in], ht, 0 if coin == "bch" else 79)
            exp = "refused" if exp is None else exp
            if got != exp:
                raise Violation("sighash:closure:forkid-coin",
                                "%s sighash closure(ht=0x%02x) over script %s from %d = %s, reference fork-id digest %s" % (
                                    coin, ht, script.hex()[:300], begin, _h(got), _h(exp)))
            continue
        exp = R.legacy(txd, n_in, code, ht, R.sha256 if coin == "grs" else R.sha256d)
        if got != exp:
            raise Violation("sighash:closure:find-and-delete" if removed else "sighash:closure",
                            "%s sighash closure(ht=0x%02x, blobs=%s) over script %s from %d = %s, reference %s" % (
                                coin, ht, [b.hex()[:20] for b in blobs], script.hex()[:300], begin, _h(got), _h(exp)))
    # the closure handed to the VM for witness v0 scripts: BIP143-style digest of the script from `begin`, nothing removed
    wf = sc._make_witness_sighash_f(n_in)
    wcode = script[begin:]
    for ht in case["hts"]:
        try:
            got = wf(ht, list(blobs), _VMStub(script, begin))
        except ScriptError:
            got = "refused"
        if got == "refused" and coin in ("bch", "btg") and not ht & 0x40:
            continue
        exp = _expected(coin, txd, n_in, wcode, amounts[n_in], ht, 1)
        if got != exp:
            raise Violation("sighash:witness-closure", "%s witness sighash closure(ht=0x%02x) over script %s from %d = %s, reference %s" % (
                coin, ht, script.hex()[:300], begin, _h(got), _h(exp)))
    if _snapshot(tx) != snap:
        raise Violation("sighash:modifies-tx", "transaction changed by signature-hash computation")
    return labels


def _expected(coin, txd, n_in, code, amount, ht, entry):
    if entry == 0:
        if coin in ("btc", "ltc"):
            return R.legacy(txd, n_in, code, ht)
        if coin == "grs":
            return R.legacy(txd, n_in, code, ht, R.sha256)
        e = R.forkid(txd, n_in, code, amount, ht, 0 if coin == "bch" else 79)
        return "refused" if e is None else e
    if coin in ("btc", "ltc", "bch"):
        return R.bip143(txd, n_in, code, amount, ht)
    if coin == "grs":
        return R.bip143(txd, n_in, code, amount, ht, R.sha256)
    pre = R.bip143_preimage(txd, n_in, code, amount, ht)
    return int.from_bytes(R.sha256d(pre[:-4] + struct.pack("<L", ht | (79 << 8))), "big")


def o_history(case):
    """one SolutionChecker serving many (input, hash type) queries (as the Solver uses it); when the transaction is edited
    a new checker is made for the same Tx object (the statement speaks of transactions, not of checkers that outlive an
    edit), so what is tested across edits is state kept on the Tx or at module level"""
    coin = case["coin"]
    T = TX[coin]
    txd = _tx_dict(case)
    code = A.render(case["code"])
    amounts = [case["amount"] + 3 * k for k in range(len(txd["ins"]))]
    amounts = [a & (2**64 - 1) for a in amounts]
    tx = _pycoin_tx(T, txd, amounts)
    sc = T.SolutionChecker(tx)
    labels = ["coin=" + coin]
    seen_idx = set()
    nq = 0
    for op in case["ops"]:
        if op[0] == "q":
            idx = op[1] % len(txd["ins"])
            ht, entry = op[2], op[3]
            seen_idx.add(idx)
            nq += 1
            snap = _snapshot(tx)
            try:
                got = sc._signature_hash(code, idx, ht) if entry == 0 else sc._signature_for_hash_type_segwit(code, idx, ht)
            except ScriptError:
                got = "refused"
            exp = _expected(coin, txd, idx, code, amounts[idx], ht, entry)
            if got != exp:
                raise Violation("sighash:history:%s-entry:%s" % ("legacy" if entry == 0 else "bip143", coin if coin in ("bch", "btg", "grs") else "btc"),
                                "query #%d on a long-lived checker: %s %s(idx=%d, ht=0x%02x) = %s, reference %s; ops so far %s" % (
                                    nq, coin, "_signature_hash" if entry == 0 else "_signature_for_hash_type_segwit", idx, ht, _h(got), _h(exp), case["ops"][:case["ops"].index(op) + 1]))
            if _snapshot(tx) != snap:
                raise Violation("sighash:modifies-tx", "transaction changed by signature-hash computation")
        elif op[0] == "out-value" and txd["outs"]:
            k = op[1] % len(txd["outs"])
            # an object that stands at several positions is edited at all of them (that is what editing it in place means)
            for j, o in enumerate(tx.txs_out):
                if o is tx.txs_out[k]:
                    txd["outs"][j]["value"] = op[2]
            tx.txs_out[k].coin_value = op[2]
            sc = T.SolutionChecker(tx)
            labels.append("mutated")
        elif op[0] == "sequence":
            k = op[1] % len(txd["ins"])
            txd["ins"][k]["sequence"] = op[2]
            tx.txs_in[k].sequence = op[2]
            sc = T.SolutionChecker(tx)
            labels.append("mutated")
        elif op[0] == "locktime":
            txd["locktime"] = op[1]
            tx.lock_time = op[1]
            sc = T.SolutionChecker(tx)
            labels.append("mutated")
    labels.append("idx-distinct=%d" % min(3, len(seen_idx)))
    return sorted(set(labels))


# ------------------------------------------------------------------------------------------ strategies

# ------------------------------------------------------------------ digests as script execution uses them

def o_executed(case):
    """the digest that reaches signature verification while a spend is validated: generator.verify is wrapped for the
    duration of the call and every (digest, r, s) it receives is compared with the digest the reference interpreter
    computes when it checks that same signature"""
    from oracles import refvm as V
    sp = A.assemble_spend(case)
    tx0, n_in, amount = sp["tx"], sp["n_in"], sp["amount"]
    checker = V.TxChecker(tx0, n_in, amount)
    verdict, err, ctx = V.run_verify(sp["script_sig"], sp["spk"], sp["witness"], case["flags"], checker)
    T = TX[case.get("coin", "btc")]
    txs_in = []
    for i in tx0["ins"]:
        ti = T.TxIn(i["prev_hash"], i["prev_index"], i["script"], i["sequence"])
        ti.witness = list(i.get("witness") or [])
        txs_in.append(ti)
    tx = T(tx0["version"], txs_in, [T.TxOut(o["value"], o["script"]) for o in tx0["outs"]], tx0["locktime"],
           unspents=[T.TxOut(amount if k == n_in else 0, sp["spk"] if k == n_in else b"\x51") for k in range(len(txs_in))])
    if case.get("via_copy"):
        # the transaction under validation is a copy of an object that was validated before with another version number:
        # the digest is that of the object being checked, not of the one it was copied from
        import copy
        tx.version ^= 1
        try:
            tx.check_solution(n_in, flags=case["flags"])
        except ScriptError:
            pass
        tx = copy.copy(tx)
        tx.version = tx0["version"]
    g = BTC.generator
    N = g.order()
    calls = []
    real = type(g).verify

    def spy(public_pair, val, sig):
        calls.append((val, sig[0], sig[1]))
        return real(g, public_pair, val, sig)
    g.verify = spy
    try:
        try:
            tx.check_solution(n_in, flags=case["flags"])
        except ScriptError:
            pass
    finally:
        del g.verify
    ref = {}
    for r, s, ht, z in checker.sig_checks:
        ref.setdefault((r, s), set()).add(z)
    compared = 0
    for z, r, s in calls:
        exp = ref.get((r, min(s, N - s)))
        if exp is None:
            continue        # a (signature, key) pairing the reference interpreter did not need to try
        compared += 1
        if z not in exp:
            raise Violation("sighash:executed-digest",
                            "while validating scriptSig=%s scriptPubKey=%s witness=%s flags=0x%x (%s), signature r=%x.. was verified "
                            "against digest %064x; the reference interpreter computes %s for it" % (
                                sp["script_sig"].hex()[:200], sp["spk"].hex()[:200], [w.hex()[:60] for w in sp["witness"]], case["flags"],
                                _short_tx(tx0, n_in), r >> 200, z, sorted("%064x" % e if e is not None else "none" for e in exp)))
    labels = ["shape=" + case["shape"], "compared=%d" % min(compared, 4), "ref=" + str(verdict)] + (["via-copy"] if case.get("via_copy") else [])
    if compared >= 2 and len({z for z, _r, _s in calls}) >= 2:
        labels.append("distinct-digests")
    if V.OP_CODESEPARATOR in ctx.executed:
        labels.append("codesep")
    if any(t[0] == "sig" for t in case["lock"]):
        labels.append("embedded-sig")
    return labels


def _short_tx(tx0, n_in):
    return "version=%d locktime=%d n_in=%d/%d outs=%d" % (tx0["version"], tx0["locktime"], n_in, len(tx0["ins"]), len(tx0["outs"]))


def s_executed():
    from gen.common import weighted
    OPC, OPD, OPS, OP1 = ["op", 0xac], ["op", 0x75], ["op", 0xab], ["n", 1, "opn"]

    def multi(items, ctx, flags, shape):
        # several CHECKSIG DROP statements in one script: each signature comes from the unlocking side or is pushed by the
        # lock itself (legacy FindAndDelete removes it from the hashed code), optionally after a further code separator
        lock, stack_sigs, cs = [], [], 0
        for k, ht, src, var, sep in items:
            if sep:
                lock.append(OPS)
                cs += 1
            tok = ["sig", k, ht, var, cs]
            if src == "emb":
                lock.append(tok)
            else:
                stack_sigs.append(tok)
            lock += [["key", k, "c"], OPC, OPD]
        lock.append(OP1)
        return dict(ctx, kind="spend", shape=shape, lock=lock, unlock=stack_sigs[::-1], flags=flags, mut=[])
    ht = st.sampled_from([1, 1, 1, 2, 3, 0x81, 0x83])
    item = st.tuples(st.integers(0, 5), ht, st.sampled_from(["stack", "stack", "emb"]), st.sampled_from(["ok", "ok", "wrongmsg"]),
                     st.sampled_from([False, False, False, True]))
    flags = st.one_of(st.sampled_from([0, G.V.P2SH, G.V.P2SH | G.V.WITNESS, G.CONSENSUS]), G.flagsets())
    shapes = st.sampled_from(["bare", "bare", "p2sh", "p2wsh", "p2sh-p2wsh"])
    m = st.builds(multi, st.lists(item, min_size=2, max_size=4), G.contexts(), flags, shapes)
    templ = st.builds(lambda lu, ctx, fl, shape: dict(ctx, kind="spend", shape=shape, lock=lu[0], unlock=lu[1], flags=fl, mut=[]),
                      G.lock_templates(), G.contexts(), flags, shapes)
    coin = st.sampled_from(["btc", "btc", "ltc"])
    return st.builds(lambda c, coin, vc: dict(c, coin=coin, via_copy=vc), weighted((3, m), (1, templ)), coin, st.sampled_from([0, 0, 1]))


def _wellformed_codes():
    # script codes from the C03 grammar without raw / truncated material
    def clean(tokens):
        out = []
        for t in tokens:
            if t[0] in ("raw", "ctxnum"):
                continue
            if t[0] == "rep":
                out.append(["rep", clean(t[1]), min(t[2], 20)])
            elif t[0] == "d" and len(t[1]) > 600:
                out.append(["d", t[1][:600], t[2]])
            else:
                out.append(t)
        return out
    seps = st.lists(st.sampled_from([[["op", 0xab]], [["op", 0xab], ["op", 0xab]], [["d", "ab", "direct"]], [["d", "abab", "min"]]]), max_size=2)
    base = st.one_of(G.stmt_list(1), G.stmt_list(2), st.just([]),
                     st.just([["op", 0x76], ["op", 0xa9], ["d", "11" * 20, "min"], ["op", 0x88], ["op", 0xac]]))
    grammar = st.builds(lambda a, s1, b, s2: clean(a + [t for s in s1 for t in s] + b + [t for s in s2 for t in s]),
                        base, seps, base, seps)
    # script codes that are byte-for-byte a standard output script or witness program (the digest commits to whatever
    # bytes it is given; nothing may be recognised and rewritten), with any 20 / 32 byte payload
    def std(kind, h):
        h20, h32 = (h * 2)[:40], (h * 4)[:64]
        return {"p2pkh": [["raw", "76a914" + h20 + "88ac"]], "p2sh": [["raw", "a914" + h20 + "87"]], "p2wpkh": [["raw", "0014" + h20]],
                "p2wsh": [["raw", "0020" + h32]], "p2tr": [["raw", "5120" + h32]], "v1-20": [["raw", "5114" + h20]],
                "p2pk": [["raw", "21" + "02" + h32 + "ac"]], "nulldata": [["raw", "6a14" + h20]],
                "msig": [["raw", "5121" + "02" + h32 + "21" + "03" + h32 + "52ae"]], "0-21": [["raw", "0015" + h20 + "00"]]}[kind]
    standard = st.builds(std, st.sampled_from(["p2pkh", "p2sh", "p2wpkh", "p2wpkh", "p2wsh", "p2tr", "v1-20", "p2pk", "nulldata", "msig", "0-21"]),
                         st.binary(min_size=20, max_size=20).map(bytes.hex))
    # pushes whose PUSHDATA length field contains the byte of an opcode the digest cares about (171 = 0xab bytes:
    # "4c ab ..."; 427: "4d ab 01 ..."), with and without that byte in the payload, between optional real separators
    def lenbyte(n, fill, s1, s2, tail):
        return [t for s in s1 for t in s] + [["d", fill * n, "min"]] + [t for s in s2 for t in s] + ([["op", 0xac]] if tail else [])
    lenbytes = st.builds(lenbyte, st.sampled_from([171, 171, 427, 171 + 512, 0xab00, 0xabab, 170, 172, 0xac, 0xac + 256]),
                         st.sampled_from(["11", "11", "00", "ab", "ac"]), seps, seps, st.booleans())
    from gen.common import weighted
    return weighted((12, grammar), (2, standard), (1, lenbytes))


def _txs():
    h32 = st.one_of(st.binary(min_size=32, max_size=32).map(bytes.hex), st.sampled_from(["00" * 32, "ff" * 32]))
    u32 = st.one_of(st.sampled_from([0, 1, 2, 0xffffffff, 0xfffffffe, 0x80000000, 500000000]), st.integers(0, 0xffffffff))
    script = st.one_of(st.binary(max_size=80), st.sampled_from([b"", b"\x51", b"\xab" * 3])).map(bytes.hex)
    value = st.one_of(st.sampled_from([0, 1, 2**63 - 1, 2**63, 2**64 - 1, 21 * 10**14]), st.integers(0, 2**64 - 1))
    tin = st.tuples(h32, u32, script, u32).map(list)
    tout = st.tuples(value, script).map(list)
    from gen.common import weighted
    def with_repeats(outs, picks):
        # some outputs repeat an earlier one exactly (a transaction paying the same output several times)
        outs = list(outs)
        for a, b in picks:
            if len(outs) >= 2:
                outs[b % len(outs)] = outs[a % len(outs)]
        return outs
    outs_s = st.builds(with_repeats, st.lists(tout, min_size=0, max_size=6),
                       st.one_of(st.just([]), st.just([]), st.lists(st.tuples(st.integers(0, 5), st.integers(0, 5)), min_size=1, max_size=3)))
    small = st.fixed_dictionaries({"version": u32, "locktime": u32, "ins": st.lists(tin, min_size=1, max_size=6),
                                   "outs": outs_s, "n_in": st.integers(0, 5),
                                   "amount": value})
    # input / output counts and input indices around 253 (compact-size escape), 256 / 257 (one byte; CPython's shared
    # small integers end at 256) and beyond
    counts = st.sampled_from([247, 251, 252, 253, 254, 255, 256, 257, 258, 260, 300, 300, 520])
    many = st.builds(lambda c, mi, mo, n_in: dict(c, more_ins=mi, more_outs=mo, n_in=n_in), small, counts,
                     st.one_of(st.just(0), counts), st.one_of(st.sampled_from([251, 252, 253, 255, 256, 257, 258, 259, 299]), st.integers(0, 600)))
    return weighted((11, small), (1, many))


def s_sighash():
    return st.builds(lambda tx, code, coin, partial: dict(tx, code=code, coin=coin, partial=partial), _txs(), _wellformed_codes(),
                     st.sampled_from(["btc", "btc", "ltc", "bch", "btg", "grs"]), st.sampled_from([0, 0, 1]))


def s_closure():
    blob = st.one_of(st.tuples(st.just("push"), st.integers(0, 30)).map(list),
                     st.tuples(st.just("other"), st.sampled_from(["", "3006020101020101" + "01", "abab", "0000"])).map(list))
    return st.builds(lambda tx, code, coin, blobs, sep, hts: dict(tx, code=code, coin=coin, blobs=blobs, sep=sep, hts=hts),
                     _txs(), _wellformed_codes(), st.sampled_from(["btc", "btc", "ltc", "grs", "bch", "btg"]),
                     st.lists(blob, min_size=0, max_size=3), st.integers(0, 3),
                     st.lists(st.one_of(st.sampled_from([1, 2, 3, 0x81, 0x82, 0x83, 0, 0x41, 0x42, 0x43, 0xc1, 0xc3]), st.integers(0, 255)), min_size=1, max_size=4))


def s_history():
    u32 = st.sampled_from([0, 1, 0xffffffff, 0xfffffffe, 77])
    ht = st.one_of(st.sampled_from([1, 2, 3, 0x81, 0x82, 0x83, 0x41, 0x42, 0x43, 0xc1, 0xc2, 0xc3]), st.integers(0, 255))
    q = st.tuples(st.just("q"), st.integers(0, 5), ht, st.sampled_from([0, 1, 1])).map(list)
    mut = st.one_of(st.tuples(st.just("out-value"), st.integers(0, 5), st.integers(0, 10**9)).map(list),
                    st.tuples(st.just("sequence"), st.integers(0, 5), u32).map(list),
                    st.tuples(st.just("locktime"), u32).map(list))
    from gen.common import weighted
    ops = st.lists(weighted((5, q), (1, mut)), min_size=2, max_size=14)
    return st.builds(lambda tx, code, coin, ops: dict(tx, code=code, coin=coin, ops=ops), _txs(), _wellformed_codes(),
                     st.sampled_from(["btc", "btc", "ltc", "bch", "btg", "grs"]), ops)


def nt(case, labels):
    return (len(case["ins"]) >= 2 and len(case["outs"]) >= 2) or "has-ab-byte" in labels or "removed" in labels or "sep" in labels


SUBCHECKS = [
    SubCheck("checker_history", o_history, strategy=s_history, budget=(3000, 300000),
             nontrivial=lambda c, l: "idx-distinct=1" not in l,
             rule="histories on one Tx object: 2-14 operations, each a digest query (input index, hash type, legacy or BIP143 entry point) through one SolutionChecker, or an edit of the transaction (an output value, a sequence number, the lock time) after which a new checker is made for the same Tx; every answer must equal the reference digest of the transaction as it is at that moment; non-trivial = queries for >= 2 distinct input indices",
             ),
    SubCheck("digests_all_hashtypes", o_sighash, strategy=s_sighash, budget=(480, 30000), nontrivial=nt,
             rule="generated transaction (1-6 inputs, 0-6 outputs, full-range fields) x well-formed script code (grammar incl. code separators and 0xab data bytes) x coin class; for EVERY hash type 0-255 both _signature_hash and _signature_for_hash_type_segwit equal the reference (fork-id coins: ScriptError iff FORKID bit clear); tx snapshot unchanged; non-trivial = >=2 inputs and >=2 outputs, or code containing a 0xab byte"),
    SubCheck("legacy_closure", o_closure, strategy=s_closure, budget=(2500, 200000), nontrivial=nt,
             rule="the sighash function handed to the VM (BTC/LTC/GRS legacy digest; BCH/BTG fork-id digest with later code separators kept): script sliced at a generated code-separator position, generated signature blobs (pushes present in the script, in any encoding, and absent ones) removed as consensus FindAndDelete does, digest equals the reference; non-trivial as above or a blob was actually removed"),
]

SUBCHECKS.append(
    SubCheck("executed_digests", o_executed, strategy=s_executed, budget=(2500, 150000),
             nontrivial=lambda c, l: "distinct-digests" in l,
             rule="spends (bare / P2SH / P2WSH / P2SH-P2WSH; BTC and LTC) whose script runs 2-4 CHECKSIG operations with signatures "
                  "supplied by the unlocking side or pushed by the script itself, equal and different hash types, code separators in "
                  "between, plus the signature-bearing lock templates of C03; generator.verify is wrapped while check_solution runs and "
                  "every digest it receives must be the one the reference interpreter computes for that signature at that operation; "
                  "non-trivial = at least two signatures compared and at least two distinct digests"))

FUZZ = {"legacy_closure": 20000, "checker_history": 20000}
