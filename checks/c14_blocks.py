"""C14 - Blocks round-trip, ids and merkle roots follow the Bitcoin definition; BIP37 merkleblock proofs."""
import hashlib
import io

from hypothesis import strategies as st

from gen.common import boundary_ints, weighted
from oracles import refmerkle as ref
from vlib.core import SubCheck, Violation

from pycoin.block import BadMerkleRootError
from pycoin.merkle import merkle, merkle_pair
from pycoin.encoding.hash import double_sha256
from pycoin.symbols.btc import network as BTC
from pycoin.symbols.ltc import network as LTC

from gen import subproc

PROPERTY = "C14"
ASSUMPTIONS = ["oracles/refmerkle.py (merkle root, Core's CPartialMerkleTree builder/verifier, struct serialisers; calibrated on the "
               "genesis block, blocks 71043/71038, the developer-reference merkleblock example, builder-verifier identity <= 64 leaves)",
               "hashlib SHA256", "transactions in a block are pairwise distinct (no CVE-2012-2459 duplicate-tail blocks)",
               "flag-bit flips and an altered transaction count are not asserted refused (BIP37 permits / does not bind them)"]
CONFIGURATIONS = ["BTC block class (pycoin.block.BTC_Block + bitcoin Tx)", "LTC block class (LTCBlock + LTCTx)",
                  "legacy and BIP144 (marker/flag 00 01) transactions inside blocks"]
UNEXPLORED = ["LTC MWEB transactions (flag 0x08)", "blocks above 120 transactions", "merkleblock proofs above 300 transactions"]

NETS = {"btc": BTC, "ltc": LTC}


def _bad(b, m):
    raise Violation(b, m)


def _stream(seed, tag, n):
    out = b""
    c = 0
    while len(out) < n:
        out += hashlib.sha256(("%s/%s/%d" % (seed, tag, c)).encode()).digest()
        c += 1
    return out[:n]


def _u32(seed, tag):
    return int.from_bytes(_stream(seed, tag, 4), "little")


def expand_tx(spec, pos):
    """spec = [seed, n_in, n_out, script_len, segwit]; -> dict(version, ins, outs, lock_time, witnesses)"""
    seed, nin, nout, slen, sw = spec
    sd = "%d.%d" % (seed, pos)
    ins = []
    for i in range(nin):
        seq = [0xffffffff, 0xfffffffe, 0, _u32(sd, "q%d" % i)][_u32(sd, "qs%d" % i) % 4]
        idx = [0, 1, _u32(sd, "i%d" % i) % 300, _u32(sd, "i%d" % i)][_u32(sd, "is%d" % i) % 4]
        ins.append((_stream(sd, "ph%d" % i, 32), idx, _stream(sd, "ss%d" % i, (slen * (i + 1)) % 300), seq))
    if pos == 0 and seed % 2 == 0:
        # the first transaction of a real block is a coinbase: null previous hash, usually (not always) index 2^32-1, and
        # whatever sequence number the miner chose - all of it is part of the transaction id
        h, idx, scr, seq = ins[0]
        ins[0] = (b"\0" * 32, [0xffffffff, 0xffffffff, idx][_u32(sd, "cbi") % 3], scr or b"\x03\x01\x02\x03", seq)
    outs = []
    for i in range(nout):
        val = int.from_bytes(_stream(sd, "v%d" % i, 8), "little") % (21 * 10 ** 14 + 1)
        outs.append((val, _stream(sd, "ps%d" % i, (slen + 7 * i) % 260)))
    wit = None
    if sw:
        wit = []
        for i in range(nin):
            cnt = _u32(sd, "wc%d" % i) % 3
            wit.append([_stream(sd, "w%d.%d" % (i, j), _u32(sd, "wl%d.%d" % (i, j)) % 80) for j in range(cnt)])
        if not any(wit):
            wit[0] = [_stream(sd, "w", 1 + slen % 70)]
    if slen >= 106:
        # what real blocks contain since inscriptions: a witness item / an output script well above 10 000 bytes (consensus
        # limits executed scripts, not what a transaction may carry)
        big = 10001 + _u32(sd, "big") % 9000
        if wit is not None:
            wit[0] = wit[0] + [_stream(sd, "bigw", big)]
        elif outs:
            outs[0] = (outs[0][0], _stream(sd, "bigs", big))
    return dict(version=[1, 2, _u32(sd, "ver")][_u32(sd, "vs") % 3], ins=ins, outs=outs,
                lock_time=[0, _u32(sd, "lt")][_u32(sd, "lts") % 2], witnesses=wit)


def ser(tx):
    return ref.ser_tx(tx["version"], tx["ins"], tx["outs"], tx["lock_time"], tx["witnesses"])


def tid(tx):
    return ref.txid(tx["version"], tx["ins"], tx["outs"], tx["lock_time"])


def header_bytes(hv, root):
    return ref.ser_header(hv[0], bytes.fromhex(hv[1]), root, hv[2], hv[3], hv[4])


# ------------------------------------------------------------------ headers


def o_header(case):
    net = NETS[case["net"]]
    Block = net.block
    prev, root = bytes.fromhex(case["prev"]), bytes.fromhex(case["root"])
    raw = ref.ser_header(case["version"], prev, root, case["time"], case["bits"], case["nonce"])
    want_id = ref.header_id(raw)
    b = Block.parse_as_header(io.BytesIO(raw))
    got = (b.version, b.previous_block_hash, b.merkle_root, b.timestamp, b.difficulty, b.nonce)
    want = (case["version"], prev, root, case["time"], case["bits"], case["nonce"])
    if got != want:
        _bad("header:parsed-fields", "parse_as_header(%s) fields %r, expected %r" % (raw.hex(), got, want))
    if b.as_bin() != raw:
        _bad("header:roundtrip", "parse_as_header(%s).as_bin() = %s" % (raw.hex(), b.as_bin().hex()))
    f = io.BytesIO()
    b.stream_header(f)
    if f.getvalue() != raw:
        _bad("header:stream_header", "stream_header gives %s for %s" % (f.getvalue().hex(), raw.hex()))
    if b.id() != want_id or b.hash() != ref.header_hash(raw):
        _bad("header:id", "id() = %s, reversed SHA256d of the 80 bytes = %s" % (b.id(), want_id))
    if b.previous_block_id() != prev[::-1].hex():
        _bad("header:previous_block_id", "previous_block_id() = %s" % b.previous_block_id())
    c = Block(*want)
    if c.as_bin() != raw or c.id() != want_id:
        _bad("header:constructed", "Block(fields).as_bin()/id() differ from the reference for %s" % raw.hex())
    b2 = Block.parse(io.BytesIO(raw + b"\x05trailing"), include_transactions=False)
    if b2.as_bin() != raw or b2.id() != want_id:
        _bad("header:parse-without-transactions", "Block.parse(include_transactions=False) of %s" % raw.hex())
    return ["net=" + case["net"], "version-high-bit" if case["version"] >> 31 else "version-low"]


def o_header_history(case):
    """one long-lived header object: id / hash / serialisation queries interleaved with set_nonce(); the id is always the
    double-SHA256 of the 80 bytes the object serialises to at that moment"""
    net = NETS[case["net"]]
    Block = net.block
    prev, root = bytes.fromhex(case["prev"]), bytes.fromhex(case["root"])
    nonce = case["nonce"]
    b = Block(case["version"], prev, root, case["time"], case["bits"], nonce)
    labels, asked, changed_after_ask = ["net=" + case["net"]], False, False
    fields = {"version": case["version"], "timestamp": case["time"], "difficulty": case["bits"]}
    for step, op in enumerate(case["ops"]):
        raw = ref.ser_header(fields["version"], prev, root, fields["timestamp"], fields["difficulty"], nonce)
        if op[0] == "set":
            # the header fields are plain public attributes: a miner rolls the timestamp, a template gets its merkle root late
            if op[1] == "merkle_root":
                root = bytes([op[2] % 256]) * 32
                b.merkle_root = root
            elif op[1] == "previous_block_hash":
                prev = bytes([op[2] % 256]) * 32
                b.previous_block_hash = prev
            elif op[1] == "nonce":
                nonce = op[2]
                b.nonce = nonce
            else:
                fields[op[1]] = op[2]
                setattr(b, op[1], op[2])
            if asked:
                changed_after_ask = True
                labels.append("field-assigned-after-query")
            continue
        if op[0] == "nonce":
            nonce = op[1]
            b.set_nonce(nonce)
            if asked:
                changed_after_ask = True
            continue
        if op[0] == "id":
            got, want = b.id(), ref.header_id(raw)
        elif op[0] == "hash":
            got, want = b.hash(), ref.header_hash(raw)
        elif op[0] == "str":
            str(b), repr(b)
            continue
        else:
            got, want = b.as_bin(), raw
        asked = True
        if got != want:
            _bad("header:history:%s-stale-or-wrong" % op[0], "step %d of %s: %s() = %s, expected %s for nonce %d" % (
                step, case["ops"], op[0], got.hex() if isinstance(got, bytes) else got, want.hex() if isinstance(want, bytes) else want, nonce))
        if changed_after_ask:
            labels.append("query-after-set_nonce-after-query")
    return sorted(set(labels))


def s_header_history():
    from gen.common import weighted
    u32 = boundary_ints(0, 2 ** 32 - 1)
    op = weighted((3, st.just(["id"])), (2, st.just(["hash"])), (1, st.just(["as_bin"])), (1, st.just(["str"])),
                  (3, st.tuples(st.just("nonce"), u32).map(list)),
                  (3, st.tuples(st.just("set"), st.sampled_from(["timestamp", "timestamp", "merkle_root", "version", "difficulty",
                                                                  "previous_block_hash", "nonce"]), u32).map(list)))
    return st.builds(lambda h, ops: dict(h, ops=ops), s_header(), st.lists(op, min_size=3, max_size=9))


def s_header():
    u32 = boundary_ints(0, 2 ** 32 - 1)
    h32 = st.one_of(st.binary(min_size=32, max_size=32),
                    st.builds(lambda a, k, b: bytes([a]) * k + bytes([b]) * (32 - k), st.integers(0, 255), st.integers(0, 32),
                              st.integers(0, 255))).map(bytes.hex)
    return st.fixed_dictionaries({"net": st.sampled_from(["btc", "ltc"]), "version": u32, "prev": h32, "root": h32,
                                  "time": u32, "bits": u32, "nonce": u32})


# ------------------------------------------------------------------ blocks

ALTERATIONS = ["root", "field", "swap", "drop", "extra"]
FIELDS = ["version", "lock_time", "value", "sequence", "prev_index", "prev_hash", "script_sig", "script_pubkey"]


def _alter_tx(tx, which, a):
    tx = dict(tx, ins=list(tx["ins"]), outs=list(tx["outs"]))
    f = FIELDS[which % len(FIELDS)]
    if f == "script_sig" and not any(i[2] for i in tx["ins"]):
        f = "sequence"
    if f == "script_pubkey" and not any(o[1] for o in tx["outs"]):
        f = "value"
    if f == "version":
        tx["version"] ^= 1 << (a % 32)
    elif f == "lock_time":
        tx["lock_time"] ^= 1 << (a % 32)
    elif f == "value":
        j = a % len(tx["outs"])
        v, s = tx["outs"][j]
        tx["outs"][j] = (v ^ (1 << (a % 50)), s)
    elif f == "script_pubkey":
        js = [j for j, o in enumerate(tx["outs"]) if o[1]]
        j = js[a % len(js)]
        v, s = tx["outs"][j]
        p = a % len(s)
        tx["outs"][j] = (v, s[:p] + bytes([s[p] ^ (1 + a % 255)]) + s[p + 1:])
    else:
        if f == "script_sig":
            js = [j for j, i in enumerate(tx["ins"]) if i[2]]
            j = js[a % len(js)]
        else:
            j = a % len(tx["ins"])
        h, i, s, q = tx["ins"][j]
        if f == "sequence":
            q ^= 1 << (a % 32)
        elif f == "prev_index":
            i ^= 1 << (a % 32)
        elif f == "prev_hash":
            p = a % 32
            h = h[:p] + bytes([h[p] ^ (1 + a % 255)]) + h[p + 1:]
        else:
            p = a % len(s)
            s = s[:p] + bytes([s[p] ^ (1 + a % 255)]) + s[p + 1:]
        tx["ins"][j] = (h, i, s, q)
    return tx, f


class _ForwardOnly:
    """a binary stream offering read() only"""

    def __init__(self, data):
        self._f = io.BytesIO(data)

    def read(self, n=-1):
        return self._f.read(n)

    def seekable(self):
        return False

    def seek(self, *a):
        raise io.UnsupportedOperation("seek")

    def tell(self):
        raise io.UnsupportedOperation("tell")


def o_block(case):
    net = NETS[case["net"]]
    Block = net.block
    txs = [expand_tx(spec, i) for i, spec in enumerate(case["txs"])]
    n = len(txs)
    tids = [tid(t) for t in txs]
    assert len(set(tids)) == n
    root = ref.merkle_root(tids)
    hdr = header_bytes(case["header"], root)
    raw = ref.ser_block(hdr, [ser(t) for t in txs])
    labels = ["net=" + case["net"], "n=%s" % (n if n <= 5 else "6-16" if n <= 16 else "17-33" if n <= 33 else "34+"),
              "has-segwit-tx" if any(t["witnesses"] is not None for t in txs) else "legacy-only"]
    alt = case.get("alter")
    if alt is None:
        try:
            b = Block.from_bin(raw)
        except BadMerkleRootError as ex:
            _bad("block:honest-block-refused", "%s block of %d transactions whose header carries the reference merkle root: %s" % (
                case["net"], n, ex))
        if b.as_bin() != raw:
            _bad("block:roundtrip", "from_bin(b).as_bin() != b for a %d-transaction %s block (%d bytes)" % (n, case["net"], len(raw)))
        if b.id() != ref.header_id(hdr):
            _bad("block:id", "id() %s, reference %s" % (b.id(), ref.header_id(hdr)))
        if len(b.txs) != n or [t.hash() for t in b.txs] != tids:
            _bad("block:tx-hashes", "parsed transaction hashes differ from the reference txids (n=%d)" % n)
        if b.merkle_root != root:
            _bad("block:merkle-field", "merkle_root field differs")
        b.check_merkle_hash()
        hb = b.as_blockheader()
        if hb.as_bin() != hdr:
            _bad("block:as_blockheader", "as_blockheader().as_bin() != the 80 header bytes")
        packed = net.message.pack("block", block=b)
        if packed != raw:
            _bad("block:message-pack", "message.pack('block') differs from the block bytes")
        # other coins' networks live in the same process and may have parsed this message type before this one did
        for other in NETS.values():
            if other is not net:
                try:
                    other.message.parse("block", raw)
                except Exception:       # noqa - what another coin makes of these bytes is not under test
                    pass
        b3 = net.message.parse("block", raw)["block"]
        if b3.as_bin() != raw:
            _bad("block:message-parse", "message.parse('block') does not round trip")
        if type(b3) is not Block or any(type(t) is not Block.Tx for t in b3.txs):
            _bad("block:message-parse:class-of-another-coin", "%s.message.parse('block') returned a %s holding %s objects, this network's classes "
                 "are %s / %s" % (case["net"], type(b3).__name__, sorted({type(t).__name__ for t in b3.txs}), Block.__name__, Block.Tx.__name__))
        # the same block read from a stream that only goes forward (a socket file, a pipe), two blocks back to back
        fwd = _ForwardOnly(raw + raw)
        for k in range(2):
            if Block.parse(fwd).as_bin() != raw:
                _bad("block:parse-forward-only-stream", "block %d parsed from a forward-only stream does not re-serialise to its bytes" % k)
        return labels + ["honest"]
    kind, a, c = alt
    blobs = [ser(t) for t in txs]
    if kind in ("swap", "drop") and n < 2:
        kind = "field"
    if kind == "root":
        p = a % 32
        hdr2 = hdr[:36 + p] + bytes([hdr[36 + p] ^ (1 + c % 255)]) + hdr[37 + p:]
        bad_raw = ref.ser_block(hdr2, blobs)
        what = "header root byte %d altered" % p
    elif kind == "field":
        j = a % n
        t2, f = _alter_tx(txs[j], c, a // n)
        assert tid(t2) != tids[j]
        blobs[j] = ser(t2)
        bad_raw = ref.ser_block(hdr, blobs)
        what = "transaction %d of %d: %s altered" % (j, n, f)
        labels.append("field=" + f)
    elif kind == "swap":
        i = a % n
        j = (i + 1 + c % (n - 1)) % n
        blobs[i], blobs[j] = blobs[j], blobs[i]
        bad_raw = ref.ser_block(hdr, blobs)
        what = "transactions %d and %d of %d swapped" % (i, j, n)
    elif kind == "drop":
        j = a % n
        del blobs[j]
        bad_raw = ref.ser_block(hdr, blobs)
        what = "transaction %d of %d removed" % (j, n)
    else:
        extra = expand_tx([a, 1, 1, c % 40, 0], n + 1000)
        j = c % (n + 1)
        blobs.insert(j, ser(extra))
        bad_raw = ref.ser_block(hdr, blobs)
        what = "a foreign transaction inserted at %d of %d" % (j, n)
    assert bad_raw != raw
    try:
        b = Block.from_bin(bad_raw)
    except BadMerkleRootError:
        b = None
    if b is not None:
        _bad("block:altered-accepted", "%s block, %s: Block.from_bin returned a block instead of raising BadMerkleRootError" % (
            case["net"], what))
    lax = Block.parse(io.BytesIO(bad_raw), check_merkle_hash=False)
    if lax.as_bin() != bad_raw:
        _bad("block:roundtrip", "unchecked parse of the altered block does not round trip")
    try:
        lax.check_merkle_hash()
        ok = True
    except BadMerkleRootError:
        ok = False
    if ok:
        _bad("block:altered-accepted", "%s: check_merkle_hash() passes on the altered block" % what)
    return labels + ["altered=" + kind]


SIZES = [1, 2, 3, 4, 5, 7, 8, 9, 15, 16, 17, 31, 33]


def s_block():
    # one transaction in forty has an input or output count on / above the compact-size escape (252 .. 300), legacy or segwit
    counts = weighted((39, st.integers(1, 3)), (1, st.sampled_from([252, 253, 254, 256, 257, 300])))
    spec = st.tuples(st.integers(0, 10 ** 6), counts, counts, st.integers(0, 110),
                     st.sampled_from([0, 0, 0, 1])).map(list)
    n = st.one_of(st.sampled_from(SIZES), st.sampled_from(SIZES[:9]), st.integers(1, 120))
    txs = n.flatmap(lambda k: st.lists(spec, min_size=k, max_size=k))
    u32 = boundary_ints(0, 2 ** 32 - 1)
    header = st.tuples(u32, st.binary(min_size=32, max_size=32).map(bytes.hex), u32, u32, u32).map(list)
    pick = st.one_of(st.integers(0, 7), st.integers(0, 10 ** 6))
    altered = st.tuples(st.sampled_from(ALTERATIONS + ["field"]), pick, pick).map(list)
    alter = st.integers(0, 2).flatmap(lambda i: st.none() if i == 0 else altered)
    return st.fixed_dictionaries({"net": st.sampled_from(["btc", "ltc"]), "header": header, "txs": txs, "alter": alter})


def nt_block(case, labels):
    return len(case["txs"]) >= 3


# ------------------------------------------------------------------ merkle()


def _hash_list(case):
    n, seed, mode = case["n"], case["seed"], case["mode"]
    if mode == "counter":       # cheap distinct leaves for lists of 10^5 hashes
        return [hashlib.sha256(b"%d/%d" % (seed, i)).digest() for i in range(n)]
    if mode == "distinct":
        return [_stream(seed, "m%d" % i, 32) for i in range(n)]
    if mode == "all-equal":
        return [_stream(seed, "m", 32)] * n
    if mode == "pairs-equal":
        return [_stream(seed, "m%d" % (i // 2), 32) for i in range(n)]
    return [_stream(seed, "m%d" % (i % 3), 32) for i in range(n)]          # period 3


def o_merkle(case):
    hs = _hash_list(case)
    want = ref.merkle_root(hs)
    got = merkle(list(hs))
    got2 = merkle(list(hs), double_sha256)
    if got != want or got2 != want:
        _bad("merkle:root!=reference", "merkle() of %d hashes (%s): %s, reference %s" % (case["n"], case["mode"], got.hex(), want.hex()))
    if len(hs) > 1:
        lvl = merkle_pair(list(hs), double_sha256)
        if len(lvl) != (len(hs) + 1) // 2 or ref.merkle_root(lvl) != want:
            _bad("merkle:pair-level", "merkle_pair of %d hashes gives %d nodes / a level with a different root" % (len(hs), len(lvl)))
    n = case["n"]
    odd_inner = any(w > 1 and w & 1 for w in _widths(n)[1:])
    return ["mode=" + case["mode"], "odd-leaf-level" if n & 1 and n > 1 else "even-or-single", "odd-inner-level" if odd_inner else "no-odd-inner"]


def _widths(n):
    w = [n]
    while w[-1] > 1:
        w.append((w[-1] + 1) // 2)
    return w


def cases_merkle(tier):
    for n in range(1, 71):
        for mode in ("distinct", "all-equal", "pairs-equal", "period3"):
            for seed in range(2 if tier == "quick" else 8):
                yield {"n": n, "seed": seed, "mode": mode}
    # leaf counts well beyond any real block (past 2^16 and 2^17, on and off powers of two)
    for n in [65537, 131073] + ([131072, 171072, 262145, 393221] if tier == "thorough" else []):
        yield {"n": n, "seed": 1, "mode": "counter"}


def s_merkle():
    return st.fixed_dictionaries({"n": st.one_of(st.integers(1, 70), st.integers(71, 600), st.sampled_from([127, 128, 129, 255, 256, 257, 513])),
                                  "seed": st.integers(0, 10 ** 9),
                                  "mode": st.sampled_from(["distinct", "distinct", "all-equal", "pairs-equal", "period3"])})


# ------------------------------------------------------------------ merkleblock proofs

HDR0 = [1, "00" * 32, 1231006505, 0x1d00ffff, 2083236893]


def _refused(net, msg):
    """name of the exception type that refuses the message, or None when it is accepted"""
    try:
        net.message.parse("merkleblock", msg)
    except Exception as ex:  # the property: a corrupted proof 'is rejected'; any exception is a rejection
        return type(ex).__name__
    return None


def o_merkleblock(case):
    net = NETS[case["net"]]
    n, mask, seed = case["n"], case["mask"], case["seed"]
    txids = [_stream(seed, "t%d" % i, 32) for i in range(n)]
    repeated = False
    if case.get("dups") and n >= 3:
        # the same id at several positions that are not merkle siblings at any level (sibling repeats are the
        # CVE-2012-2459 shape, judged separately below), each of the copies matched
        cand = list(txids)
        m2 = mask
        for dst, src in case["dups"]:
            cand[dst % n] = cand[src % n]
            m2 |= (1 << (dst % n)) | (1 << (src % n))
        level, ok = list(cand), len(set(cand)) < n
        while ok and len(level) > 1:
            ok = all(level[i] != level[i + 1] for i in range(0, len(level) - 1, 2))
            if len(level) & 1:
                level.append(level[-1])
            level = [ref.sha256d(level[i] + level[i + 1]) for i in range(0, len(level), 2)]
        if ok:
            txids, mask, repeated = cand, m2, True
    match = [(mask >> i) & 1 for i in range(n)]
    want = [t for t, m in zip(txids, match) if m]
    root = ref.merkle_root(txids)
    hv = case["hdr"]
    hdr = header_bytes(hv, root)
    hashes, flags, nbits = ref.build_proof(txids, match)
    assert ref.verify_proof(root, n, hashes, flags) == want
    msg = ref.ser_merkleblock(hdr, n, hashes, flags)
    blk = net.block(hv[0], bytes.fromhex(hv[1]), root, hv[2], hv[3], hv[4])
    packed = net.message.pack("merkleblock", header=blk, total_transactions=n, hashes=hashes, flags=list(flags))
    if packed != msg:
        _bad("merkleblock:pack!=reference", "pack('merkleblock') for n=%d mask=%x gives %s, reference %s" % (n, mask, packed.hex(), msg.hex()))
    try:
        d = net.message.parse("merkleblock", msg)
    except Exception as ex:
        _bad("merkleblock:honest-proof-refused", "n=%d matched=%s (%d hashes, %d flag bits): %s: %s" % (
            n, [i for i, m in enumerate(match) if m][:40], len(hashes), nbits, type(ex).__name__, ex))
    if list(d["tx_hashes"]) != want:
        _bad("merkleblock:wrong-matches", "n=%d matched positions %s: tx_hashes has %d entries %s, expected %d" % (
            n, [i for i, m in enumerate(match) if m][:40], len(d["tx_hashes"]),
            [txids.index(h) if h in txids else h.hex()[:8] for h in d["tx_hashes"]][:40], len(want)))
    if d["header"].as_bin() != hdr or d["total_transactions"] != n or list(d["hashes"]) != hashes or bytes(d["flags"]) != flags:
        _bad("merkleblock:parsed-fields", "parsed header/count/hashes/flags differ from what was sent (n=%d)" % n)
    if type(d["header"]) is not net.block:
        _bad("block:message-parse:class-of-another-coin", "%s.message.parse('merkleblock') header is a %s, this network's class is %s" % (
            case["net"], type(d["header"]).__name__, net.block.__name__))
    if repeated:
        return ["repeated-ids-matched", "n=%s" % ("<=8" if n <= 8 else ">8")]
    # ---- corruptions: every one must be refused
    nh = len(hashes)
    if nh <= 24:
        positions = list(range(nh))
    else:
        positions = sorted(set([0, nh - 1] + [p % nh for p in case["pos"]]))
    bit = case["bit"]
    corrupted = []
    for p in positions:
        h = hashes[p]
        alt = h[:(bit // 8) % 32] + bytes([h[(bit // 8) % 32] ^ (1 << (bit % 8))]) + h[(bit // 8) % 32 + 1:]
        corrupted.append(("hash-altered", p, hdr, hashes[:p] + [alt] + hashes[p + 1:], flags))
        corrupted.append(("hash-removed", p, hdr, hashes[:p] + hashes[p + 1:], flags))
        corrupted.append(("hash-inserted-new", p, hdr, hashes[:p] + [_stream(seed, "ins%d" % p, 32)] + hashes[p:], flags))
        corrupted.append(("hash-inserted-copy", p, hdr, hashes[:p] + [h] + hashes[p:], flags))
    corrupted.append(("hash-appended-new", nh, hdr, hashes + [_stream(seed, "app", 32)], flags))
    corrupted.append(("hash-appended-copy", nh, hdr, hashes + [hashes[-1]], flags))
    for q in range(nbits, 8 * len(flags)):
        fl = bytearray(flags)
        fl[q // 8] |= 1 << (q % 8)
        corrupted.append(("padding-bit-set", q - nbits, hdr, hashes, bytes(fl)))
    corrupted.append(("surplus-flag-byte-set", 0, hdr, hashes, flags + bytes([1 << (bit % 8)])))
    rp = 36 + (bit // 8) % 32
    corrupted.append(("header-root-altered", rp - 36, hdr[:rp] + bytes([hdr[rp] ^ (1 << (bit % 8))]) + hdr[rp + 1:], hashes, flags))
    refusers = set()
    # ---- hashes added as a whole duplicated subtree (CVE-2012-2459 shape): where a level has odd width its last node is
    # paired with itself, so the same root is obtained from a longer leaf list that repeats that node's leaves; the proof is
    # then built honestly over the longer list with a match inside the repeated part.  Count, hashes and flags all differ
    # from the honest proof, the root does not.
    forged = []
    width, span = n, 1
    while width > 1:
        if width & 1:
            lo = (width - 1) * span
            tail = txids[lo:lo + span]
            if len(tail) == span or span == 1:
                ids2 = txids + tail
                if ref.merkle_root(ids2) == root and len(ids2) > n:
                    for pick in sorted({0, len(tail) - 1, bit % len(tail)}):
                        m2 = list(match) + [0] * len(tail)
                        m2[n + pick] = 1
                        hs2, fl2, _nb = ref.build_proof(ids2, m2)
                        forged.append(("subtree-duplicated:leaves=%s" % (1 if span == 1 else "2+"), n + pick, len(ids2), hs2, fl2))
        width, span = (width + 1) // 2, span * 2
    for kind, p, n2, hs2, fl2 in forged:
        assert ref.verify_proof(root, n2, hs2, fl2) is None, (kind, p)
        r = _refused(net, ref.ser_merkleblock(hdr, n2, hs2, fl2))
        if r is None:
            _bad("merkleblock:corruption-accepted:" + kind, "n=%d mask=%x: a proof over %d leaves that repeat the last odd subtree, with a match at "
                 "position %d inside the repeated part, was accepted" % (n, mask, n2, p))
        refusers.add(r)
    for kind, p, h2, hs2, fl2 in corrupted:
        assert ref.verify_proof(h2[36:68], n, hs2, fl2) is None, (kind, p)
        r = _refused(net, ref.ser_merkleblock(h2, n, hs2, fl2))
        if r is None:
            _bad("merkleblock:corruption-accepted:" + kind, "n=%d mask=%x: proof with %s (position %d of %d hashes / %d flag bits) was accepted" % (
                n, mask, kind, p, nh, nbits))
        refusers.add(r)
    k = sum(match)
    labels = ["net=" + case["net"], "n=%s" % ("1" if n == 1 else "2-8" if n <= 8 else "9-64" if n <= 64 else "65-300"),
              "match=" + ("none" if k == 0 else "all" if k == n else "single" if k == 1 else "strict-subset"),
              "padbits=%d" % (8 * len(flags) - nbits)]
    if _odd_deep(n):
        labels.append("odd-level-depth>=2")
    for kind in sorted({f[0] for f in forged}):
        labels.append("forged:" + kind)
    labels += ["refused-by=" + r for r in sorted(refusers)]
    return labels


def _odd_deep(n):
    """some level at depth >= 2 below the root has an odd width (> 1)"""
    w = _widths(n)            # leaf level first, root last
    depth_of = dict((i, len(w) - 1 - i) for i in range(len(w)))
    return any(w[i] & 1 and w[i] > 1 and depth_of[i] >= 2 for i in range(len(w)))


def nt_merkleblock(case, labels):
    k = bin(case["mask"] & ((1 << case["n"]) - 1)).count("1")
    return _odd_deep(case["n"]) or 0 < k < case["n"]


def cases_merkleblock(tier):
    top = 8 if tier == "quick" else 12
    for n in range(1, top + 1):
        for mask in range(1 << n):
            yield {"net": "btc" if (n + mask) % 4 else "ltc", "n": n, "mask": mask, "seed": n, "hdr": HDR0, "pos": [], "bit": (mask * 37 + n) % 256}


def s_merkleblock():
    n = st.one_of(st.integers(1, 300), st.integers(9, 40), st.sampled_from([9, 13, 17, 21, 33, 65, 127, 129, 255, 257, 300]))

    def masks(k):
        # uniform subsets; xor with 0101.. so that Hypothesis' frequent all-zero draw is a strict subset, not the empty set
        alt = int("55" * ((k + 7) // 8), 16)
        bits = st.binary(min_size=(k + 7) // 8, max_size=(k + 7) // 8).map(lambda b: (int.from_bytes(b, "big") ^ alt) & ((1 << k) - 1))
        single = st.integers(0, k - 1).map(lambda i: 1 << i)
        sparse = st.lists(st.integers(0, k - 1), min_size=1, max_size=6).map(lambda l: sum(1 << i for i in set(l)))
        run = st.tuples(st.integers(0, k - 1), st.integers(1, k)).map(lambda t: (((1 << t[1]) - 1) << t[0]) & ((1 << k) - 1))
        dense = sparse.map(lambda m: ((1 << k) - 1) & ~m)
        table = [bits, bits, bits, sparse, run, dense, sparse, single, st.sampled_from([0, (1 << k) - 1])]
        return st.integers(0, len(table) - 1).flatmap(lambda i: table[i])      # (one_of would de-duplicate the repeats)
    u32 = boundary_ints(0, 2 ** 32 - 1)
    header = st.tuples(u32, st.binary(min_size=32, max_size=32).map(bytes.hex), u32, u32, u32).map(list)
    return n.flatmap(lambda k: st.fixed_dictionaries({
        "mask": masks(k), "net": st.sampled_from(["btc", "btc", "ltc"]), "n": st.just(k), "seed": st.integers(0, 10 ** 9),
        "hdr": header, "pos": st.lists(st.integers(0, 10 ** 4), min_size=10, max_size=10), "bit": st.integers(0, 255),
        "dups": weighted((5, st.just([])), (1, st.lists(st.tuples(st.integers(0, k), st.integers(0, k)).map(list), min_size=1, max_size=3)))}))


SUBCHECKS = [
    SubCheck("headers", o_header, strategy=s_header, budget=(3000, 300000),
             rule="80-byte headers with every field full range (boundary + uniform uint32, patterned 32-byte hashes), BTC and LTC block "
                  "classes: parse_as_header/parse(include_transactions=False) -> as_bin/stream_header identity, parsed fields, id() = "
                  "reversed SHA256d of the reference bytes"),
    SubCheck("header_history", o_header_history, strategy=s_header_history, budget=(1500, 100000),
             nontrivial=lambda c, l: "query-after-set_nonce-after-query" in l,
             rule="one long-lived header object, 3-9 operations: id() / hash() / as_bin() / str() queries interleaved with set_nonce(n) and direct assignment of the public header fields (timestamp, merkle_root, version, difficulty, previous_block_hash, nonce); every answer equals the reference for the 80 bytes as they are at that moment; non-trivial = a query after a set_nonce that itself followed a query"),
    SubCheck("blocks", o_block, strategy=s_block, budget=(1500, 60000), nontrivial=nt_block,
             rule="blocks of n in {1,2,3,4,5,7,8,9,15,16,17,31,33} or uniform <= 120 small transactions (1-3 inputs/outputs, scripts 0-300 "
                  "bytes, 1/4 BIP144 form) serialised by the reference: from_bin(b).as_bin() == b, id, per-transaction hashes, p2p block "
                  "message; or one alteration (header root byte, one transaction field, two transactions swapped, one removed, a foreign "
                  "one inserted) which must raise BadMerkleRootError; non-trivial = n >= 3"),
    SubCheck("merkle_sizes_1_70", o_merkle, cases=cases_merkle, exhaustive=True,
             nontrivial=lambda c, l: "odd-leaf-level" in l or "odd-inner-level" in l,
             rule="merkle() for every list size 1-70 (distinct / all-equal / pairwise-equal / period-3 hash lists) equals the reference "
                  "root; merkle_pair level; non-trivial = some level has odd width"),
    SubCheck("merkle_generated", o_merkle, strategy=s_merkle, budget=(600, 40000),
             nontrivial=lambda c, l: "odd-leaf-level" in l or "odd-inner-level" in l,
             rule="the same for sizes up to 600 incl. 2^k-1, 2^k, 2^k+1"),
    SubCheck("merkleblock_all_subsets", o_merkleblock, cases=cases_merkleblock, exhaustive=True, nontrivial=nt_merkleblock,
             rule="for every n <= 8 (thorough 12) all 2^n match subsets: the reference builder's proof, serialised by the reference and "
                  "also packed by pycoin, is accepted with exactly the matched ids in order; then every single corruption (each hash "
                  "altered / removed / a new or duplicate hash inserted before it, hash appended, each padding bit set, surplus flag "
                  "byte, header root altered) must be refused; non-trivial = odd level at depth >= 2 or non-empty strict subset"),
    SubCheck("merkleblock_generated", o_merkleblock, strategy=s_merkleblock, budget=(1500, 100000), nontrivial=nt_merkleblock,
             rule="n <= 300, match sets uniform / single / sparse / runs / dense / none / all, random headers, BTC and LTC; same checks, "
                  "hash corruptions at every position when the proof has <= 24 hashes, else at first, last and 10 drawn positions"),
    SubCheck("merkleblock_python_O", subproc.optimized_variant("checks.c14_blocks", "o_merkleblock"), strategy=s_merkleblock,
             budget=(300, 20000), nontrivial=nt_merkleblock,
             rule="the merkleblock_generated cases (honest proofs accepted, every corruption rejected) evaluated in a child interpreter "
                  "started with PYTHONOPTIMIZE=1 (python -O: assert statements compiled away; asserted by the child)"),
    SubCheck("blocks_python_O", subproc.optimized_variant("checks.c14_blocks", "o_block"), strategy=s_block, budget=(160, 8000),
             nontrivial=nt_block, rule="the blocks cases (round trip, altered transactions rejected) in the same python -O child"),
]
