"""C17 - Signed text messages verify for the signer only and never crash the verifier.

Oracle: oracles/refmsg.py (magic hash, compact 65-byte signature, SEC1 public-key recovery; calibrated on two signed
messages published by third parties) on top of oracles/refecdsa.py (RFC 6979 + textbook ECDSA) and oracles/refec.py.
The per-network magic text is "<network_name> Signed Message:\\n" with network_name read from the network object.
"""
import functools
import os
import re
import traceback

from hypothesis import strategies as st

from gen import common, subproc
from oracles import refenc, refmsg as M
from vlib.core import REPO_DIR, Violation, SubCheck

from pycoin.networks.registry import network_codes, network_for_netcode

PROPERTY = "C17"
N = M.N
GROESTL = ("GRS", "GRSRT", "TGRS")
NETCODES = sorted(c for c in network_codes() if c not in GROESTL)

ASSUMPTIONS = [
    "oracles/refmsg.py: z = SHA256d(varstr(magic) || varstr(utf8 message)), compact signature (27+recid+4*compressed)||r||s, "
    "SEC1 4.1.6 recovery; calibrated on the brainwallet 'multibit' example and the bitrated.com Bit2c profile signature",
    "oracles/refecdsa.py RFC 6979 (HMAC-SHA256) nonce and textbook sign, calibrated on RFC 6979 A.2.5 and the published secp256k1 vectors",
    "magic text = network_name + ' Signed Message:\\n' with network_name read from the network object (for Bitcoin this is Core's strMessageMagic)",
    "the key_or_address argument is always a Key object or an address text valid on the verifying network: the property "
    "quantifies over signature strings, not over unparseable address strings",
    "for signature text that is not the canonical base64 of its payload (whitespace, missing padding, foreign characters) only "
    "'returns a bool' is demanded, not a particular verdict: the property does not say whether lenient base64 is acceptable",
]
CONFIGURATIONS = ["%d networks (every registered one except Groestlcoin): %s" % (len(NETCODES), " ".join(NETCODES)),
                  "secp256k1 via the OpenSSL-accelerated generator", "secp256k1 via the pure-Python generator (child interpreter, PYCOIN_NATIVE=none)", "compressed and uncompressed keys"]
UNEXPLORED = ["Groestlcoin networks GRS, TGRS, GRSRT (addresses need the groestlcoin_hash C module, not installed)",
              "signing with recid >= 2 (nonce abscissa >= n, probability ~2^-128) and the r == 0 / s == 0 retry loop",
              "message hash == 0 or >= n (probability ~2^-128)", "libsecp256k1 backend"]


@functools.lru_cache(maxsize=None)
def NET(code):
    return network_for_netcode(code)


def magic(code):
    return M.magic_for(NET(code).network_name)


def _bad(bucket, msg):
    raise Violation(bucket, msg)


def build_msg(m, cut=True):
    """message text from a case: 'text' optionally padded with 'a' (or cut) to exactly pad_to UTF-8 bytes"""
    t, L = m["text"], m.get("pad_to")
    if L is None:
        return t
    if isinstance(L, list):
        # [n, filler]: the text preceded by n copies of a (possibly multi-byte) filler character: messages of megabytes
        # whose character count and UTF-8 byte count differ
        return L[1] * L[0] + t
    if len(t.encode("utf8")) > L:
        if not cut:
            return t
        while len(t.encode("utf8")) > L:
            t = t[:-1]
    return t + "a" * (L - len(t.encode("utf8")))


def total(f, what):
    """call a verifier entry point that must be total; an escaping exception becomes a Violation whose bucket names the
    exception type, the msg_signing function it escaped through and the innermost pycoin frame"""
    try:
        return f()
    except Exception as ex:  # classified and re-raised as a Violation (or re-raised untouched when not from pycoin)
        root = os.path.join(REPO_DIR, "pycoin") + os.sep
        frames = [(os.path.relpath(os.path.abspath(fs.filename), REPO_DIR), fs.name)
                  for fs in traceback.extract_tb(ex.__traceback__) if os.path.abspath(fs.filename).startswith(root)]
        if not frames:
            raise
        ms = [name for path, name in frames if path.endswith("contrib/msg_signing.py")]
        bucket = "verify-raises:%s@%s" % (type(ex).__name__, ms[-1] if ms else "?")
        if not frames[-1][0].endswith("contrib/msg_signing.py"):
            bucket += "/%s:%s" % (os.path.basename(frames[-1][0]), frames[-1][1])
        raise Violation(bucket, "%s raised %s: %s" % (what, type(ex).__name__, str(ex)[:200]))


def msg_labels(msg):
    n = len(msg.encode("utf8"))
    out = ["msg-bytes=%s" % ("0" if n == 0 else "1-252" if n < 253 else "253-65535" if n < 65536 else "65536+" if n < 2**20 else ">=1MiB")]
    if "\n" in msg:
        out.append("multi-line")
    if any(ord(ch) > 127 for ch in msg):
        out.append("non-ascii")
    return out


def other_netcode(code, pick):
    """a network whose magic text differs from `code`'s, chosen by `pick`"""
    name = NET(code).network_name
    for k in range(len(NETCODES)):
        c = NETCODES[(pick + k) % len(NETCODES)]
        if NET(c).network_name != name:
            return c
    raise AssertionError("all networks share one name")


# ---------------------------------------------------------------------------------------------------------------
# 1. sign == reference; verifies for the signer's key and address; recovery; nobody/nothing else verifies


def mutate_msg(msg, how):
    mode, s = how
    if mode == "append":
        out = msg + s
    elif mode == "prepend":
        out = s + msg
    elif mode == "drop-last":
        out = msg[:-1]
    elif mode == "swapcase":
        out = msg.swapcase()
    else:
        out = s
    return out if out != msg else msg + "x"


def o_sign_verify(case):
    code = case["net"]
    net = NET(code)
    d, comp = case["d"], bool(case["compressed"])
    msg = build_msg(case["msg"])
    key = net.keys.private(secret_exponent=d, is_compressed=comp)
    where = "%s d=%d compressed=%r msg=%r" % (code, d, comp, msg[:80])
    z = M.magic_hash(magic(code), msg)
    zp = net.msg.hash_for_signing(msg)
    if zp != z:
        _bad("msg:hash!=ref", "%s: hash_for_signing = %x, reference %x" % (where, zp, z))
    r, s, recid = M.sign(d, z)
    if r == 0 or s == 0 or z == 0:
        return ["out-of-reach:degenerate-signature"]
    Q = M.CURVE.mul_fast(d, M.CURVE.G)
    payload = M.compact(27 + recid + (4 if comp else 0), r, s)
    assert M.verdict(z, payload, Q_expected=Q), "reference does not verify its own signature"
    exp = M.b64(payload)
    sig = net.msg.sign(key, msg)
    low = net.msg.signature_for_message_hash(d, z, comp)
    # The property does not fix the nonce: any signature is acceptable that is the canonical base64 of a 65-byte compact
    # signature whose header carries the key's compression flag and from which the reference recovers exactly the signer
    # (a low-S-normalised or differently-nonced signature is as good as the RFC 6979 one, which is only labelled).
    import base64 as _b64
    for name, text in (("sign", sig), ("signature_for_message_hash", low)):
        try:
            raw = _b64.b64decode(text, validate=True)
        except Exception:
            raw = b""
        if len(raw) != 65 or M.b64(raw) != text:
            _bad("msg:signature-not-canonical-base64-of-65-bytes", "%s: %s = %r" % (where, name, text))
        if not (27 <= raw[0] < 35) or bool((raw[0] - 27) & 4) != comp:
            _bad("msg:signature-header-byte", "%s: %s header byte %d for compressed=%r" % (where, name, raw[0], comp))
        if not M.verdict(z, raw, Q_expected=Q):
            _bad("msg:signature-does-not-recover-signer", "%s: %s = %r does not recover the signer under the reference" % (where, name, text))
    rfc_label = "sig=rfc6979" if sig == exp else "sig=other-nonce-or-normalised"
    addr = key.address()
    ref_h160 = M.key_hash(Q, comp)
    for name, target in (("key", key), ("public key", key.public_copy()), ("address", addr)):
        got = total(lambda: net.msg.verify(target, sig, msg), "%s: verify(%s, own signature)" % (where, name))
        if got is not True:
            _bad("msg:own-signature-rejected:" + name.replace(" ", "-"), "%s: verify(%s, %r, msg) = %r" % (where, name, sig, got))
    # the signer's public key held as one of the library's other key objects (what a wallet file or parsed text gives):
    # the same point, so the same verdict.  One case in four; Electrum keys are uncompressed by definition.
    if d % 4 == 1:
        sec = M.sec(Q, comp) if hasattr(M, "sec") else None
        others = [("keys.public(pair)", lambda: net.keys.public((Q[0], Q[1]), is_compressed=comp))]
        if not comp:
            mpk = Q[0].to_bytes(32, "big") + Q[1].to_bytes(32, "big")
            others += [("keys.electrum_public(master_public_key)", lambda: net.keys.electrum_public(master_public_key=mpk)),
                       ("parse.electrum_pub(E:hex)", lambda: net.parse.electrum_pub("E:" + mpk.hex())),
                       ("keys.electrum_private(d).public_copy()", lambda: net.keys.electrum_private(master_private_key=d).public_copy())]
        else:
            others += [("keys.bip32_seed-less node", lambda: net.keys.bip32_deserialize(
                b"\0\0\0\0" + b"\0" * 9 + b"\x11" * 32 + bytes([2 + (Q[1] & 1)]) + Q[0].to_bytes(32, "big")))]
        if comp and msg.isalnum():
            # the signer is a BIP84 account key: its address() - what the armoured form carries - is the native segwit
            # address of the same key hash; the armoured text it writes must verify when read back
            def armoured_by_bip84():
                node = net.keys.bip84_deserialize(b"\0" * 13 + b"\x11" * 32 + b"\0" + d.to_bytes(32, "big"))
                if node is None or not isinstance(node.address(), str):
                    return None
                m2, a2, s2 = net.msg.parse_signed(net.msg.sign(node, msg, verbose=True))
                return (m2, a2, net.msg.verify(a2, s2, m2), node.address())
            res = total(armoured_by_bip84, "%s: armoured signature by the BIP84 node of the key" % where)
            if res is not None and (res[0] != msg or res[1] != res[3] or res[2] is not True):
                _bad("msg:own-signature-rejected:bip84-armoured", "%s: sign(BIP84 node, verbose) read back as message %r address %r (node address %r), "
                     "verify = %r" % (where, res[0][:40], res[1], res[3], res[2]))
        for name, mk in others:
            target = total(mk, "%s: building %s" % (where, name))
            if target is None:
                continue
            got = total(lambda: net.msg.verify(target, sig, msg), "%s: verify(%s, own signature)" % (where, name))
            if got is not True:
                _bad("msg:own-signature-rejected:other-key-object", "%s: verify(<%s of the signer's point>, %r, msg) = %r" % (where, name, sig, got))
    pair, flag = net.msg.pair_for_message_hash(sig, z)
    if tuple(pair) != Q:
        _bad("msg:recovered-key!=signer", "%s: pair_for_message_hash gives %r, signer is %r" % (where, tuple(pair), Q))
    if flag is not comp:
        _bad("msg:recovered-compression-flag", "%s: pair_for_message_hash flag %r, key compressed=%r" % (where, flag, comp))
    if key.hash160() != ref_h160:
        _bad("msg:address-hash!=ref", "%s: key.hash160() differs from RIPEMD160(SHA256(SEC))" % where)

    def must_fail(bucket, what, f):
        got = total(f, "%s: %s" % (where, what))
        if got is not False:
            _bad(bucket, "%s: %s = %r, expected False" % (where, what, got))

    # another message
    other = mutate_msg(msg, case["other_msg"])
    for name, target in (("key", key), ("address", addr)):
        must_fail("msg:verifies-for-other-message", "verify(%s, sig, %r)" % (name, other[:80]), lambda: net.msg.verify(target, sig, other))
    # another key, its address, the negated key (same x), the same key's other-compression address
    d2 = case["d2"]
    if d2 == d:
        d2 = d % (N - 1) + 1
    for dd, tag in ((d2, "other"), (N - d, "negated")):
        if dd == d:
            continue
        k2 = net.keys.private(secret_exponent=dd, is_compressed=comp)
        must_fail("msg:verifies-for-other-key", "verify(%s key %d, sig, msg)" % (tag, dd), lambda: net.msg.verify(k2, sig, msg))
        must_fail("msg:verifies-for-other-key", "verify(%s public key %d, sig, msg)" % (tag, dd), lambda: net.msg.verify(k2.public_copy(), sig, msg))
        must_fail("msg:verifies-for-other-address", "verify(address of %s key %d, sig, msg)" % (tag, dd), lambda: net.msg.verify(k2.address(), sig, msg))
    flipped = net.keys.private(secret_exponent=d, is_compressed=not comp).address()
    must_fail("msg:verifies-for-other-address", "verify(address of the same key with compressed=%r, sig, msg)" % (not comp),
              lambda: net.msg.verify(flipped, sig, msg))
    # the network's other address kinds: script hash of the key's own hash, and - where the network has a Bech32 prefix -
    # the P2WPKH address of the key, a P2WSH and a P2TR address (the last two carry a 32-byte payload, no key hash at all)
    h20 = key.hash160()
    others = [("p2sh", net.address.for_p2sh(h20))]
    if getattr(net.parse, "_bech32_hrp", None):
        others += [("p2wpkh", net.address.for_p2pkh_wit(h20)), ("p2wsh", net.address.for_p2sh_wit(h20 + h20[:12])),
                   ("p2tr", net.address.for_p2tr(h20[:12] + h20))]
    for kind, a2 in others:
        if kind in ("p2wpkh", "p2sh") or not isinstance(a2, str) or "?" in a2:
            # (a P2WPKH or P2SH address built over the very same 20 bytes: pycoin compares the 20-byte payloads whatever the
            # address kind, Core insists on P2PKH; the property does not say which way that goes - not judged)
            continue
        must_fail("msg:verifies-for-other-address", "verify(%s address %s, sig, msg)" % (kind, a2), lambda: net.msg.verify(a2, sig, msg))
    # another network's magic
    code2 = other_netcode(code, case["net2"])
    net2 = NET(code2)
    k3 = net2.keys.private(secret_exponent=d, is_compressed=comp)
    must_fail("msg:verifies-under-other-network-magic", "%s.verify(same key, sig made on %s, msg)" % (code2, code), lambda: net2.msg.verify(k3, sig, msg))
    must_fail("msg:verifies-under-other-network-magic", "%s.verify(address, sig made on %s, msg)" % (code2, code),
              lambda: net2.msg.verify(k3.address(), sig, msg))
    return msg_labels(msg) + ["compressed" if comp else "uncompressed", "recid=%d" % recid, "magic-len=%d" % len(magic(code)),
                              "other-msg=" + case["other_msg"][0], rfc_label]


def o_verify_history(case):
    """several verifications on ONE network's msg object, by text and by hash, of signatures of different messages:
    every verdict depends only on (target, signature, message or hash), never on what was verified before"""
    code = case["net"]
    net = NET(code)
    d, comp = case["d"], bool(case["compressed"])
    key = net.keys.private(secret_exponent=d, is_compressed=comp)
    d2 = case["d2"] if case["d2"] != d else d % (N - 1) + 1
    other_key = net.keys.private(secret_exponent=d2, is_compressed=comp)
    msgs = []
    for m in case["msgs"]:
        t = build_msg(m)
        if t not in msgs:
            msgs.append(t)
    zs = [M.magic_hash(magic(code), t) for t in msgs]
    sigs = [net.msg.sign(key, t) for t in msgs]
    targets = {"key": key, "pub": key.public_copy(), "addr": key.address(), "other": other_key, "other-addr": other_key.address()}
    labels = ["msgs=%d" % len(msgs)]
    prev = None
    for step, (si, mi, mode, tname) in enumerate(case["ops"]):
        si, mi = si % len(msgs), mi % len(msgs)
        target = targets[tname]
        if mode == "text":
            f = lambda: net.msg.verify(target, sigs[si], msgs[mi])
        else:
            f = lambda: net.msg.verify(target, sigs[si], msg_hash=zs[mi])
        got = total(f, "%s verify step %d" % (code, step))
        want = (si == mi) and tname in ("key", "pub", "addr")
        if got is not want:
            _bad("msg:history:verdict-depends-on-earlier-calls" if prev is not None else "msg:history:verdict",
                 "%s d=%d: step %d of %s: verify(%s, signature of message #%d, %s of message #%d) = %r, expected %r" % (
                     code, d, step, case["ops"], tname, si, "hash" if mode == "hash" else "text", mi, got, want))
        if prev is not None and prev[0] == si and prev[2] == "hash" and mode == "hash" and prev[1] != mi:
            labels.append("same-sig-by-hash-twice-different-hash")
        labels.append("mode=" + mode)
        prev = (si, mi, mode)
    return sorted(set(labels))


def s_verify_history():
    op = st.tuples(st.integers(0, 2), st.integers(0, 2), st.sampled_from(["hash", "hash", "text"]),
                   st.sampled_from(["key", "key", "addr", "pub", "other", "other-addr"])).map(list)
    return st.fixed_dictionaries({"net": st.sampled_from(NETCODES), "d": common.scalars(), "d2": common.scalars(),
                                  "compressed": st.sampled_from([0, 1]), "msgs": st.lists(free_msgs(), min_size=2, max_size=3),
                                  "ops": st.lists(op, min_size=2, max_size=8)})


def free_text():
    """unicode text; the empty message is an explicit, rare alternative"""
    word = st.text(min_size=1, max_size=12)
    seps = st.sampled_from(["\n", "\n", "\r\n", "\r", " ", "\n\n", "\t"])
    multi = st.builds(lambda ws, ss: "".join(w + ss[i % len(ss)] for i, w in enumerate(ws)), st.lists(word, min_size=2, max_size=5),
                      st.lists(seps, min_size=1, max_size=3))
    pick = st.integers(0, 11)
    return pick.flatmap(lambda k: st.just("") if k == 0 else
                        st.text(alphabet=st.characters(min_codepoint=0x80, max_codepoint=0x2fff), min_size=1, max_size=20) if k <= 2 else
                        multi if k <= 5 else
                        st.text(alphabet="ab \n\r\t", min_size=1, max_size=12) if k == 6 else
                        st.text(min_size=1, max_size=60))


PAD_TARGETS = [1, 75, 76, 252, 253, 254, 255, 256, 257, 1000, 65535, 65536, 65537]


def free_msgs():
    return st.one_of(
        free_text().map(lambda t: {"text": t, "pad_to": None}),
        st.builds(lambda t, L: {"text": t, "pad_to": L}, free_text(), st.sampled_from(PAD_TARGETS[:10])),
        st.builds(lambda t, L: {"text": t, "pad_to": L}, st.text(max_size=8), st.sampled_from(PAD_TARGETS)),
        st.builds(lambda t, L: {"text": t, "pad_to": L}, st.text(min_size=1, max_size=8),
                  st.sampled_from([[600000, "\u00e9"], [400000, "\u20ac"], [1100000, "a"], [300000, "\U0001f600"], [1048576, "b"], [524289, "\u00e9"]])))


def other_msgs():
    return st.one_of(st.tuples(st.sampled_from(["append", "prepend"]), st.sampled_from([" ", "\n", "\r\n", "\0", "a", " "])),
                     st.tuples(st.sampled_from(["drop-last", "swapcase"]), st.just("")),
                     st.tuples(st.just("replace"), st.text(max_size=20))).map(list)


def s_sign_verify():
    return st.fixed_dictionaries({
        "net": st.sampled_from(NETCODES), "d": common.scalars(), "compressed": st.sampled_from([0, 1]),
        "msg": free_msgs(), "other_msg": other_msgs(), "d2": common.scalars(), "net2": st.integers(0, len(NETCODES) - 1)})


# ---------------------------------------------------------------------------------------------------------------
# 2. armoured form round trip


MARKER = re.compile(r"-----(BEGIN|END) [A-Z ]*(SIGNED MESSAGE|SIGNATURE)-----")


def armour_msg(m):
    """lines (each free of CR/LF; exact armour marker lines get a leading space) joined with one newline style"""
    lines = [(" " + ln) if MARKER.fullmatch(ln) else ln for ln in m["lines"]]
    text = m["nl"].join(lines)
    return build_msg({"text": text, "pad_to": m.get("pad_to")}, cut=False)


def o_armour(case):
    code = case["net"]
    net = NET(code)
    d, comp = case["d"], bool(case["compressed"])
    msg = armour_msg(case["msg"])
    key = net.keys.private(secret_exponent=d, is_compressed=comp)
    where = "%s d=%d compressed=%r msg=%r" % (code, d, comp, msg[:120])
    sig = net.msg.sign(key, msg)
    text = net.msg.sign(key, msg, verbose=True)
    got = net.msg.parse_signed(text)
    exp = (msg, key.address(), sig)
    if tuple(got) != exp:
        which = [n for n, a, b in zip(("message", "address", "signature"), got, exp) if a != b]
        _bad("armour:roundtrip:" + "+".join(which), "%s: parse_signed(sign(verbose=True)) = %r, expected %r" % (where, got, exp))
    ok = total(lambda: net.msg.verify(got[1], got[2], got[0]), "%s: verify(parsed armour)" % where)
    if ok is not True:
        _bad("armour:parsed-does-not-verify", "%s: verify of the parsed parts = %r" % (where, ok))
    labels = msg_labels(msg) + ["nl=" + {"\n": "LF", "\r\n": "CRLF"}[case["msg"]["nl"]], "lines=%s" % min(len(case["msg"]["lines"]), 4)]
    if any("-----" in ln for ln in case["msg"]["lines"]):
        labels.append("dashes-in-line")
    if any(MARKER.search(ln) for ln in case["msg"]["lines"]):
        labels.append("marker-text-inside-line")
    if msg.endswith("\n") or msg.startswith("\n") or msg.startswith("\r\n"):
        labels.append("leading/trailing-newline")
    if msg != msg.strip():
        labels.append("outer-whitespace")
    return labels


def armour_lines():
    plain = st.text(alphabet=st.characters(blacklist_characters="\r\n", blacklist_categories=("Cs",)), max_size=30)
    near = st.sampled_from([
        "-----", "-----BEGIN SIGNATURE----", "----BEGIN SIGNATURE-----", "-----BEGIN SIGNATURE-----", "-----BEGIN SIGNATURE----- ",
        "x-----BEGIN SIGNATURE-----", "-----begin signature-----", "-----BEGIN BITCOIN SIGNATURE-----", "SIGNED MESSAGE-----",
        "x SIGNED MESSAGE-----", "-----BEGIN BITCOIN SIGNED MESSAGE-----", "-----END BITCOIN SIGNED MESSAGE-----", "> -----BEGIN SIGNATURE-----",
        "Address: 1BitcoinEaterAddressDontSendf59kuE", "Version: 1", ":", "a: b", " ", "", "\t", "-----END", "-----BEGIN x SIGNATURE-----",
        "-----BEGIN 1 SIGNATURE-----"])
    # lines that mail / clear-signing / text-processing conventions treat specially: dash-escaping (RFC 2440 7.1), mbox
    # "From " quoting, quoted-printable, trailing blanks, armour header look-alikes, and the characters other than CR / LF
    # on which str.splitlines() breaks a line
    conv = st.sampled_from([
        "- milk", "- ", "-", "--", "-- ", "- - x", "- -----BEGIN SIGNATURE-----", "-x", " - x", "From me", ">From me", "> quoted", "=20", "=",
        "x=", ".", "..", "#", "Hash: SHA256", "Comment: x", "Charset: utf-8", "x  ", "x\t", "  x", "\u00a0x", "a\x0bb", "a\x0cb", "a\x1cb",
        "a\x1db", "a\x1eb", "a\x85b", "a\u2028b", "a\u2029b", "\x0c", "\u2028", "x\u2028", "\ufeffx", "\\", "\\n", "%s", "{}", "\x00", "a\x00b"])
    return st.one_of(plain, plain, near, conv)


def armour_msgs():
    return st.builds(lambda lines, nl, pad: {"lines": lines, "nl": nl, "pad_to": pad},
                     st.lists(armour_lines(), min_size=0, max_size=6), st.sampled_from(["\n", "\n", "\r\n"]),
                     st.one_of(st.none(), st.none(), st.sampled_from(PAD_TARGETS[:10])))


def _word_keys():
    """(net, d, compressed) whose address happens to contain an upper-case word of the armour vocabulary ("END"); found
    once by enumeration of small secret exponents and kept in gen/data_addr_words.json (about one key in 6000 qualifies)"""
    import json
    with open(os.path.join(REPO_DIR if False else os.path.dirname(os.path.dirname(os.path.abspath(__file__))), "gen", "data_addr_words.json")) as f:
        table = json.load(f)
    return [(e[2], e[0], e[1]) for word in sorted(table) for e in table[word] if e[2] in NETCODES]


def s_armour():
    plain = st.fixed_dictionaries({"net": st.sampled_from(NETCODES), "d": common.scalars(), "compressed": st.sampled_from([0, 1]),
                                   "msg": armour_msgs()})
    worded = st.builds(lambda k, msg: {"net": k[0], "d": k[1], "compressed": k[2], "msg": msg}, st.sampled_from(_word_keys()), armour_msgs())
    return common.weighted((9, plain), (1, worded))


# ---------------------------------------------------------------------------------------------------------------
# 3. verifier totality (and exact verdict for canonical base64 payloads)


def nopoint_x(start):
    """the first x >= start (mod p) with no point on the curve"""
    x = start % M.P
    while M.CURVE.ys_for_x(x):
        x = (x + 1) % M.P
    return x


def point_x(start):
    x = start % M.P
    while not M.CURVE.ys_for_x(x):
        x = (x + 1) % M.P
    return x


# every header byte, with the edges of the valid window 27..34 (and the next windows of 8) emphasised
HEADER_POOL = list(range(256)) + [25, 26, 35, 36, 37, 38, 39, 40, 41, 42, 43, 19, 23, 0, 255] * 6 + list(range(27, 35)) * 6


def o_totality(case):
    code = case["net"]
    net = NET(code)
    d, comp = case["d"], bool(case["compressed"])
    msg = build_msg(case["msg"])
    z = M.magic_hash(magic(code), msg)
    cls, a, b = case["cls"], case["a"], case["b"]
    endo = None
    if cls == "same-y-recovery" and z % N:
        # a VALID signature whose key, nonce and message hash are related so that the two points public-key recovery adds,
        # s*R and -z*G, are distinct points with the same ordinate (multiplication by a cube root of unity mod n keeps y on
        # secp256k1): s = -lambda^j z / k, which is the signature with nonce k of the key d = lambda^2j z / r
        k = b % (N - 1) + 1
        Rk = M.CURVE.mul_fast(k, M.CURVE.G)
        lam = pow(0x5363ad4cc05c30e0a5261c028812645a122e22ea20816678df02967c1b23bd72, 1 + a % 2, N)
        if Rk[0] % N and Rk[0] < N:
            d = z * lam * lam % N * pow(Rk[0], -1, N) % N
            endo = (Rk[0], -lam * z % N * pow(k, -1, N) % N, Rk[1] & 1)
    key = net.keys.private(secret_exponent=d, is_compressed=comp)
    Q = M.CURVE.mul_fast(d, M.CURVE.G)
    r, s, recid = M.sign(d, z)
    if r == 0 or s == 0:
        return ["out-of-reach:degenerate-signature"]
    good = M.compact(27 + recid + (4 if comp else 0), r, s)
    payload, text = None, None
    hdr_ok = 27 + (a % 8)
    if cls == "same-y-recovery":
        if endo is None:
            return ["out-of-reach:degenerate-signature"]
        payload = M.compact(27 + endo[2] + (4 if comp else 0), endo[0], endo[1])
    elif cls == "header":
        payload = M.compact(HEADER_POOL[a % len(HEADER_POOL)], r, s)
    elif cls == "r-special":
        specials = [0, N, M.P, 2**256 - 1, N - 1, N + 1, M.P - 1, M.P + 1, 1, (r + N) % 2**256, nopoint_x(b), point_x(b), nopoint_x(r + 1)]
        payload = M.compact(hdr_ok, specials[(a // 8) % len(specials)], s)
    elif cls == "s-special":
        specials = [0, N, N - s, 2**256 - 1, 1, N - 1, N + 1, (s + N) % 2**256, b % 2**256]
        payload = M.compact(good[0] if a % 2 else hdr_ok, r, specials[(a // 8) % len(specials)])
    elif cls == "infinity-key":
        # crafted so that s*R == z*G: the recovery formula r^-1 (s*R - z*G) yields the point at infinity
        k = b % (N - 1) + 1
        Rk = M.CURVE.mul_fast(k, M.CURVE.G)
        rk = Rk[0] % N
        if rk == 0 or Rk[0] >= N:
            return ["out-of-reach:degenerate-signature"]
        payload = M.compact(27 + (Rk[1] & 1) + (4 if a % 2 else 0), rk, z * pow(k, -1, N) % N)
    elif cls == "random65":
        payload = M.compact(hdr_ok if a % 4 else (a // 8) % 256, b % 2**256, (b >> 256) % 2**256)
    elif cls == "length":
        ext = bytes.fromhex(case["blob"])
        payload = good[:a % 65] if b % 2 else good + ext[:1 + a % 40]
    elif cls == "b64-bytes":
        payload = bytes.fromhex(case["blob"])
    elif cls == "b64-mangled":
        t = M.b64(good)
        pos = a % (len(t) + 1)
        ins = ["", " ", "\n", "\r\n", "=", "-", "_", "!", "\0", "A", "é", "=="][b % 12]
        how = (b // 12) % 5
        if how == 0:
            text = t[:pos] + ins + t[pos:]
        elif how == 1:
            text = t.rstrip("=") + ins
        elif how == 2:
            text = t[:pos] + (ins or "*") + t[pos + 1:]
        elif how == 3:
            text = ins + t + ins
        else:
            text = t[:pos]
    elif cls == "text":
        text = case["text"]
    else:
        raise AssertionError(cls)
    canonical = payload is not None
    if canonical:
        text = M.b64(payload)
    targets = {"key": key, "pub": key.public_copy(), "addr": key.address()}
    target = targets[case["target"]]
    what = "%s.verify(%s of d=%d compressed=%r, %r, %r) [class %s]" % (code, case["target"], d, comp, text[:130], msg[:40], cls)
    got = total(lambda: net.msg.verify(target, text, msg), what)
    if not isinstance(got, bool):
        _bad("verify-returns-non-bool", "%s returned %r" % (what, got))
    labels = ["class=" + cls, "target=" + case["target"], "result=%r" % got]
    if canonical:
        if case["target"] == "addr":
            exp = M.verdict(z, payload, hash160_expected=M.key_hash(Q, comp))
        else:
            exp = M.verdict(z, payload, Q_expected=Q)
        if got != exp:
            _bad("verify:verdict!=ref:expected-%s" % exp, "%s = %r, reference verdict %r" % (what, got, exp))
        # recovery on the same adversarial payload: whatever key pair_for_message_hash returns must be the key the
        # reference recovers (SEC1 4.1.6), and it must refuse (EncodingError) exactly when there is no such key -
        # otherwise verify() would answer True for some key on an unrecoverable signature
        from pycoin.encoding.exceptions import EncodingError as _EE
        if len(payload) == 65 and 27 <= payload[0] < 35:
            hh = payload[0] - 27
            refQ = M.recover(z, int.from_bytes(payload[1:33], "big"), int.from_bytes(payload[33:], "big"), hh & 3)
            def _recover():
                try:
                    return net.msg.pair_for_message_hash(text, z)
                except _EE:          # the documented refusal
                    return None
            gotpair = total(_recover, "pair_for_message_hash(%r)" % text[:100])
            gotQ = None if gotpair is None else (gotpair[0][0], gotpair[0][1])
            if gotQ == (None, None):
                gotQ = None
            if gotQ != refQ:
                _bad("recover:pair!=ref:%s" % ("ref-unrecoverable" if refQ is None else "ref-recoverable"),
                     "%s pair_for_message_hash(%r, z) -> %r, reference recovery %r (header %d)" % (code, text[:100], gotQ, refQ, payload[0]))
            labels.append("recovery=" + ("none" if refQ is None else "key"))
        if len(payload) == 65:
            labels.append("hdr-in-range" if 27 <= payload[0] < 35 else "hdr-out-of-range")
            if 27 <= payload[0] < 35:
                rr = int.from_bytes(payload[1:33], "big")
                labels.append("r:" + ("0" if rr == 0 else ">=p" if rr >= M.P else ">=n" if rr >= N else
                                      "no-point" if not M.CURVE.ys_for_x(rr) else "has-point"))
                labels.append("recid>=2" if (payload[0] - 27) & 2 else "recid<2")
        else:
            labels.append("len=%s" % ("<65" if len(payload) < 65 else ">65"))
    else:
        labels.append("verdict-not-asserted")
    return labels


def s_totality():
    classes = st.sampled_from(["header", "header", "r-special", "r-special", "s-special", "infinity-key", "same-y-recovery", "random65", "random65", "length",
                               "b64-bytes", "b64-mangled", "b64-mangled", "text", "text"])
    b64ish = st.text(alphabet="ABCDEFGHIJKLMNOPQRSTUVWXYZabcdefghijklmnopqrstuvwxyz0123456789+/=", max_size=100)
    texts = st.one_of(st.text(max_size=40), b64ish, b64ish, st.text(alphabet="AB=+/ \n", max_size=12),
                      st.text(alphabet=st.characters(min_codepoint=0x80, max_codepoint=0x24ff), min_size=1, max_size=90))
    short_msgs = st.one_of(st.text(max_size=20), st.just("")).map(lambda t: {"text": t, "pad_to": None})
    return st.fixed_dictionaries({
        "net": st.sampled_from(NETCODES), "d": common.scalars(), "compressed": st.sampled_from([0, 1]), "msg": short_msgs,
        "cls": classes, "a": st.one_of(st.integers(0, 2**16), st.integers(0, 511)), "b": st.integers(0, 2**512 - 1),
        "blob": st.one_of(common.hexbytes(0, 100), common.hexbytes(65, 65), common.hexbytes(64, 66)),
        "text": texts, "target": st.sampled_from(["key", "addr", "addr", "pub"])})


def nt_totality(case, labels):
    return True


# ------------------------------------------------------------------ the same oracles on the pure-Python arithmetic backend

NATIVE_NONE = {"PYCOIN_NATIVE": "none"}
THIS = "checks.c17_msgsign"


def _child_backend():
    from gen import ecgen
    from pycoin.ecdsa.secp256k1 import secp256k1_generator as g
    name = ecgen.backend_of(g)
    if name != "pure":
        from vlib.core import HarnessError
        raise HarnessError("child started with PYCOIN_NATIVE=none does not use the pure-Python generator: %s" % name)
    return "child-backend=" + name


def o_sign_verify_worker(case):       # runs inside the PYCOIN_NATIVE=none child
    return o_sign_verify(case) + [_child_backend()]


def o_totality_worker(case):
    return o_totality(case) + [_child_backend()]


def o_sign_verify_pure(case):
    from gen import subproc
    return subproc.call(THIS, "o_sign_verify_worker", case, NATIVE_NONE)


def o_totality_pure(case):
    from gen import subproc
    return subproc.call(THIS, "o_totality_worker", case, NATIVE_NONE)


SUBCHECKS = [
    SubCheck("sign_verify", o_sign_verify, strategy=s_sign_verify, budget=(1500, 60000),
             nontrivial=lambda c, l: "msg-bytes=0" not in l,
             rule="key (boundary+uniform scalar, compressed or not) x network x unicode message (empty, multi-line with any newlines, "
                  "padded to 252/253/65535/65536... UTF-8 bytes, or 0.5-1.2 million one- to four-byte characters): hash_for_signing == reference magic hash; sign == base64 of "
                  "(27+recid+4c)||r||s of the reference RFC 6979 signature; verify True for key, public key, address; "
                  "pair_for_message_hash == (d*G, flag); verify False for a near-miss or unrelated other message, another key, the negated "
                  "key, their addresses, the same key's other-compression address, and under a network with a different magic. "
                  "Non-trivial = non-empty message"),
    SubCheck("verify_history", o_verify_history, strategy=s_verify_history, budget=(800, 30000),
             nontrivial=lambda c, l: "same-sig-by-hash-twice-different-hash" in l,
             rule="2-8 verifications on one network's msg object: signatures of 2-3 messages by one key, checked by message text or by msg_hash= against the key, its public copy, its address, another key and that key's address; every verdict equals (signature's message == presented message and target is the signer), whatever was verified before; non-trivial = the same signature verified by hash twice in a row against different hashes"),
    SubCheck("armour_roundtrip", o_armour, strategy=s_armour, budget=(1200, 50000),
             nontrivial=lambda c, l: "msg-bytes=0" not in l,
             rule="messages of 0-6 lines free of CR/LF joined with LF or CRLF (one style), lines include near-misses of the armour "
                  "markers (exact marker lines are displaced by a leading space), optional padding to 252-1000 bytes: "
                  "parse_signed(sign(verbose=True)) == (message, address, signature) and the parsed parts verify"),
    SubCheck("verifier_totality", o_totality, strategy=s_totality, budget=(5000, 200000), nontrivial=nt_totality,
             rule="verify(key | public key | address, t, m) for t from: valid signature with header byte 0-255; r in {0, n, p, 2^256-1, "
                  "n+-1, p+-1, 1, r+n, x without / with a curve point}; s in {0, n, n-s, 2^256-1, ...}; (r, s) crafted so the recovered key is the point at infinity; random 65-byte payloads; "
                  "truncated / extended payloads; base64 of arbitrary bytes; mangled base64 (whitespace, lost padding, foreign or "
                  "non-ASCII characters, truncation); arbitrary unicode / base64-alphabet text. Must return a bool; for canonical "
                  "base64 payloads the bool must equal the reference verdict (recover and compare)"),
    SubCheck("verifier_totality_python_O", subproc.optimized_variant("checks.c17_msgsign", "o_totality"), strategy=s_totality, budget=(500, 20000), nontrivial=nt_totality,
             rule="the verifier_totality cases evaluated in a child interpreter started with PYTHONOPTIMIZE=1 (python -O: assert statements are "
                  "compiled away, so validation written as an assert vanishes; the child asserts that mode)"),
    SubCheck("sign_verify_pure_python", o_sign_verify_pure, strategy=s_sign_verify, budget=(48, 3000),
             nontrivial=lambda c, l: "msg-bytes=0" not in l,
             rule="the sign_verify cases evaluated in a child interpreter started with PYCOIN_NATIVE=none (pure-Python point "
                  "arithmetic; the child asserts that no native generator is in use)"),
    SubCheck("verifier_totality_pure_python", o_totality_pure, strategy=s_totality, budget=(240, 8000), nontrivial=nt_totality,
             rule="the verifier_totality cases in the same PYCOIN_NATIVE=none child"),
]
