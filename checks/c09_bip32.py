"""C09 - Hierarchical key derivation follows BIP32 and commutes with going public.

Oracle: oracles/refbip32.py (CKDpriv / CKDpub / 78-byte serialisation / fingerprints written from the BIP, calibrated on
BIP32 test vectors 1-4; old-Electrum sequence from its specification).  Version bytes: the BIP32 constants for BTC and XTN
are the ones in the BIP; every other network's (and all BIP49/BIP84) version bytes are read from the network object -
what is independent there is the 78-byte layout, the Base58Check text and every derived field.
"""
import functools

from hypothesis import strategies as st

from gen import common
from oracles import refbip32 as R
from vlib.core import SubCheck, Violation

from pycoin.key.BIP32Node import PublicPrivateMismatchError
from pycoin.networks.registry import network_codes, network_for_netcode

from gen import subproc

PROPERTY = "C09"
HARD = R.HARD
SPELL = ["H", "p", "'"]
GROESTL = ("GRS", "GRSRT", "TGRS")
NETCODES = sorted(c for c in network_codes() if c not in GROESTL)
BIP_CONSTANTS = {"BTC": (bytes.fromhex("0488ade4"), bytes.fromhex("0488b21e")),
                 "XTN": (bytes.fromhex("04358394"), bytes.fromhex("043587cf"))}


@functools.lru_cache(maxsize=None)
def NET(code):
    return network_for_netcode(code)


@functools.lru_cache(maxsize=None)
def versions(code, kind):
    """(private version bytes, public version bytes) or None when the network does not define that kind"""
    if kind == "bip32" and code in BIP_CONSTANTS:
        return BIP_CONSTANTS[code]
    p = NET(code).parse
    prv, pub = getattr(p, "_%s_prv_prefix" % kind, None), getattr(p, "_%s_pub_prefix" % kind, None)
    if not prv or not pub:
        return None
    return bytes(prv), bytes(pub)


KIND_PAIRS = [(c, k) for c in NETCODES for k in ("bip32", "bip49", "bip84") if versions(c, k)]
BIP32_PAIRS = [p for p in KIND_PAIRS if p[1] == "bip32"]
OTHER_PAIRS = [p for p in KIND_PAIRS if p[1] != "bip32"]

ASSUMPTIONS = [
    "oracles/refbip32.py written from BIP32, calibrated at import on BIP32 test vectors 1-4 (all xprv/xpub strings), "
    "using oracles/refec.py point arithmetic and hashlib HMAC-SHA512 / SHA256 / RIPEMD160",
    "version bytes other than BTC/XTN bip32 (which are the BIP's constants) are read from the network objects: a wrong "
    "but self-consistent version constant is undetectable offline",
    "old-Electrum sequence: child = master + SHA256d('n:for_change:' || x||y) mod n, from the Electrum 1.x specification",
    "a public node is never asked for as_private=True children (no caller does; BIP32 has no such operation)",
]
CONFIGURATIONS = ["bip32 on %d networks: %s" % (len(BIP32_PAIRS), " ".join(c for c, _ in BIP32_PAIRS)),
                  "bip49/bip84 on: %s" % " ".join("%s/%s" % p for p in OTHER_PAIRS),
                  "secp256k1 via the OpenSSL-accelerated generator"]
UNEXPLORED = ["Groestlcoin networks GRS, TGRS, GRSRT (Base58 text needs the groestlcoin_hash C module, not installed)",
              "children with parse256(I_L) >= n or k_i = 0 (probability < 2^-127): pycoin's retry loop is unreached",
              "tree depth > 255 (not serialisable in BIP32)",
              "libsecp256k1 backend"]


def _bad(bucket, msg):
    raise Violation(bucket, msg)


# ---------------------------------------------------------------------------------------------------------------
# node comparison


def compare(stage, node, ref, vers, where):
    """every observable field of a pycoin node against a reference node; vers = (prv, pub) version bytes"""
    def bad(field, got, exp):
        _bad("bip32:%s:%s" % (stage, field), "%s: %s is %s, reference %s" % (where, field, got, exp))
    if node is None:
        bad("none", None, "a node")
    se = node.secret_exponent()
    if se != ref.k:
        bad("secret-exponent", se, ref.k)
    if node.is_private() != (ref.k is not None):
        bad("secret-exponent", "is_private=%r" % node.is_private(), ref.k is not None)
    pp = node.public_pair()
    if tuple(pp) != ref.K:
        bad("public-pair", tuple(pp), ref.K)
    if node.chain_code() != ref.c:
        bad("chain-code", node.chain_code().hex(), ref.c.hex())
    if node.tree_depth() != ref.depth:
        bad("depth", node.tree_depth(), ref.depth)
    if bytes(node.parent_fingerprint()) != ref.pfp:
        bad("parent-fingerprint", bytes(node.parent_fingerprint()).hex(), ref.pfp.hex())
    if node.child_index() != ref.index:
        bad("child-number", node.child_index(), ref.index)
    if node.fingerprint() != ref.fingerprint():
        bad("fingerprint", node.fingerprint().hex(), ref.fingerprint().hex())
    exp_pub = R.text(ref, False, vers[1])
    for got in (node.hwif(as_private=False), node.hwif()):
        if got != exp_pub:
            bad("hwif-public", got, exp_pub)
    # as_text is the other documented name of the same serialisation (what repr() and ku print)
    if node.as_text() != exp_pub or node.as_text(as_private=False) != exp_pub:
        bad("as_text-public", node.as_text(), exp_pub)
    if ref.k is not None:
        exp_prv = R.text(ref, True, vers[0])
        got = node.hwif(as_private=True)
        if got != exp_prv:
            bad("hwif-private", got, exp_prv)
        if node.as_text(as_private=True) != exp_prv:
            bad("as_text-private", node.as_text(as_private=True), exp_prv)


def path_string(path):
    return "/".join("%d%s" % (i, SPELL[sp % 3] if h else "") for i, h, sp in path)


def expect_refusal(stage, f, where):
    try:
        got = f()
    except PublicPrivateMismatchError:
        return
    _bad("bip32:%s:hardened-from-public-not-refused" % stage, "%s returned %r instead of raising" % (where, got))


def ver_label(vers):
    return "ver=%s" % vers[0].hex()


# ---------------------------------------------------------------------------------------------------------------
# 1. every node along a path; the path string; public derivation of the non-hardened suffix; refusal


def o_path_nodes(case):
    code = case["net"]
    net = NET(code)
    vers = versions(code, "bip32")
    seed = bytes.fromhex(case["seed"])
    path = case["path"]
    ref = R.master(seed)
    if ref is None:
        return ["out-of-reach:invalid-master"]
    node = net.keys.bip32_seed(seed)
    if len(path) % 2:
        # the optional argument of fingerprint(): the identifier of the uncompressed form of the key; asking for it (a
        # wallet listing both address forms does) changes nothing about the node or its children
        import hashlib
        sec_u = b"\x04" + ref.K[0].to_bytes(32, "big") + ref.K[1].to_bytes(32, "big")
        want_u = hashlib.new("ripemd160", hashlib.sha256(sec_u).digest()).digest()[:4]
        got_u = node.fingerprint(is_compressed=False)
        if bytes(got_u) != want_u:
            _bad("bip32:master:fingerprint-uncompressed", "fingerprint(is_compressed=False) = %s, expected %s" % (bytes(got_u).hex(), want_u.hex()))
    compare("master", node, ref, vers, "master of seed %s on %s" % (case["seed"], code))
    nodes, refs = [node], [ref]
    for d, (i, h, _sp) in enumerate(path):
        ref = R.ckd_priv(ref, i + (HARD if h else 0))
        if ref is None:
            return ["out-of-reach:invalid-child"]
        node = node.subkey(i=i, is_hardened=bool(h))
        compare("derive-private", node, ref, vers, "private child %d of path %s (seed %s, %s)" % (d + 1, path_string(path), case["seed"], code))
        nodes.append(node)
        refs.append(ref)

    # the whole path as text, on a fresh master
    s = path_string(path)
    fresh = net.keys.bip32_seed(seed)
    compare("path-string", fresh.subkey_for_path(s), refs[-1], vers, "subkey_for_path(%r) seed %s %s" % (s, case["seed"], code))
    fresh = net.keys.bip32_seed(seed)
    compare("path-string", fresh.subkey_for_path(s + ".pub"), refs[-1].public(), vers, "subkey_for_path(%r) seed %s %s" % (s + ".pub", case["seed"], code))

    # a copy of a node is the same node (a wallet hands copies to worker code): every field incl. the secret, and it
    # derives the same children.  copy.copy works on every node; deepcopy / pickle are judged only where they succeed.
    import copy as _copy
    import pickle as _pickle
    for how, mk in (("copy.copy", _copy.copy), ("copy.deepcopy", _copy.deepcopy), ("pickle", lambda o: _pickle.loads(_pickle.dumps(o)))):
        try:
            dup = mk(nodes[-1])
        except Exception:      # noqa - not every node class supports deep copies; that is not under test
            if how == "copy.copy":
                raise
            continue
        compare("copy", dup, refs[-1], vers, "%s of the node at %s (seed %s, %s)" % (how, s or "m", case["seed"], code))
        r7 = R.ckd_priv(refs[-1], 7 + HARD)
        if r7 is not None:
            compare("copy", dup.subkey(i=7, is_hardened=True), r7, vers, "hardened child 7 of the %s of the node at %s (seed %s, %s)" % (
                how, s or "m", case["seed"], code))

    # longest non-hardened suffix, derived from the public copy only
    j = len(path)
    while j > 0 and not path[j - 1][1]:
        j -= 1
    pub = nodes[j].public_copy()
    rpub = refs[j].public()
    compare("public-copy", pub, rpub, vers, "public_copy() at depth %d of %s (seed %s, %s)" % (j, s, case["seed"], code))
    # a watch-only node has no private serialisation: asking for one is refused, never answered with other text
    for name, f in (("hwif(as_private=True)", lambda: pub.hwif(as_private=True)), ("as_text(as_private=True)", lambda: pub.as_text(as_private=True)),
                    ("serialize(as_private=True)", lambda: pub.serialize(as_private=True))):
        try:
            got = f()
        except PublicPrivateMismatchError:
            continue
        _bad("bip32:public:private-text-of-a-public-node", "public_copy().%s returned %r instead of raising PublicPrivateMismatchError" % (name, got))
    p_step = pub
    for d in range(j, len(path)):
        i = path[d][0]
        rpub = R.ckd_pub(rpub, i)
        assert rpub is not None and rpub.fields() == refs[d + 1].public().fields(), "reference CKDpub/CKDpriv disagree"
        p_step = p_step.subkey(i=i)
        compare("derive-public", p_step, rpub, vers,
                "public child %d derived from public_copy() at depth %d, path %s (seed %s, %s)" % (d + 1, j, s, case["seed"], code))
    if j < len(path):
        suffix = path_string(path[j:])
        pub2 = nodes[j].public_copy()
        compare("derive-public", pub2.subkey_for_path(suffix), rpub, vers,
                "public_copy().subkey_for_path(%r) below depth %d of %s (seed %s, %s)" % (suffix, j, s, case["seed"], code))

    # hardened derivation from public-only nodes is refused
    hi, hsp = case["hard_probe"]
    for name, pn in (("public parent", pub), ("public leaf", p_step)):
        expect_refusal("public", lambda: pn.subkey(i=hi, is_hardened=True), "%s .subkey(%d, is_hardened=True)" % (name, hi))
        ps = "%d%s" % (hi, SPELL[hsp % 3])
        expect_refusal("public", lambda: pn.subkey_for_path(ps), "%s .subkey_for_path(%r)" % (name, ps))
        if len(path) > j:
            ps2 = path_string(path[j:]) + "/" + ps
            expect_refusal("public", lambda: pub.subkey_for_path(ps2), "public parent .subkey_for_path(%r)" % ps2)

    labels = ["depth=%d" % len(path), "pub-suffix=%d" % min(len(path) - j, 4), ver_label(vers)]
    if any(i >= 2**24 for i, _h, _s in path):
        labels.append("index>=2^24")
    if any(path[d][1] and not path[d + 1][1] for d in range(len(path) - 1)):
        labels.append("hardened->normal")
    for _i, h, sp in path:
        if h:
            labels.append("spell=" + SPELL[sp % 3])
    return labels


def nt_path(case, labels):
    return "depth=0" not in labels and "depth=1" not in labels or "index>=2^24" in labels or "hardened->normal" in labels


def indices():
    special = [0, 1, 2, 255, 256, 65535, 65536, 2**24 - 1, 2**24, 2**24 + 1, 2**31 - 2, 2**31 - 1, 0x7f000000, 0x00ffff00]
    return st.one_of(st.sampled_from(special), st.integers(0, 2**31 - 1), st.integers(0, 20))


def path_elems():
    return st.tuples(indices(), st.sampled_from([0, 0, 1]), st.integers(0, 2)).map(list)


def seeds():
    return st.one_of(st.binary(min_size=1, max_size=64), st.binary(min_size=16, max_size=16),
                     st.binary(min_size=32, max_size=32), st.binary(min_size=64, max_size=64)).map(bytes.hex)


def s_path_nodes():
    return st.fixed_dictionaries({
        "net": st.sampled_from(NETCODES),
        "seed": seeds(),
        "path": st.lists(path_elems(), min_size=0, max_size=8),
        "hard_probe": st.tuples(indices(), st.integers(0, 2)).map(list),
    })


# ---------------------------------------------------------------------------------------------------------------
# 2. text round trip of arbitrary extended keys: parse.bip32 / bip49 / bip84 on every network defining them


def o_text_roundtrip(case):
    code, kind = case["net"], case["kind"]
    net = NET(code)
    vers = versions(code, kind)
    if vers is None:
        return ["skip-undefined-kind"]
    private = bool(case["private"])
    depth, pfp = case["depth"], bytes.fromhex(case["pfp"])
    if case.get("echo"):
        # the payload begins with the same bytes as a version prefix: depth byte and parent fingerprint repeat the version
        # that is (echo 1) or is not (echo 2) being written, or (echo 3) the tail of the version and the depth byte
        v = vers[0 if (case["echo"] != 2) == private else 1]
        if case["echo"] == 3:
            depth, pfp = v[3], pfp
        else:
            depth, pfp = v[0], v[1:4] + pfp[3:]
    full = R.Node(case["k"], None, bytes.fromhex(case["c"]), depth, pfp, case["index"])
    ref = full if private else full.public()
    text = R.text(ref, private, vers[0] if private else vers[1])
    where = "%s.parse.%s(%r)" % (code, kind, text)
    parsed = getattr(net.parse, kind)(text)
    if parsed is None:
        _bad("bip32:parse:valid-text-refused", "%s returned None (fields %r)" % (where, case))
    compare("parse", parsed, ref, vers, where)
    if parsed.hwif(as_private=private) != text:
        _bad("bip32:parse:text-roundtrip", "%s .hwif(as_private=%r) = %r" % (where, private, parsed.hwif(as_private=private)))
    only_prv = getattr(net.parse, kind + "_prv")(text)
    only_pub = getattr(net.parse, kind + "_pub")(text)
    if (only_prv is not None) != private or (only_pub is not None) == private:
        _bad("bip32:parse:prv-pub-confused", "%s: %s_prv -> %r, %s_pub -> %r for a %s key" % (
            where, kind, only_prv, kind, only_pub, "private" if private else "public"))
    compare("parse", only_prv if private else only_pub, ref, vers, where + " via _%s" % ("prv" if private else "pub"))
    labels = ["net=" + code, "kind=" + kind, "private" if private else "public",
              "depth=%s" % ("0" if ref.depth == 0 else "255" if ref.depth == 255 else "1-254"),
              "k-lead0" if case["k"] < 2**248 else "k-full"]
    if ref.index >= HARD:
        labels.append("child-number-hardened")
    # the parsed node keeps deriving correctly (and keeps its kind: the child's text has the same version bytes)
    if ref.depth < 255:
        i, h = case["child"]
        if private or not h:
            rchild = R.derive(ref, [i + (HARD if h else 0)])[0]
            if rchild is not None:
                compare("parse-then-derive", parsed.subkey(i=i, is_hardened=bool(h)), rchild, vers, where + " .subkey(%d,%r)" % (i, bool(h)))
                labels.append("child-derived")
        else:
            expect_refusal("parse-then-derive", lambda: parsed.subkey(i=i, is_hardened=True), where + " .subkey(%d, True)" % i)
            labels.append("child-refused")
    return labels


def s_text_roundtrip():
    pair = st.one_of(st.sampled_from(BIP32_PAIRS), st.sampled_from(OTHER_PAIRS))
    small_k = st.integers(1, 2**248 - 1)
    tiny_k = st.integers(1, 2**16)
    return st.builds(
        lambda pr, k, c, depth, pfp, index, private, child, echo: {
            "net": pr[0], "kind": pr[1], "k": k, "c": c, "depth": depth, "pfp": pfp, "index": index,
            "private": int(private), "child": child, "echo": echo},
        pair, st.one_of(common.scalars(), small_k, tiny_k),
        st.one_of(common.hexbytes(32, 32), st.sampled_from(["00" * 32, "ff" * 32, "00" * 31 + "01"])),
        st.one_of(st.sampled_from([0, 1, 2, 254, 255]), st.integers(0, 255)),
        st.one_of(common.hexbytes(4, 4), st.just("00000000")),
        st.one_of(st.sampled_from([0, 1, 2**24 - 1, 2**24, HARD - 1, HARD, HARD + 1, 2**32 - 1]), st.integers(0, 2**32 - 1)),
        st.sampled_from([1, 1, 0]), st.tuples(indices(), st.sampled_from([0, 0, 1])).map(list),
        st.sampled_from([0] * 9 + [1, 1, 2, 3]))


# ---------------------------------------------------------------------------------------------------------------
# 2b. two different keys that look alike: equal 4-byte fingerprints (found by enumeration of small secret exponents and
#     kept in gen/data_fingerprint_twins.json), equal chain code, depth, parent fingerprint and child number


def _twins():
    import json
    import os
    with open(os.path.join(os.path.dirname(os.path.dirname(os.path.abspath(__file__))), "gen", "data_fingerprint_twins.json")) as f:
        return json.load(f)


def o_twins(case):
    code = case["net"]
    net = NET(code)
    vers = versions(code, "bip32")
    ka, kb, _fp = _twins()[case["pair"] % len(_twins())]
    if case["swap"]:
        ka, kb = kb, ka
    c = bytes.fromhex(case["c"])
    refs = [R.Node(k, None, c, case["depth"], bytes.fromhex(case["pfp"]), case["index"]) for k in (ka, kb)]
    if refs[0].fingerprint() != refs[1].fingerprint() or refs[0].K == refs[1].K:
        from vlib.core import HarnessError
        raise HarnessError("fingerprint twin table entry %r does not collide under the reference" % ((ka, kb),))
    private = bool(case["private"])
    texts = [R.text(r if private else r.public(), private, vers[0] if private else vers[1]) for r in refs]
    labels = ["net=" + code, "private" if private else "public"]
    nodes = [net.parse.bip32(t) for t in texts]
    for who, (node, ref) in enumerate(zip(nodes, refs)):
        compare("twins-parse", node, ref if private else ref.public(), vers, "%s.parse.bip32(%r)" % (code, texts[who]))
    # the same children are asked of one twin, then of the other: each must get its own
    for i, hardened in case["children"]:
        if hardened and not private:
            continue
        idx = i + (HARD if hardened else 0)
        for who in (0, 1):
            parent = refs[who] if private else refs[who].public()
            want = (R.ckd_priv(parent, idx) if private else R.ckd_pub(parent, idx))
            if want is None:
                continue
            got = nodes[who].subkey(i, is_hardened=bool(hardened))
            compare("twins-derive", got, want, vers, "%s twin %d (k=%d, fingerprint %s) child %d%s" % (
                code, who, (ka, kb)[who], _fp, i, "H" if hardened else ""))
            labels.append("derived")
    return labels


def _il_table():
    import json
    import os
    with open(os.path.join(os.path.dirname(os.path.dirname(os.path.abspath(__file__))), "gen", "data_bip32_il_zero_prefix.json")) as f:
        return json.load(f)


def cases_il_zero(tier):
    """(parent key, chain code, child index) whose HMAC-SHA512 output begins with three zero bytes - found by a search over
    2^27 children and kept in gen/data_bip32_il_zero_prefix.json: I_L is a 232-bit number, its 32-byte form has leading zeros"""
    for code in ("BTC", "XTN", "LTC"):
        for k, c, i, _head in _il_table():
            for private in (1, 0):
                yield {"net": code, "k": k, "c": c, "i": i, "private": private}


def o_il_zero(case):
    code = case["net"]
    net = NET(code)
    vers = versions(code, "bip32")
    parent = R.Node(case["k"], None, bytes.fromhex(case["c"]), 1, b"\0\0\0\0", 0)
    private = bool(case["private"])
    pref = parent if private else parent.public()
    text = R.text(pref, private, vers[0] if private else vers[1])
    node = net.parse.bip32(text)
    want = R.ckd_priv(parent, case["i"])
    if want is None:
        return ["skip-invalid-child"]
    got = node.subkey(case["i"])
    compare("il-zero-prefix", got, want if private else want.public(), vers, "%s %s parent k=%d child %d (I_L begins 000000)" % (
        code, "private" if private else "public", case["k"], case["i"]))
    if private:
        pub_child = node.public_copy().subkey(case["i"])
        compare("il-zero-prefix", pub_child, want.public(), vers, "%s public copy of parent k=%d child %d" % (code, case["k"], case["i"]))
    return ["private" if private else "public"]


def s_twins():
    return st.fixed_dictionaries({
        "net": st.sampled_from([p[0] for p in BIP32_PAIRS]), "pair": st.integers(0, 63), "swap": st.booleans(),
        "c": st.one_of(common.hexbytes(32, 32), st.just("00" * 32)), "depth": st.sampled_from([0, 1, 3, 254]),
        "pfp": st.one_of(common.hexbytes(4, 4), st.just("00000000")), "index": st.sampled_from([0, 1, HARD, 2**32 - 1]),
        "private": st.sampled_from([1, 1, 0]),
        "children": st.lists(st.tuples(st.sampled_from([0, 1, 2, 7, 2**31 - 1]), st.sampled_from([0, 0, 1])).map(list), min_size=1, max_size=3)})


# ---------------------------------------------------------------------------------------------------------------
# 3. range spellings: subkeys("0/1H/0-4"), "2,5,9-11", hardening marks H p ' on items and ranges


def _component_text_and_items(comp):
    """comp: list of items [lo, width, hardened, spell]; returns (text, [(index, hardened)...])"""
    parts, out = [], []
    for lo, width, h, sp in comp:
        lo = min(lo, 2**31 - width)
        mark = SPELL[sp % 3] if h else ""
        if width == 1:
            parts.append("%d%s" % (lo, mark))
        else:
            parts.append("%d-%d%s" % (lo, lo + width - 1, mark))
        out.extend((lo + t, h) for t in range(width))
    return ",".join(parts), out


def _product(lists):
    out = [[]]
    for lst in lists:
        out = [o + [x] for o in out for x in lst]
    return out


def o_ranges(case):
    code = case["net"]
    net = NET(code)
    vers = versions(code, "bip32")
    seed = bytes.fromhex(case["seed"])
    ref0 = R.master(seed)
    if ref0 is None:
        return ["out-of-reach:invalid-master"]
    from_public = bool(case["public"])
    texts, items = [], []
    for comp in case["comps"]:
        if from_public:
            comp = [[lo, w, 0, sp] for lo, w, _h, sp in comp]
        t, it = _component_text_and_items(comp)
        texts.append(t)
        items.append(it)
    s = "/".join(texts)
    expansion = _product(items)
    node = net.keys.bip32_seed(seed)
    if from_public:
        node = node.public_copy()
        ref0 = ref0.public()
    # ".pub" after a last component that is a single index (the form subkey_for_path understands): the public nodes
    pub_suffix = bool(case.get("pub_suffix")) and len(case["comps"][-1]) == 1 and case["comps"][-1][0][1] == 1
    if pub_suffix:
        s += ".pub"
    got = list(node.subkeys(s))
    if len(got) != len(expansion):
        _bad("bip32:ranges:count", "subkeys(%r) yields %d keys, the range denotes %d paths" % (s, len(got), len(expansion)))
    cache = {}
    for g, p in zip(got, expansion):
        ref = ref0
        for d in range(len(p)):
            key = tuple(p[:d + 1])
            if key not in cache:
                i, h = p[d]
                cache[key] = R.derive(ref, [i + (HARD if h else 0)])[0]
            ref = cache[key]
            if ref is None:
                return ["out-of-reach:invalid-child"]
        if pub_suffix:
            ref = ref.public()
        compare("ranges", g, ref, vers, "subkeys(%r) element for path %s (seed %s, %s, %s)" % (
            s, "/".join("%d%s" % (i, "H" if h else "") for i, h in p), case["seed"], code, "public" if from_public else "private"))
    labels = ["keys=%d" % min(len(expansion), 16), "from-public" if from_public else "from-private", "components=%d" % len(case["comps"])]
    if pub_suffix:
        labels.append(".pub-suffix")
    if any(len(c) > 1 for c in case["comps"]):
        labels.append("comma-list")
    if any(w > 1 for c in case["comps"] for _lo, w, _h, _sp in c):
        labels.append("dash-range")
    if any(w > 1 and h for c in case["comps"] for _lo, w, h, _sp in c) and not from_public:
        labels.append("hardened-range")
    return labels


def s_ranges():
    item = st.tuples(st.one_of(st.integers(0, 12), indices()), st.sampled_from([1, 1, 2, 3, 5]), st.sampled_from([0, 0, 1]),
                     st.integers(0, 2)).map(list)
    single = st.tuples(indices(), st.just(1), st.sampled_from([0, 0, 1]), st.integers(0, 2)).map(lambda t: [list(t)])
    multi = st.lists(item, min_size=1, max_size=3)

    def bound(comps):
        """keep the expansion <= 12 paths: once the product is used up, later components fall back to their first index"""
        out, prod = [], 1
        for comp in comps:
            width = sum(it[1] for it in comp)
            if prod * width > 12:
                comp = [[comp[0][0], 1, comp[0][2], comp[0][3]]]
                width = 1
            prod *= width
            out.append(comp)
        return out
    return st.fixed_dictionaries({
        "net": st.sampled_from(NETCODES), "seed": seeds(), "public": st.sampled_from([0, 0, 1]), "pub_suffix": st.sampled_from([0, 0, 1]),
        "comps": st.lists(st.one_of(single, multi, multi), min_size=1, max_size=4).map(bound)})


# ---------------------------------------------------------------------------------------------------------------
# 4. Electrum (v1) deterministic wallets: public/private commutation


def o_electrum(case):
    net = NET(case["net"])
    if case["seed"] is not None:
        k = R.electrum_stretch(case["seed"])
        if not 0 < k < R.N:
            return ["out-of-reach:invalid-master"]
        prv = net.keys.electrum_seed(seed=case["seed"])
        if prv.secret_exponent() != k:
            _bad("electrum:seed-stretch", "master private key from seed %r is %r, reference %d" % (case["seed"], prv.secret_exponent(), k))
    else:
        k = case["k"]
        prv = net.keys.electrum_private(master_private_key=k)
    K = R.point(k)
    mpk = R.electrum_mpk(K)
    pub_a = prv.public_copy()
    pub_b = net.keys.electrum_public(master_public_key=mpk)
    if prv.master_public_key() != mpk or pub_a.master_public_key() != mpk or pub_b.master_public_key() != mpk:
        _bad("electrum:master-public-key", "master_public_key() differs from x||y of k*G for k=%d" % k)
    if pub_a.secret_exponent() is not None or pub_b.secret_exponent() is not None:
        _bad("electrum:public-copy-keeps-secret", "public wallet has a secret exponent (k=%d)" % k)
    labels = ["from-seed" if case["seed"] is not None else "from-key"]
    for n, ch in case["children"]:
        path = "%d" % n if ch is None else "%d/%d" % (n, ch)
        chv = 0 if ch is None else ch
        ck = R.electrum_child_priv(k, n, chv)
        cK = R.electrum_child_pub(K, n, chv)
        assert R.point(ck) == cK, "reference Electrum sequences do not commute"
        c_prv = prv.subkey(path)
        got = {"private": c_prv, "public_copy": pub_a.subkey(path), "public": pub_b.subkey_for_path(path)}
        if c_prv.secret_exponent() != ck:
            _bad("electrum:private-child!=ref", "subkey(%r) of k=%d: secret exponent %r, reference %d" % (path, k, c_prv.secret_exponent(), ck))
        for name, node in got.items():
            if tuple(node.public_pair()) != tuple(c_prv.public_pair()):
                _bad("electrum:public-private-commutation", "subkey(%r) of k=%d: %s wallet gives %r, private wallet %r" % (
                    path, k, name, tuple(node.public_pair()), tuple(c_prv.public_pair())))
            if tuple(node.public_pair()) != cK:
                _bad("electrum:public-child!=ref", "subkey(%r) of k=%d via %s wallet: %r, reference %r" % (path, k, name, tuple(node.public_pair()), cK))
            if name != "private" and node.secret_exponent() is not None:
                _bad("electrum:public-child-has-secret", "subkey(%r) of a public wallet has a secret exponent" % path)
        labels.append("path=K" if ch is None else "path=K/N")
    # ranges through subkeys()
    lo, w, clo, cw = case["range"]
    rs = "%d-%d/%d-%d" % (lo, lo + w - 1, clo, clo + cw - 1)
    a = [tuple(x.public_pair()) for x in prv.subkeys(rs)]
    b = [tuple(x.public_pair()) for x in pub_b.subkeys(rs)]
    exp = [R.electrum_child_pub(K, n, c) for n in range(lo, lo + w) for c in range(clo, clo + cw)]
    if a != b:
        _bad("electrum:public-private-commutation", "subkeys(%r) of k=%d differ between private and public wallet" % (rs, k))
    if a != exp:
        _bad("electrum:public-child!=ref", "subkeys(%r) of k=%d differ from the reference sequence" % (rs, k))
    labels.append("range-keys=%d" % len(exp))
    return labels


def s_electrum():
    child = st.tuples(st.one_of(st.integers(0, 30), st.integers(0, 2**31 - 1), st.integers(0, 10**12)),
                      st.one_of(st.none(), st.integers(0, 1), st.integers(0, 1000))).map(list)
    hexseed = st.text(alphabet="0123456789abcdef", min_size=32, max_size=32)
    from_key = st.builds(lambda k: (k, None), common.scalars())
    from_seed = st.builds(lambda s: (None, s), hexseed)
    which = st.integers(0, 9).flatmap(lambda w: from_seed if w == 0 else from_key)
    return st.builds(lambda net, ks, children, rng: {"net": net, "k": ks[0], "seed": ks[1], "children": children, "range": rng},
                     st.sampled_from(NETCODES), which, st.lists(child, min_size=1, max_size=4),
                     st.tuples(st.integers(0, 1000), st.integers(1, 3), st.integers(0, 1), st.integers(1, 2)).map(list))


# ---------------------------------------------------------------------------------------------------------------
# 5. history: long-lived nodes with their sub-key caches vs fresh nodes and the reference


def o_history(case):
    setup = case["setup"]
    code = setup["net"]
    net = NET(code)
    vers = versions(code, "bip32")
    seed = bytes.fromhex(setup["seed"])
    ref = R.master(seed)
    if ref is None:
        return ["out-of-reach:invalid-master"]
    node = net.keys.bip32_seed(seed)
    for i, h, _sp in setup["base"]:
        ref = R.ckd_priv(ref, i + (HARD if h else 0))
        if ref is None:
            return ["out-of-reach:invalid-child"]
        node = node.subkey(i=i, is_hardened=bool(h))
    pool = setup["pool"]
    live = [(node, ref), (node.public_copy(), ref.public())]       # long-lived: their caches persist across ops
    seen = {}
    labels = set()
    nops = 0
    for op in case["ops"]:
        sel, isel, h, mode, keep = op
        idx = sel % len(live)
        parent, pref = live[idx]
        i = pool[isel % len(pool)]
        h = bool(h)
        where = "op %d: live[%d](%s, depth %d).subkey(i=%d, is_hardened=%r" % (
            nops, idx, "private" if pref.k is not None else "public", pref.depth, i, h)
        nops += 1
        if pref.depth >= 255:
            continue
        if pref.k is None:
            if h:
                expect_refusal("history", lambda: parent.subkey(i=i, is_hardened=True), where + ")")
                labels.add("refused-hardened-from-public")
                continue
            as_private = [None, False, None][mode % 3]
            rchild = R.ckd_pub(pref, i)
            exp = rchild
        else:
            as_private = [None, True, False][mode % 3]
            rchild = R.ckd_priv(pref, i + (HARD if h else 0))
            exp = rchild if as_private in (None, True) else (rchild.public() if rchild is not None else None)
        if exp is None:
            return ["out-of-reach:invalid-child"]
        where += ", as_private=%r)" % (as_private,)
        kw = {} if as_private is None else {"as_private": as_private}
        got = parent.subkey(i=i, is_hardened=h, **kw)
        compare("history", got, exp, vers, where + " on the long-lived node")
        # the same derivation on a fresh node (empty cache), rebuilt from the reference's text
        fresh_parent = net.parse.bip32(R.text(pref, pref.k is not None, vers[0] if pref.k is not None else vers[1]))
        if fresh_parent is None:
            _bad("bip32:parse:valid-text-refused", "parse.bip32 refused the reference text of the parent at " + where)
        fresh = fresh_parent.subkey(i=i, is_hardened=h, **kw)
        for a_priv in ((True, False) if exp.k is not None else (False,)):
            if got.hwif(as_private=a_priv) != fresh.hwif(as_private=a_priv):
                _bad("bip32:history:cached!=fresh", "%s: long-lived node gives %s, a fresh node %s" % (
                    where, got.hwif(as_private=a_priv), fresh.hwif(as_private=a_priv)))
        key = (idx, i, h)
        prev = seen.setdefault(key, set())
        if prev:
            labels.add("repeat-same-child")
            if (exp.k is None) not in prev:
                labels.add("repeat-other-privacy")
        prev.add(exp.k is None)
        labels.add("private-parent" if pref.k is not None else "public-parent")
        if exp.depth >= 2:
            labels.add("depth>=2")
        if keep and len(live) < 8:
            live.append((got, exp))
            labels.add("grew-live-set")
    labels.add("ops=%s" % ("0" if nops == 0 else "1-4" if nops < 5 else "5-12" if nops < 13 else "13+"))
    return sorted(labels)


def nt_history(case, labels):
    return "repeat-same-child" in labels


def s_history():
    op = st.tuples(st.integers(0, 7), st.integers(0, 3), st.sampled_from([0, 0, 1]), st.integers(0, 2), st.booleans()).map(
        lambda t: [t[0], t[1], t[2], t[3], int(t[4])])
    setup = st.fixed_dictionaries({
        "net": st.sampled_from(NETCODES), "seed": seeds(), "base": st.lists(path_elems(), max_size=2),
        "pool": st.lists(indices(), min_size=1, max_size=3)})
    return st.fixed_dictionaries({"setup": setup, "ops": st.lists(op, min_size=3, max_size=24)})


# ---------------------------------------------------------------------------------------------------------------

SUBCHECKS = [
    SubCheck("path_nodes", o_path_nodes, strategy=s_path_nodes, budget=(1600, 60000), nontrivial=nt_path,
             rule="seed 1-64 bytes x path of depth 0-8 (indices from {0,1,2,2^24-1,2^24,2^31-1,...} and uniform, hardened or not, "
                  "spelled H/p/') x non-Groestl network: every node on the path == reference in secret exponent, public pair, chain "
                  "code, depth, parent fingerprint, child number, fingerprint, hwif private/public; subkey_for_path(text) and .pub; "
                  "non-hardened suffix re-derived from public_copy(); hardened from public raises. "
                  "Non-trivial = depth >= 2 or an index >= 2^24 or a hardened->normal transition"),
    SubCheck("text_roundtrip", o_text_roundtrip, strategy=s_text_roundtrip, budget=(2400, 80000),
             rule="arbitrary extended keys (any k incl. leading zero bytes, chain code, depth 0-255, parent fingerprint, child "
                  "number 0..2^32-1, private or public) serialised by the reference under the network's bip32/bip49/bip84 version "
                  "bytes: parse.<kind>, <kind>_prv, <kind>_pub return a node equal in every field whose hwif is the same text; one "
                  "child derived from the parsed node == reference (or refused: hardened from public)"),
    SubCheck("fingerprint_twins", o_twins, strategy=s_twins, budget=(240, 10000), nontrivial=lambda c, l: "derived" in l,
             rule="two different keys with equal BIP32 fingerprints (16 pairs of small secret exponents found by enumeration), given the same "
                  "chain code, depth, parent fingerprint and child number, parsed from their xprv / xpub texts; the same 1-3 children are derived "
                  "from one and then from the other: every field of every node equals the reference for its own key"),
    SubCheck("il_zero_prefix", o_il_zero, cases=cases_il_zero, exhaustive=True, nontrivial=lambda c, l: True,
             rule="the 7 (parent, child index) pairs of a 2^27-child search whose HMAC-SHA512 output begins with three zero bytes, on BTC / XTN / "
                  "LTC: the child derived from the private parent, from the parsed public parent and from the public copy equals the reference"),
    SubCheck("range_spellings", o_ranges, strategy=s_ranges, budget=(600, 20000),
             nontrivial=lambda c, l: "dash-range" in l or "comma-list" in l,
             rule="subkeys(range text) with 1-4 components made of items n, lo-hi, comma lists, hardening marks H/p/' on items and "
                  "ranges, from a private master or its public copy: number, order and every field of the yielded keys == "
                  "reference expansion (<= 12 paths). Non-trivial = has a dash range or a comma list"),
    SubCheck("electrum", o_electrum, strategy=s_electrum, budget=(400, 15000),
             rule="Electrum v1 wallets from a master private key (boundary+uniform) or a 32-hex seed: subkey('K'), ('K/N'), "
                  "subkeys('a-b/c-d') on the private wallet, its public_copy() and an electrum_public wallet built from x||y "
                  "agree with each other and with the reference sequence"),
    SubCheck("subkey_cache_history", o_history, strategy=s_history, budget=(500, 20000), nontrivial=nt_history,
             rule="op lists (0-24 ops) on one long-lived private node and its public copy (and kept descendants): "
                  "subkey(i from a pool of 1-3 indices, hardened?, as_private None/True/False) in generated order with repeats; "
                  "after every op the result == reference and == the same call on a fresh node parsed from the reference text; "
                  "hardened from public must raise. Non-trivial = some (node, index, hardened) asked more than once"),
    SubCheck("path_nodes_pure_python", subproc.pure_python_variant("checks.c09_bip32", "o_path_nodes"), strategy=s_path_nodes,
             budget=(64, 4000), nontrivial=nt_path,
             rule="the path_nodes cases evaluated in a child interpreter started with PYCOIN_NATIVE=none (pure-Python point "
                  "arithmetic, asserted by the child)"),
]
