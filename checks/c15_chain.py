"""C15 - Header-chain tracking reports a heaviest chain whatever the arrival order.

A case is a history {"kind", "forest", "labels", "ops"} interpreted step by step against oracles/refchain.py:

  forest  [[parent, weight], ...]   node i (1-based); parent 0 = initial anchor, -1/-2 = never-delivered hashes,
                                    j >= 1 = node j
  labels  one distinct positive int per node; the block hash is the int itself (kind "int") or the 32-byte
          SHA256 of it (kind "bytes") - ChainFinder merges in set-iteration order, so the labelling matters
  ops     ["d", [i, ...]]   deliver that batch (node numbers taken modulo N; duplicates allowed)
          ["l", k]          lock_to_index(k mod (length+1))
          ["dall"]          deliver every header of the forest again, in node order
          ["dunlocked"]     deliver every header that is not locked, in node order
"""
import hashlib
import itertools

from hypothesis import strategies as st

from oracles import refchain
from vlib import core
from vlib.core import SubCheck, Violation

from pycoin.blockchain.BlockChain import BlockChain

PROPERTY = "C15"
ASSUMPTIONS = ["oracles/refchain.py (max-weight parent-linked chain below the anchor; validity predicate, ties allowed)",
               "header weights are positive integers (block difficulty); weight 0 excluded",
               "lock_to_index(k) is only called with 0 <= k <= length()",
               "PYTHONHASHSEED=0 (set iteration order of 32-byte hashes is then reproducible)"]
CONFIGURATIONS = ["hashes as small ints", "hashes as 32-byte strings", "fresh BlockChain + own unlocked_block_storage per history"]
UNEXPLORED = ["preload_locked_blocks", "did_lock_to_index_f callback", "N > 12 headers", "weight 0 / non-integer weights"]

# Named deviations: confirmed root causes that corrupt the tracker's state from some step on.  The step that triggers
# one is recognised while the history is replayed; every violation at or after that step carries the buckets of all
# triggers seen so far (the runner excludes a case only if *all* of them are listed known findings), violations
# before it - and in histories without a trigger - keep their own specific bucket.  A deviation is only switched on
# while it is listed with status "known" in known_findings/C15.json: once it is fixed its trigger pattern is an
# ordinary history again and whatever goes wrong there is reported under its own bucket.
TAINT_LOCKED_TIP = "add_headers:locked-tip-redelivered-detaches-chain"
TAINT_SAME_BATCH = "meld:waiting-orphans-not-attached-when-parent-and-its-new-descendant-share-a-batch"
TAINT_LOCK_FLIP = "lock_to_index:switches-to-a-tied-chain-without-ops"


class Header(object):
    __slots__ = ("_hash", "previous_block_hash", "difficulty")

    def __init__(self, h, parent, weight):
        self._hash = h
        self.previous_block_hash = parent
        self.difficulty = weight

    def hash(self):
        return self._hash

    def __repr__(self):
        return "H(%s)" % show(self._hash)


def show(h):
    return h.hex()[:8] if isinstance(h, bytes) else repr(h)


def _mkhash(kind, label):
    """label: node label (positive int), 0 = anchor, negative = unknown root"""
    if kind == "int":
        return label if label >= 0 else 10 ** 9 - label
    if label == 0:
        return b"\0" * 32
    return hashlib.sha256(b"C15:%d" % label).digest()


def _bad(bucket, msg, trace):
    raise Violation(bucket, msg + " || history so far: " + "; ".join(trace))


def _descends(hdr, ancestor_hash, by_hash, known):
    """is ancestor_hash reached from hdr by walking up through headers that are in `known`"""
    p = hdr.previous_block_hash
    while p in by_hash:
        if p == ancestor_hash:
            return True
        if p not in known:
            return False
        p = by_hash[p].previous_block_hash
    return False


def _reraise(ex):
    raise ex


def _stale_top(bc):
    """ChainFinder invariant (pycoin/blockchain/ChainFinder.py): every tree in trees_from_bottom runs from a leaf up to
    a hash that is *not* a known header.  Used only to attribute a failure to the right known finding; if the
    attributes are renamed the answer is 'yes' (the history-level trigger alone then decides)."""
    cf = getattr(bc, "chain_finder", None)
    trees = getattr(cf, "trees_from_bottom", None)
    known = getattr(cf, "parent_lookup", None)
    if trees is None or known is None:
        return True
    return any(t and t[-1] in known for t in trees.values())


def o_history(case):
    kind, forest, labels = case["kind"], case["forest"], case["labels"]
    n = len(forest)
    assert len(labels) >= n and len(set(labels[:n])) == n and all(x > 0 for x in labels[:n])

    def node_hash(i):          # i: 0 anchor, <0 unknown, >=1 node
        return _mkhash(kind, labels[i - 1] if i >= 1 else i)

    anchor0 = node_hash(0)
    # "wscale": every weight is that much larger (2^53, 2^64, ...): chains of equal length then differ in total weight by
    # less than one part in 2^53, so the choice between them is only right in exact integer arithmetic
    wscale = case.get("wscale", 0)
    if wscale:
        forest = [[p, w + wscale] for p, w in forest]
    hdrs = [Header(node_hash(i + 1), node_hash(forest[i][0]), forest[i][1]) for i in range(n)]
    by_hash = dict((h.hash(), h) for h in hdrs)
    name = dict((h.hash(), "n%d" % (i + 1)) for i, h in enumerate(hdrs))
    name[anchor0] = "A"

    def nm(h):
        return name.get(h, "?" + show(h))

    bc = BlockChain(parent_hash=anchor0, unlocked_block_storage={})
    cb_log = []
    # "fresh": every delivery hands over newly made header objects (equal content) that the harness does not keep, the
    # way a peer connection parses each announcement into new objects; a re-delivered header is then a different object
    fresh = bool(case.get("fresh"))

    def fresh_copies(items):
        if not fresh:
            return iter(items)
        return (Header(h._hash, h.previous_block_hash, h.difficulty) for h in items)

    def callback(chain, ops):
        cb_log.append(list(ops))
    # "listeners": other parties registered callbacks of their own before this one and went away later (the registry only
    # keeps weak references); whoever is still listening keeps receiving every change
    extra = []
    for j in range(case.get("listeners", 0)):
        extra.append(lambda chain, ops, _j=j: None)
        bc.add_change_callback(extra[-1])
    bc.add_change_callback(callback)

    model = refchain.Model(anchor0)
    shadow = refchain.Shadow()
    labs = set()
    trace = []
    active = core.known_buckets(PROPERTY)
    taints = []

    def taint(bucket):
        if bucket in active and bucket not in taints:
            taints.append(bucket)

    def bad(bucket, msg):
        _bad(tuple(taints) or bucket, msg, trace)

    def guarded(f, *args):
        """exceptions escaping from pycoin are crash violations (classified by the runner); once the state is known
        to be corrupted by a recognised trigger they are attributed to that trigger instead"""
        try:
            return f(*args)
        except Violation:
            raise
        except Exception as ex:
            if not taints:
                raise
            _bad(tuple(taints), "%s: %s" % (type(ex).__name__, ex), trace)

    def reported():
        ln = bc.length()
        return [bc.hash_for_index(i) for i in range(ln)]

    def verify(after):
        chain = reported()
        nl = len(model.locked)
        if chain[:nl] != model.locked:
            bad("chain:locked-prefix-changed", "after %s the reported chain %s does not start with the locked blocks %s" % (
                after, [nm(h) for h in chain], [nm(h) for h in model.locked]))
        verdict = model.judge(chain[nl:])
        if verdict is not None:
            bad("chain:" + verdict[0], "after %s reported chain %s (locked %d): %s" % (
                after, [nm(h) for h in chain], nl, verdict[1]))
        if shadow.items != chain:
            bad("ops:replayed-list-differs-from-chain", "after %s the replayed ops give %s but the reported chain is %s" % (
                after, [nm(h) for h in shadow.items], [nm(h) for h in chain]))
        # lookups
        if bc.locked_length() != nl or bc.unlocked_length() != len(chain) - nl:
            bad("lookup:lengths", "locked_length %d unlocked_length %d, expected %d and %d" % (
                bc.locked_length(), bc.unlocked_length(), nl, len(chain) - nl))
        pos = dict((h, i) for i, h in enumerate(chain))
        for h in hdrs:
            got = bc.index_for_hash(h.hash())
            if got != pos.get(h.hash()):
                bad("lookup:index_for_hash", "after %s index_for_hash(%s) = %r but the chain is %s" % (
                    after, nm(h.hash()), got, [nm(x) for x in chain]))
        for i, h in enumerate(chain):
            want = (h, model.headers[h][0], model.headers[h][1])
            got = tuple(bc.tuple_for_index(i))
            if got != want:
                bad("lookup:tuple_for_index", "after %s tuple_for_index(%d) = %r, expected %r" % (after, i, got, want))
            # counted from the tip (the form last_block_hash itself uses): -1 is the tip, -len the first block
            got = tuple(bc.tuple_for_index(i - len(chain)))
            if got != want or bc.hash_for_index(i - len(chain)) != h:
                bad("lookup:tuple_for_index:negative", "after %s tuple_for_index(%d) = %r, expected %r (chain of %d, %d locked)" % (
                    after, i - len(chain), got, want, len(chain), len(model.locked)))
        last = bc.last_block_hash()
        if last != (chain[-1] if chain else anchor0):
            bad("lookup:last_block_hash", "after %s last_block_hash() = %s, chain %s" % (after, nm(last), [nm(x) for x in chain]))
        return chain

    had_lock = False
    for op in case["ops"]:
        if op[0] == "l":
            before = guarded(verify, "pre-lock read")
            k = op[1] % (len(before) + 1)
            trace.append("lock_to_index(%d)" % k)
            nl = len(model.locked)
            guarded(bc.lock_to_index, k)
            if k > nl:
                model.lock(before[nl:k])
                labs.add("lock-effective")
                if k == len(before):
                    labs.add("lock-whole-chain")
                had_lock = True
            else:
                labs.add("lock-noop")
            after = guarded(reported)
            if after == before:
                guarded(verify, "lock_to_index(%d)" % k)
            else:
                # The property speaks about the state after each *delivery*, so a chain that changes at the lock is
                # not reported here.  If it is still a valid answer (another maximal chain) the step is remembered as
                # the root cause of whatever the next delivery shows (no ops were emitted for the switch).
                if after[:len(model.locked)] != model.locked or model.judge(after[len(model.locked):]) is not None:
                    bad("lock:chain-became-invalid", "lock_to_index(%d) changed the reported chain from %s to %s" % (
                        k, [nm(x) for x in before], [nm(x) for x in after]))
                labs.add("lock-switched-tied-chain")
                trace.append("(chain switched from %s to %s at the lock)" % ([nm(x) for x in before], [nm(x) for x in after]))
                taint(TAINT_LOCK_FLIP)
            continue
        if op[0] == "d":
            batch = [hdrs[(j - 1) % n] for j in op[1]]
        elif op[0] == "dall":
            batch = list(hdrs)
        elif op[0] == "dunlocked":
            lk = set(model.locked)
            batch = [h for h in hdrs if h.hash() not in lk]
        else:
            raise AssertionError("unknown op %r" % (op,))
        trace.append("deliver[%s]" % ",".join("%s<-%s w%d" % (nm(h.hash()), nm(h.previous_block_hash), h.difficulty) for h in batch))
        # ---- classification of the batch (labels only)
        bh = [h.hash() for h in batch]
        if len(set(bh)) < len(bh):
            labs.add("dup-within-batch")
        if any(x in model.headers for x in bh):
            labs.add("redelivered")
        if any(x in model.locked for x in bh):
            labs.add("locked-redelivered")
        if model.locked and model.anchor in bh:
            labs.add("locked-tip-redelivered")
            taint(TAINT_LOCKED_TIP)
        new = [h for h in batch if h.hash() not in model.headers]
        newset = set(h.hash() for h in new)
        known_now = newset | set(model.headers)
        same_batch_trigger = False
        for h in new:
            waiting = [c for c in model.children.get(h.hash(), [])]
            if waiting:
                labs.add("orphan-connected")
                if any(_descends(o, h.hash(), by_hash, known_now) for o in new if o is not h):
                    labs.add("waiting-orphan+new-descendant-same-batch")
                    same_batch_trigger = True
        if had_lock and new:
            labs.add("new-header-after-lock")
        if extra and cb_log:
            import gc
            del extra[:]
            gc.collect()
            labs.add("earlier-listener-gone")
        # ---- the delivery
        ncb = len(cb_log)
        try:
            if case.get("lazy") and (len(cb_log) + len(batch)) % 2 == 0:
                # the batch arrives as a stream whose producer looks at the tracker between headers (a sync loop that
                # logs its progress): reading the chain while a delivery is being consumed must not change the outcome
                def stream(items=batch):
                    for k, h in enumerate(fresh_copies(items)):
                        if k % 2 == 0:
                            bc.length()
                            bc.last_block_hash()
                        else:
                            if bc.length() > 0:
                                bc.hash_for_index(0)
                            bc.index_for_hash(h.hash())
                        yield h
                ops = bc.add_headers(stream())
                labs.add("lazy-batch-reading-the-chain")
            else:
                ops = bc.add_headers(fresh_copies(batch))
        except Exception as ex:
            ops = ex
        if same_batch_trigger and _stale_top(bc):
            # whether the merge went wrong depends on set order; it did iff some tree now ends at a known header
            labs.add("same-batch-merge-left-a-stale-tree")
            taint(TAINT_SAME_BATCH)
        if isinstance(ops, Exception):
            guarded(_reraise, ops)
        model.deliver((h.hash(), h.previous_block_hash, h.difficulty) for h in batch)
        new_cb = cb_log[ncb:]
        if not ops and not new_cb:
            pass        # nothing changed and nobody was called: the statement only speaks of the operations that are sent
        elif len(new_cb) != 1 or [tuple(o) for o in new_cb[0]] != [tuple(o) for o in ops]:
            bad("ops:callback-differs", "callback received %r, add_headers returned %r" % (new_cb, ops))
        kinds = set()
        for o in ops:
            if len(o) != 3 or o[1] is None or not hasattr(o[1], "hash"):
                bad("ops:malformed", "op %r" % (o,))
            err = shadow.apply(o[0], o[1].hash(), o[2])
            if err is not None:
                bad("ops:" + err[0], "%s (ops %s)" % (err[1], [(x[0], nm(x[1].hash()), x[2]) for x in ops]))
            kinds.add(o[0])
        if kinds == {"add", "remove"}:
            labs.add("reorg")
        elif kinds == {"remove"}:
            labs.add("ops-remove-only")
        elif not kinds:
            labs.add("ops-empty")
        guarded(verify, "deliver")
        if len(model.best_chains()) > 1:
            labs.add("tie")
        if fresh:
            # nothing here keeps a delivered object alive: the tracker owns them, as with headers parsed off the wire
            cb_log[ncb:] = [None] * (len(cb_log) - ncb)
            ops = new_cb = o = None
            labs.add("fresh-object-per-delivery")
    labs.add("kind=" + kind)
    if wscale:
        labs.add("weights>=2^53")
    labs.add("n<=3" if n <= 3 else "n4-8" if n <= 8 else "n9-12")
    if -1 in [f[0] for f in forest] or -2 in [f[0] for f in forest]:
        labs.add("has-unknown-root")
    final = guarded(reported)
    labs.add("final-len=%s" % (len(final) if len(final) < 4 else "4-7" if len(final) < 8 else "8+"))
    if len(model.headers) > len(final) and final:
        labs.add("fork-or-orphan-left-over")
    return sorted(labs)


def nt_history(case, labels):
    return "orphan-connected" in labels or "reorg" in labels


# ------------------------------------------------------------------------------------------ exhaustive domains


def _batches(perm, comp):
    out = []
    i = 0
    for ln in comp:
        out.append(["d", list(perm[i:i + ln])])
        i += ln
    return out


def _labellings(n, kinds):
    """(kind, labels): ints 1..n (set order = numeric order), ints 3, 11, 19, .. (all in one slot of a small set's
    table, so set order follows insertion history), 32-byte strings"""
    for k in kinds:
        if k == "int8":
            yield "int", [8 * i + 3 for i in range(n)]
        else:
            yield k, list(range(1, n + 1))


def cases_exhaustive(tier):
    """all parent functions x weights x delivery permutations x partitions into consecutive batches"""
    plan = [(1, (1, 2, 3)), (2, (1, 2, 3)), (3, (1, 2, 3))]
    if tier != "quick":
        plan.append((4, (1, 2)))
    for n, wts in plan:
        perms = list(itertools.permutations(range(1, n + 1)))
        comps = list(refchain.compositions(n))
        for pf in refchain.parent_functions(n):
            for ws in itertools.product(wts, repeat=n):
                forest = [[pf[i], ws[i]] for i in range(n)]
                for perm in perms:
                    for comp in comps:
                        ops = _batches(perm, comp)
                        for kind, labels in _labellings(n, ("int", "int8", "bytes")):
                            yield {"kind": kind, "forest": forest, "labels": labels, "ops": ops}


def cases_exhaustive_lock(tier):
    """as above with one lock_to_index(k) after any batch, k = 1..N, then everything again / all unlocked headers
    again"""
    # (no "nothing afterwards" variant: the state is checked after every op, so it is a prefix of the other two)
    plan = [(1, (1, 2), ("int", "int8", "bytes"), ("dall", "dunlocked")),
            (2, (1, 2), ("int", "int8", "bytes"), ("dall", "dunlocked")),
            (3, (1, 2), ("int", "int8") if tier == "quick" else ("int", "int8", "bytes"), ("dall", "dunlocked"))]
    if tier != "quick":
        plan.append((4, (1, 2), ("int",), ("dall",)))
    for n, wts, kinds, finals in plan:
        perms = list(itertools.permutations(range(1, n + 1)))
        comps = list(refchain.compositions(n))
        for pf in refchain.parent_functions(n):
            for ws in itertools.product(wts, repeat=n):
                forest = [[pf[i], ws[i]] for i in range(n)]
                for perm in perms:
                    for comp in comps:
                        base = _batches(perm, comp)
                        for at in range(1, len(base) + 1):
                            for k in range(1, n + 1):
                                for fin in finals:
                                    ops = base[:at] + [["l", k]] + base[at:] + ([[fin]] if fin else [])
                                    for kind, labels in _labellings(n, kinds):
                                        yield {"kind": kind, "forest": forest, "labels": labels, "ops": ops}


# ------------------------------------------------------------------------------------------ generated histories


# realistic difficulties are far above 2^53: with such an offset on every weight, competing chains of equal length differ
# by less than double precision resolves
WSCALES = st.sampled_from([0, 0, 0, 0, 2**53 - 2, 2**53, 2**56 + 1, 2**64, 2**80 + 7])


@st.composite
def s_history(draw):
    n = draw(st.one_of(st.integers(1, 12), st.integers(4, 12)))
    # the inserted ops are drawn before the bulky parts: Hypothesis fills the tail of many examples with minimal
    # choices, which would otherwise leave most histories without locks / re-deliveries
    extra = st.one_of(
        st.tuples(st.just("l"), st.integers(1, 3)).map(list),
        st.tuples(st.just("l"), st.integers(0, 13)).map(list),
        st.lists(st.integers(1, n), min_size=1, max_size=4).map(lambda l: ["d", l]),
        st.sampled_from([["dall"], ["dunlocked"]]),
    )
    extras = draw(st.lists(st.tuples(st.integers(0, 30), extra), max_size=6))
    forest = []
    for i in range(1, n + 1):
        mode = draw(st.integers(0, 5))
        if mode <= 2:
            p = i - 1                                   # extend the previous node (long chains)
        elif mode == 3:
            p = draw(st.integers(max(0, i - 4), i - 1))  # fork a little further up
        elif mode == 4:
            p = draw(st.integers(0, i - 1))             # anywhere earlier, or the anchor
        else:
            p = draw(st.sampled_from([-1, -2, 0]))      # orphan root / second root at the anchor
        forest.append([p, draw(st.integers(1, 4))])
    kind = draw(st.sampled_from(["int", "bytes"]))
    labels = draw(st.lists(st.integers(1, 40) if kind == "int" else st.integers(1, 10 ** 6),
                           min_size=n, max_size=n, unique=True))
    # (children-first is the simplest draw: when Hypothesis minimises the tail, orphans still get connected later)
    perm = draw(st.permutations(list(range(n, 0, -1))))
    keep = draw(st.one_of(st.just(n), st.integers(1, n)))
    perm = perm[:keep]
    cuts = draw(st.lists(st.booleans(), min_size=len(perm) - 1, max_size=len(perm) - 1))
    ops = []
    cur = [perm[0]]
    for j, c in zip(perm[1:], cuts):
        if not c:
            ops.append(["d", cur])
            cur = [j]
        else:
            cur.append(j)
    ops.append(["d", cur])
    for pos, e in extras:
        ops.insert(len(ops) - pos % (len(ops) + 1), e)      # pos 0 = after everything delivered so far
    case = {"kind": kind, "forest": forest, "labels": labels, "ops": ops}
    wscale = draw(WSCALES)
    if wscale:
        case["wscale"] = wscale
    if draw(st.integers(0, 3)) == 0:
        case["lazy"] = True
    if draw(st.integers(0, 2)) == 0:
        case["fresh"] = True
    if draw(st.integers(0, 3)) == 0:
        case["listeners"] = draw(st.integers(1, 3))
    return case


@st.composite
def s_lock_scenario(draw):
    """competing chains are delivered (so both have been weighed), a prefix is locked below the fork point, and then
    the remaining headers arrive one batch at a time: the choice between the old tips and the new ones must still be
    by weight above the anchor"""
    main_len = draw(st.integers(3, 8))
    forest = [[i, draw(st.integers(1, 4))] for i in range(0, main_len)]          # node i+1 extends node i (0 = anchor)
    nforks = draw(st.integers(1, 3))
    fork_nodes = []
    for _ in range(nforks):
        at = draw(st.integers(1, main_len - 1))                                  # fork off main-chain node `at`
        flen = draw(st.integers(1, 3))
        parent = at
        for _j in range(flen):
            forest.append([parent, draw(st.integers(1, 4))])
            parent = len(forest)
            fork_nodes.append(parent)
    n = len(forest)
    kind = draw(st.sampled_from(["int", "bytes"]))
    labels = draw(st.lists(st.integers(1, 40) if kind == "int" else st.integers(1, 10 ** 6), min_size=n, max_size=n, unique=True))
    held_main = draw(st.integers(1, min(3, main_len - 2)))                       # main-chain tail delivered after the lock
    held_fork = draw(st.lists(st.sampled_from(fork_nodes), max_size=2, unique=True))
    first = [i for i in range(1, n + 1) if i <= main_len - held_main or (i > main_len and i not in held_fork)]
    first = draw(st.permutations(first))
    ops = [["d", list(first)]] if draw(st.booleans()) else [["d", [x]] for x in first]
    ops.append(["l", draw(st.integers(1, main_len - held_main))])
    later = [i for i in range(1, n + 1) if i not in first]
    later = draw(st.permutations(later))
    for x in later:
        ops.append(["d", [x]])
    if draw(st.booleans()):
        ops.append(["dall"])
    case = {"kind": kind, "forest": forest, "labels": labels, "ops": ops}
    wscale = draw(WSCALES)
    if wscale:
        case["wscale"] = wscale
    if draw(st.integers(0, 2)) == 0:
        case["fresh"] = True
    return case


@st.composite
def s_long_chain(draw):
    """chains a few hundred headers long (indices and lengths beyond one byte / beyond 256): delivered in a few large
    batches, a lock near index 256, then a heavier fork close to the tip, then everything again"""
    deep = draw(st.integers(0, 2)) == 0
    if deep:
        # a reorganisation many blocks deep: the two branches part below a delivered header (not the anchor) and are each
        # 33 .. 90 headers long, the new one one header longer or heavier by one unit
        stem = draw(st.sampled_from([1, 1, 2, 5, 40]))
        old = draw(st.one_of(st.integers(30, 90), st.sampled_from([31, 32, 33, 34, 36, 37, 42, 45, 54, 61, 63, 64, 65, 78, 79])))
        L = stem + old
        forest = [[i, 1] for i in range(L)]
        at = stem
        flen = old + draw(st.sampled_from([1, 1, 2, 0]))
    else:
        L = draw(st.sampled_from([250, 254, 255, 256, 257, 258, 300]))
        forest = [[i, 1] for i in range(L)]
        at = L - draw(st.integers(1, 4))
        flen = draw(st.integers(2, 6))
    parent = at
    fork = []
    for _j in range(flen):
        forest.append([parent, draw(st.integers(1, 2)) if not deep else (2 if _j == 0 else 1)])
        parent = len(forest)
        fork.append(parent)
    n = len(forest)
    labels = list(range(1, n + 1))
    cut = draw(st.integers(100, L - 5)) if L > 110 else draw(st.integers(1, L - 1))
    main = list(range(1, L + 1))
    if draw(st.booleans()):
        ops = [["d", main[:cut]], ["d", main[cut:]]]
    else:
        ops = [["d", main[cut:]], ["d", main[:cut]]]          # the tail arrives first, as orphans
    if not deep:
        ops.append(["l", draw(st.sampled_from([253, 254, 255, 256, 257, 258, L - 6]))])
    ops.append(["d", fork] if draw(st.booleans()) else ["d", fork[::-1]])
    if draw(st.booleans()):
        ops.append(["dunlocked"])
    return {"kind": draw(st.sampled_from(["int", "bytes"])), "forest": forest, "labels": labels, "ops": ops}


SUBCHECKS = [
    SubCheck("long_chains", o_history, strategy=s_long_chain, budget=(96, 3000), nontrivial=nt_history,
             rule="a main chain of 250-300 unit-weight headers delivered in two large batches (in order, or the tail first as orphans), "
                  "lock_to_index at 253..258, then a 2-6 header fork of weight 1-2 per header starting 1-4 headers below the tip; the "
                  "same invariants after every operation (indices, lengths and batch sizes beyond 256); one case in three is instead a deep "
                  "reorganisation: a 1-40 header stem, then two branches of 30-91 headers each, the later one heavier"),
    SubCheck("lock_then_extend", o_history, strategy=s_lock_scenario, budget=(3000, 100000), nontrivial=nt_history,
             rule="a main chain of 3-8 headers with 1-3 forks (weights 1-4): everything but the last 1-3 main-chain headers (and "
                  "up to 2 fork headers) is delivered, a prefix is locked, then the held-back headers arrive one per batch; same "
                  "invariants after every delivery; non-trivial = orphan later connected or reorg"),
    SubCheck("exhaustive_small_forests", o_history, cases=cases_exhaustive, exhaustive=True, nontrivial=nt_history,
             rule="every acyclic parent function on N<=3 (thorough: 4) headers (parents: anchor, unknown, other node) x weights "
                  "{1,2,3}^N (N=4: {1,2}^4) x every delivery permutation x every partition into consecutive batches x hashes as "
                  "ints (1..N and 3,11,19.. which share a set slot) / 32-byte strings; after each delivery: chain valid+maximal, lookups, ops replay, callback; "
                  "non-trivial = an orphan later connected or a reorganisation"),
    SubCheck("exhaustive_with_lock", o_history, cases=cases_exhaustive_lock, exhaustive=True, nontrivial=nt_history,
             rule="the same domain with weights {1,2}, one lock_to_index(k), k=1..N, inserted after any batch, and finally "
                  "all headers delivered again / all unlocked headers delivered again (quick: N=3 without the 32-byte labelling; "
                  "thorough N=4: ints, all-again only)"),
    SubCheck("generated_histories", o_history, strategy=s_history, budget=(6000, 150000), nontrivial=nt_history,
             rule="forests of 1-12 headers (chains, forks, orphan roots; weights 1-4; relabelled hashes, ints or 32-byte strings), "
                  "a random delivery permutation cut into batches (possibly incomplete) plus up to 6 inserted ops: lock_to_index, "
                  "re-delivery of arbitrary headers incl. duplicates and locked ones; non-trivial = orphan later connected or reorg"),
]
