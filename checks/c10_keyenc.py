"""C10 - Key and signature encodings (WIF, SEC, DER) are lossless and strict."""
import functools

from hypothesis import strategies as st

from gen.common import SECP_N, SECP_P, boundary_ints, patterned_256, scalars
from oracles import refec, refenc, refhash
from vlib.core import SubCheck, Violation

from pycoin.encoding.sec import sec_to_public_pair
from pycoin.key.Key import InvalidPublicPairError, InvalidSecretExponentError
from pycoin.networks.registry import network_codes, network_for_netcode
from pycoin.satoshi import der

from gen import subproc

PROPERTY = "C10"
CURVE = refec.SECP256K1
P, N = SECP_P, SECP_N
GRS_LIKE = ("GRS", "TGRS", "GRSRT")
NET_CODES = [c for c in sorted(network_codes()) if c not in GRS_LIKE]
NETS = {c: network_for_netcode(c) for c in NET_CODES}


@functools.lru_cache(maxsize=None)
def _key_class(code):
    """the network's Key subclass (a constant of the tree under test; cached, evaluated inside oracles so that a crash
    here is attributed to pycoin, not to the harness)"""
    return type(NETS[code].keys.private(1))


@functools.lru_cache(maxsize=None)
def _wif_prefix_of_d1(code):
    wif = NETS[code].keys.private(1).wif()
    payload = refenc.b58check_decode(wif)
    if payload is None or len(payload) < 34:
        _bad("wif:text-not-prefix+exponent+flag", "%s wif of d=1 is %r" % (code, wif))
    return payload[:-33]
# published version bytes (WIF, P2PKH) for the networks where I have an independent source
PUBLISHED_PREFIXES = {"BTC": ("80", "00"), "XTN": ("ef", "6f"), "LTC": ("b0", "30"), "DOGE": ("9e", "1e"), "DASH": ("cc", "4c"),
                      "BCH": ("80", "00"), "XRT": ("ef", "6f"), "DCR": ("22de", "073f")}

ASSUMPTIONS = [
    "oracles/refec.py secp256k1 arithmetic (calibrated on G, 2G, 3G, nG) gives the public point for an exponent",
    "oracles/refenc.py Base58Check, strict SEC (02/03/04 only, x,y < p, on curve, exact length) and minimal DER; hashlib for hash160",
    "WIF / P2PKH version bytes are checked against published values for BTC, XTN, XRT, LTC, DOGE, DASH, BCH, DCR; for the other "
    "networks only the structure (prefix || 32-byte exponent || [01]; prefix || hash160) and constancy of the prefix are checked",
    "a refusal of a SEC blob is any ValueError (EncodingError, NoSuchPointError, InvalidPublicPairError are all subclasses); "
    "a refusal of a DER blob in strict mode is UnexpectedDER or ValueError (what Key.verify and the script VM catch)",
    "DER: the property demands only that strict decoding refuses trailing bytes; other malformations that strict mode lets "
    "through (over-long declared sequence length, negative or non-minimal integers) and the TypeError raised on truncated "
    "blobs are counted in labels, not judged (see triage/C10.md)",
]
CONFIGURATIONS = ["%d networks: %s" % (len(NET_CODES), " ".join(NET_CODES)),
                  "secp256k1 generator with OpenSSL acceleration (the only backend importable here)",
                  "strict mode only for sec_to_public_pair (the default used by Key.from_sec / keys.public)"]
UNEXPLORED = ["GRS, TGRS, GRSRT: Base58 forms need the groestlcoin_hash C module, which is not installed",
              "libsecp256k1 backend", "non-strict SEC parsing (strict=False; used by the script VM, see C03)",
              "DER integers above 2^256 (r, s are always below the group order)"]


def _bad(b, m):
    raise Violation(b, m)


def _pub(d):
    return CURVE.mul_fast(d, CURVE.G)


def _d_class(d):
    if d in (1, 2, N - 1, N - 2):
        return "d=edge"
    if d < (1 << 128):
        return "d=small"
    return "d=large"


def _first_x_with_point(x0):
    x = x0 % P
    while True:
        ys = CURVE.ys_for_x(x)
        if ys:
            return x, ys
        x = (x + 1) % P


def _first_x_without_point(x0):
    x = x0 % P
    while CURVE.ys_for_x(x):
        x = (x + 1) % P
    return x


def _small_y_point(y0):
    """a curve point whose ordinate is a small integer >= y0 (so that y + p still fits in 32 bytes): x = cuberoot(y^2 - 7),
    using p = 7 mod 9"""
    y = max(1, y0)
    while True:
        c = (y * y - 7) % P
        if pow(c, (P - 1) // 3, P) == 1:
            x = pow(c, (P + 2) // 9, P)
            if pow(x, 3, P) == c:
                assert CURVE.on_curve((x, y))
                return x, y
        y += 1


# ------------------------------------------------------------------ (a) WIF


def o_wif(case):
    net = NETS[case["net"]]
    d, comp = case["d"], case["compressed"]
    run = None
    if case.get("run"):
        # an exponent chosen so that the WIF text has a run of one digit at an aligned group of positions
        from gen.common import b58_digit_run_data
        pfx = _wif_prefix_of_d1(case["net"])
        data = b58_digit_run_data(pfx, 32, b"\x01" if comp else b"", *case["run"])
        if data is not None and 1 <= int.from_bytes(data[len(pfx):len(pfx) + 32], "big") < N:
            d = int.from_bytes(data[len(pfx):len(pfx) + 32], "big")
            run = case["run"]
    key = net.keys.private(d, is_compressed=comp)
    pt = _pub(d)
    if tuple(key.public_pair()) != pt:
        _bad("key:public-pair!=d*G", "keys.private(%#x).public_pair() differs from the reference d*G" % d)
    labels = ["net-has-published-prefix" if case["net"] in PUBLISHED_PREFIXES else "net-structure-only", _d_class(d),
              "compressed" if comp else "uncompressed"] + (["wif-digit-run:width=%d" % run[0]] if run else [])
    for flag in (comp, not comp):
        wif = key.wif() if flag == comp else key.wif(is_compressed=flag)
        payload = refenc.b58check_decode(wif)
        tail = d.to_bytes(32, "big") + (b"\x01" if flag else b"")
        if payload is None or not payload.endswith(tail) or not (1 <= len(payload) - len(tail) <= 2):
            _bad("wif:text-not-prefix+exponent+flag", "%s wif for d=%#x compressed=%r is %r; Base58Check payload %s" % (
                case["net"], d, flag, wif, None if payload is None else payload.hex()))
        prefix = payload[:len(payload) - len(tail)]
        if case["net"] in PUBLISHED_PREFIXES and prefix.hex() != PUBLISHED_PREFIXES[case["net"]][0]:
            _bad("wif:wrong-version-byte", "%s WIF version %s, published %s" % (case["net"], prefix.hex(), PUBLISHED_PREFIXES[case["net"]][0]))
        ref_prefix = _wif_prefix_of_d1(case["net"])
        if prefix != ref_prefix:
            _bad("wif:prefix-not-constant", "%s WIF prefix %s for d=%#x but %s for d=1" % (case["net"], prefix.hex(), d, ref_prefix.hex()))
        if wif != refenc.b58check_encode(prefix + tail):
            _bad("wif:text!=base58check", "%s wif %r is not the Base58Check form of %s" % (case["net"], wif, (prefix + tail).hex()))
        # strictness of the text: the same WIF with one digit written as a character that is NOT a Base58 digit but would
        # read as the same value under a careless table (its character code equals the digit value; value -1 after a
        # carry; a look-alike) is not a WIF
        _B58 = "123456789ABCDEFGHJKLMNPQRSTUVWXYZabcdefghijkmnopqrstuvwxyz"
        aliases = []
        for i, ch in enumerate(wif[1:], 1):
            v = _B58.index(ch)
            if 32 <= v <= 48 and len(aliases) < 6:
                aliases.append(wif[:i] + chr(v) + wif[i + 1:])
            if ch == "z" and wif[i - 1] != "z" and i >= 2 and len(aliases) < 8:
                aliases.append(wif[:i - 1] + _B58[_B58.index(wif[i - 1]) + 1] + "0" + wif[i + 1:])
        for bad_text in aliases:
            if net.parse.wif(bad_text) is not None:
                _bad("wif:text-with-non-base58-character-accepted", "%s parse.wif(%r) accepted; it is %r with one digit written as a "
                     "character outside the Base58 alphabet" % (case["net"], bad_text, wif))
        k2 = net.parse.wif(wif)
        if k2 is None:
            _bad("wif:own-output-not-parsed", "%s parse.wif(%r) is None (d=%#x compressed=%r)" % (case["net"], wif, d, flag))
        sec = refenc.sec_encode(pt[0], pt[1], flag)
        h160 = refhash.hash160(sec)
        if k2.secret_exponent() != d:
            _bad("wif:roundtrip-exponent", "%s parse.wif(wif(d=%#x, compressed=%r)).secret_exponent() = %#x" % (case["net"], d, flag, k2.secret_exponent()))
        if k2.is_compressed() != flag:
            _bad("wif:roundtrip-compression-flag", "%s parse.wif(%r).is_compressed() = %r, want %r" % (case["net"], wif, k2.is_compressed(), flag))
        if k2.sec() != sec or key.sec(is_compressed=flag) != sec:
            _bad("wif:roundtrip-sec", "%s sec after WIF round trip %s, reference %s" % (case["net"], k2.sec().hex(), sec.hex()))
        if k2.hash160() != h160 or key.hash160(is_compressed=flag) != h160:
            _bad("wif:roundtrip-hash160", "%s hash160 after WIF round trip %s / %s, reference %s" % (
                case["net"], k2.hash160().hex(), key.hash160(is_compressed=flag).hex(), h160.hex()))
        addr = key.address(is_compressed=flag)
        if k2.address() != addr:
            _bad("wif:roundtrip-address", "%s address %r before, %r after WIF round trip" % (case["net"], addr, k2.address()))
        ap = refenc.b58check_decode(addr)
        if ap is None or ap[-20:] != h160 or not (1 <= len(ap) - 20 <= 2):
            _bad("address:not-prefix+hash160", "%s address %r payload %s, hash160 %s" % (case["net"], addr, None if ap is None else ap.hex(), h160.hex()))
        if case["net"] in PUBLISHED_PREFIXES and ap[:-20].hex() != PUBLISHED_PREFIXES[case["net"]][1]:
            _bad("address:wrong-version-byte", "%s P2PKH version %s, published %s" % (case["net"], ap[:-20].hex(), PUBLISHED_PREFIXES[case["net"]][1]))
        if k2.wif() != wif:
            _bad("wif:roundtrip-text", "%s wif(parse.wif(%r)) = %r" % (case["net"], wif, k2.wif()))
    return labels


def nt_wif(case, labels):
    d = case["d"]
    return d < 2**16 or d > N - 2**16 or d.bit_length() % 8 == 0 or (d >> 248) == 0


EDGE_D = [1, 2, 0xff, 0x100, 2**128, 2**248 - 1, 2**248, 2**255, N - 2, N - 1]


def cases_wif_all_networks(tier):
    for code in NET_CODES:
        for i, d in enumerate(EDGE_D):
            yield {"net": code, "d": d, "compressed": bool(i % 2)}
            if d in (1, N - 1):
                yield {"net": code, "d": d, "compressed": not bool(i % 2)}


def b58_runs():
    """(width, group index, digit value, seed) of a run of equal Base58 digits at aligned positions of a checksummed text"""
    return st.tuples(st.sampled_from([10, 10, 10, 8, 9, 11, 12, 4, 5, 16]), st.integers(0, 3), st.sampled_from([0, 0, 0, 57, 1, 33]),
                     st.integers(0, 10**6)).map(list)


def s_wif():
    from gen.common import weighted
    return st.fixed_dictionaries({"net": st.sampled_from(NET_CODES), "d": scalars(), "compressed": st.booleans(),
                                  "run": weighted((7, st.none()), (1, b58_runs()))})


# ------------------------------------------------------------------ (b) SEC round trip


def o_sec_roundtrip(case):
    net = NETS[case["net"]]
    if "d" in case:
        x, y = _pub(case["d"])
    else:
        x, ys = _first_x_with_point(case["x0"])
        y = ys[case["odd"] % len(ys)]
    comp = case["compressed"]
    if x % 4 == 0:
        _other_curve_first(refenc.sec_encode(x, y, True))
    key = net.keys.public((x, y), is_compressed=comp)
    labels = ["x-leading-zero-byte" if x < (1 << 248) else "x-full", "y-odd" if y & 1 else "y-even",
              "y-leading-zero-byte" if y < (1 << 248) else "y-full", "from=" + ("d" if "d" in case else "x")]
    for flag in (True, False):
        ref = refenc.sec_encode(x, y, flag)
        got = key.sec(is_compressed=flag)
        if got != ref or (flag == comp and key.sec() != ref):
            _bad("sec:encode!=ref", "sec(compressed=%r) of (%#x, %#x) = %s, reference %s" % (flag, x, y, got.hex(), ref.hex()))
        # the text form of the SEC as the key itself writes it (with the network's own tag, with or without a colon) read back
        t = key.sec_as_hex(is_compressed=flag)
        back = net.parse.sec(t)
        if back is None or tuple(back.public_pair()) != (x, y) or bool(back.is_compressed()) != flag:
            _bad("sec:own-text-not-read-back", "%s parse.sec(%r) = %r (pair %s compressed=%s expected)" % (
                case["net"], t, None if back is None else (tuple(back.public_pair()), back.is_compressed()), (x, y), flag))
        for how, mk in (("keys.public", net.keys.public), ("Key.from_sec", type(key).from_sec)):
            k2 = mk(ref)
            if tuple(k2.public_pair()) != (x, y):
                _bad("sec:roundtrip-pair", "%s(%s).public_pair() = %r" % (how, ref.hex(), tuple(k2.public_pair())))
            if k2.is_compressed() != flag:
                _bad("sec:roundtrip-compression-flag", "%s(%s).is_compressed() = %r" % (how, ref.hex(), k2.is_compressed()))
            h160 = refhash.hash160(ref)
            if k2.hash160() != h160 or key.hash160(is_compressed=flag) != h160:
                _bad("sec:roundtrip-hash160", "hash160 via %s(%s) = %s, reference %s" % (how, ref.hex(), k2.hash160().hex(), h160.hex()))
            if k2.address() != key.address(is_compressed=flag):
                _bad("sec:roundtrip-address", "address via %s = %r, via public pair %r" % (how, k2.address(), key.address(is_compressed=flag)))
            if k2.sec() != ref:
                _bad("sec:roundtrip-bytes", "%s(%s).sec() = %s" % (how, ref.hex(), k2.sec().hex()))
        if tuple(sec_to_public_pair(ref, net.generator)) != (x, y):
            _bad("sec:roundtrip-pair", "sec_to_public_pair(%s) = %r" % (ref.hex(), tuple(sec_to_public_pair(ref, net.generator))))
    return labels


def _special_y_xs():
    """abscissas of the curve points whose ORDINATE is tiny or just below p (y = 1, p - 1, 4, p - 4, ...): x^3 = y^2 - 7 has
    either no or three solutions (p = 7 mod 9, so a cube root of a is a^((p+2)/9) when a is a cubic residue)"""
    w = next(pow(g, (P - 1) // 3, P) for g in range(2, 50) if pow(g, (P - 1) // 3, P) != 1)
    out = []
    for y in range(1, 60):
        a = (y * y - 7) % P
        r = pow(a, (P + 2) // 9, P)
        if pow(r, 3, P) == a:
            out += [r, r * w % P, r * w * w % P]
    return sorted(set(out))


SPECIAL_Y_XS = _special_y_xs()


def s_sec_roundtrip():
    xs = st.one_of(st.integers(0, 2**32), st.integers(0, 2**248), boundary_ints(0, P - 1), patterned_256().map(lambda v: v % P),
                   st.sampled_from(SPECIAL_Y_XS))
    by_x = st.builds(lambda net, x0, odd, c: {"net": net, "x0": x0, "odd": odd, "compressed": c},
                     st.sampled_from(NET_CODES), xs, st.integers(0, 1), st.booleans())
    by_d = st.builds(lambda net, d, c: {"net": net, "d": d, "compressed": c}, st.sampled_from(NET_CODES), scalars(), st.booleans())
    return st.one_of(by_x, by_x, by_d)


# ------------------------------------------------------------------ (c) SEC strictness


def _analyse_blob(blob):
    """labels describing a candidate blob, and the reason (if any) the strict reference refuses it"""
    n = len(blob)
    pre = blob[0] if n else None
    labels = ["len=%s" % (n if n in (0, 33, 65) else "32,34" if n in (32, 34) else "64,66" if n in (64, 66) else "other"),
              "prefix=%s" % ("none" if pre is None else "02-03" if pre in (2, 3) else "04" if pre == 4 else "06-07" if pre in (6, 7) else
                             "00,01,05" if pre in (0, 1, 5) else "other")]
    ref = refenc.sec_decode_strict(blob, P, 0, 7)
    if ref is not None:
        return labels + ["ref=accept"], ref, None
    reason = "bad-length-or-prefix"
    if n == 33 and pre in (2, 3):
        x = int.from_bytes(blob[1:], "big")
        reason = "x>=p" if x >= P else "no-point"
    elif n == 65 and pre == 4:
        x = int.from_bytes(blob[1:33], "big")
        y = int.from_bytes(blob[33:], "big")
        reason = "x>=p" if x >= P else "y>=p" if y >= P else "off-curve"
    elif n == 65 and pre in (6, 7):
        reason = "hybrid-prefix"
    elif n in (33, 65):
        reason = "bad-prefix"
    else:
        reason = "bad-length"
    return labels + ["ref=reject:" + reason], None, reason


def _other_curve_first(blob):
    """the same bytes are first offered to the SEC decoder of another curve (secp256r1), whatever comes of it: work done
    for one curve must not colour what a key of another curve decodes to"""
    from pycoin.ecdsa.secp256r1 import secp256r1_generator
    try:
        sec_to_public_pair(blob, secp256r1_generator)
    except Exception:      # noqa - the outcome on the other curve is not under test
        pass
    if len(blob) >= 33:
        try:
            secp256r1_generator.points_for_x(int.from_bytes(blob[1:33], "big"))
        except Exception:  # noqa
            pass


def o_sec_strict(case):
    blob = bytes.fromhex(case["blob"])
    if len(blob) % 4 == 1 and blob[-1] % 4 == 0:       # one blob in four of the usual lengths (33 / 65 bytes)
        _other_curve_first(blob)
    net = NETS[case.get("net", "BTC")]
    labels, ref, reason = _analyse_blob(blob)
    KeyClass = _key_class(case.get("net", "BTC"))
    for how, mk in (("keys.public", net.keys.public), ("Key.from_sec", KeyClass.from_sec)):
        try:
            k = mk(blob)
        except ValueError:      # EncodingError, NoSuchPointError, InvalidPublicPairError
            k = None
        if ref is None:
            if k is not None:
                _bad("sec:%s-accepted" % reason, "%s(%s) returns a key with pair (%#x, %#x), address %s; the strict SEC rule refuses the blob (%s)" % (
                    how, case["blob"], k.public_pair()[0], k.public_pair()[1], k.address(), reason))
            continue
        x, y, comp = ref
        if k is None:
            _bad("sec:valid-refused", "%s(%s) refuses the unique encoding of (%#x, %#x)" % (how, case["blob"], x, y))
        if tuple(k.public_pair()) != (x, y):
            _bad("sec:wrong-pair", "%s(%s).public_pair() = %r, reference (%#x, %#x)" % (how, case["blob"], tuple(k.public_pair()), x, y))
        if k.is_compressed() != comp:
            _bad("sec:wrong-compression-flag", "%s(%s).is_compressed() = %r" % (how, case["blob"], k.is_compressed()))
        if k.sec() != blob:
            _bad("sec:reencode-differs", "%s(%s).sec() = %s" % (how, case["blob"], k.sec().hex()))
    return labels


def nt_sec_strict(case, labels):
    return not any(l in ("ref=reject:bad-length",) for l in labels)


def s_sec_blobs():
    small_x = st.integers(0, 2**32 + 900).map(lambda x0: _first_x_with_point(x0))          # x + p fits in 32 bytes
    any_x = st.one_of(boundary_ints(0, P - 1), patterned_256().map(lambda v: v % P)).map(lambda x0: _first_x_with_point(x0))
    valid = st.one_of(small_x, any_x, any_x)

    def b32(v):
        return (v % (1 << 256)).to_bytes(32, "big")

    def compressed(pt, prefix, xkind, x0):
        x, ys = pt
        if xkind == "valid":
            xx = x
        elif xkind == "plus-p":
            xx = x + P if x + P < (1 << 256) else x
        elif xkind == "no-point":
            xx = _first_x_without_point(x)
        else:
            xx = {"zero": 0, "p-1": P - 1, "p": P, "p+1": P + 1, "max": (1 << 256) - 1}[xkind]
        pre = prefix if prefix is not None else 2 + (x0 & 1)
        return bytes([pre]) + b32(xx)

    def uncompressed(pt, prefix, xkind, ykind, which):
        x, ys = pt
        y = ys[which % len(ys)]
        xx = x + P if (xkind == "plus-p" and x + P < (1 << 256)) else x
        if ykind == "correct":
            yy = y
        elif ykind == "negated":
            yy = (P - y) % P
        elif ykind == "off-curve":
            yy = (y + 1) % P
        elif ykind == "zero":
            yy = 0
        else:
            yy = y
        pre = prefix if prefix is not None else 4
        return bytes([pre]) + b32(xx) + b32(yy)

    def small_y(y0, prefix, plus_p, negate):
        x, y = _small_y_point(y0)
        yy = y + P if plus_p else y
        if negate and not plus_p:
            yy = P - y
        return bytes([prefix if prefix is not None else 4]) + b32(x) + b32(yy)

    prefix = st.one_of(st.none(), st.none(), st.integers(0, 7), st.integers(0, 255))
    xk = st.sampled_from(["valid", "valid", "valid", "plus-p", "plus-p", "no-point", "zero", "p-1", "p", "p+1", "max"])
    yk = st.sampled_from(["correct", "correct", "negated", "off-curve", "zero"])
    comp = st.builds(compressed, valid, prefix, xk, st.integers(0, 1))
    comp_small = st.builds(compressed, small_x, prefix, st.sampled_from(["valid", "plus-p", "plus-p"]), st.integers(0, 1))
    unc = st.builds(uncompressed, valid, prefix, st.sampled_from(["valid", "valid", "plus-p"]), yk, st.integers(0, 1))
    unc_small = st.builds(uncompressed, small_x, prefix, st.just("plus-p"), yk, st.integers(0, 1))
    unc_small_y = st.builds(small_y, st.integers(1, 2**32), prefix, st.booleans(), st.booleans())
    good = st.one_of(comp, comp_small, unc, unc_small, unc_small_y)

    def relen(blob, mode, k, fill):
        if mode == "cut":
            return blob[:max(0, len(blob) - 1 - k % 3)]
        if mode == "extend":
            return blob + bytes([fill]) * (1 + k % 3)
        if mode == "drop-prefix":
            return blob[1:]
        return blob
    wrong_len = st.builds(relen, good, st.sampled_from(["cut", "extend", "drop-prefix"]), st.integers(0, 5), st.integers(0, 255))
    raw = st.one_of(st.binary(max_size=70), st.builds(lambda p, b: bytes([p]) + b, st.integers(0, 7), st.binary(min_size=32, max_size=32)),
                    st.builds(lambda p, b: bytes([p]) + b, st.integers(0, 7), st.binary(min_size=64, max_size=64)))
    blobs = st.one_of(good, good, good, wrong_len, raw)
    return st.builds(lambda b, net: {"blob": b.hex(), "net": net}, blobs, st.sampled_from(["BTC", "BTC", "XTN", "LTC", "DOGE", "BCH"]))


# ------------------------------------------------------------------ (d) construction


def _show_int(v):
    """hex rendering (decimal conversion of integers beyond 4300 digits is refused by the interpreter)"""
    return "%#x" % v if abs(v) < 2**300 else "%s2**%d+.." % ("-" if v < 0 else "", abs(v).bit_length() - 1)


def o_construct(case):
    net = NETS[case["net"]]
    kind = case["kind"]
    if kind == "exponent":
        d = case["d"]
        if isinstance(d, list):
            d = d[0] * (d[1] ** d[2] + d[3])
        valid = 1 <= d <= N - 1
        try:
            k = net.keys.private(d, is_compressed=case.get("compressed", True))
            err = None
        except InvalidSecretExponentError:
            k, err = None, "InvalidSecretExponentError"
        except InvalidPublicPairError:
            k, err = None, "InvalidPublicPairError"
        if valid and k is None:
            _bad("exponent:valid-refused", "%s keys.private(%#x) raised %s" % (case["net"], d, err))
        if not valid and err != "InvalidSecretExponentError":
            _bad("exponent:out-of-range-" + ("accepted" if k is not None else "wrong-error"),
                 "%s keys.private(%s) (outside [1, n-1]) %s; InvalidSecretExponentError is the documented refusal" % (
                     case["net"], _show_int(d), "returned a key" if k is not None else "raised " + err))
        if abs(d) >= 2**300:
            # astronomically large integers are only offered as integers (their decimal text is beyond the interpreter's
            # int-to-str digit limit, and no text form can carry them)
            return ["exponent:" + ("huge-positive" if d > 0 else "huge-negative")]
        # the same exponent arriving inside a WIF
        if 0 <= d < (1 << 256):
            wif_prefix = _wif_prefix_of_d1(case["net"])
            text = refenc.b58check_encode(wif_prefix + d.to_bytes(32, "big") + (b"\x01" if case.get("compressed", True) else b""))
            try:
                k2 = net.parse.wif(text)
                err2 = None
            except InvalidSecretExponentError:
                k2, err2 = None, "InvalidSecretExponentError"
            if valid and (k2 is None or k2.secret_exponent() != d):
                _bad("wif:valid-refused", "%s parse.wif(%r) for d=%#x -> %r %s" % (case["net"], text, d, k2, err2))
            if not valid and k2 is not None:
                _bad("wif:out-of-range-exponent-accepted", "%s parse.wif(%r) carries exponent %d and returns %r" % (case["net"], text, d, k2))
        try:
            k3 = net.parse.secret_exponent(str(d))
        except InvalidSecretExponentError:
            k3 = None
        if not valid and k3 is not None:
            _bad("parse.secret_exponent:out-of-range-accepted", "%s parse.secret_exponent(%r) returns %r" % (case["net"], str(d), k3))
        if valid and (k3 is None or k3.secret_exponent() != d):
            _bad("parse.secret_exponent:valid-refused", "%s parse.secret_exponent(%r) -> %r" % (case["net"], str(d), k3))
        return ["exponent:" + ("valid" if valid else "zero" if d == 0 else "negative" if d < 0 else "n" if d == N else ">n")]
    # public pairs
    if kind == "pair-none":
        pair = [(None, None), (case["x"] % P, None), (None, case["x"] % P)][case["which"] % 3]
        want_ok = False
        label = "pair:None-coordinate"
    else:
        x, ys = _first_x_with_point(case["x"])
        y = ys[case["which"] % len(ys)]
        if kind == "pair-on-curve":
            pair, want_ok, label = (x, y), True, "pair:on-curve"
        elif kind == "pair-off-curve-y":
            pair, want_ok, label = (x, (y + 1 + case["delta"] % (P - 2)) % P), False, "pair:off-curve"
            while CURVE.on_curve(pair):
                pair = (x, (pair[1] + 1) % P)
        elif kind == "pair-unreduced":
            # a coordinate plus the field prime: satisfies the curve equation modulo p but is not a field element
            x2, ys2 = _first_x_with_point(case["x"] % (2**32))          # small x so that x + p < 2^256
            y2 = ys2[case["which"] % len(ys2)]
            pair = [(x2 + P, y2), (x2, y2 + P), (x2 + P, y2 + P), (x2 - P, y2), (x2, y2 - P)][case["delta"] % 5]
            want_ok, label = False, "pair:unreduced-coordinate"
        elif kind == "pair-foreign-point":
            # the pair arrives as a Point object - of another curve: a perfectly valid point there, off secp256k1
            from pycoin.ecdsa.secp256r1 import secp256r1_generator
            pair = secp256r1_generator * (case["x"] % (2**200) + 1)
            if CURVE.on_curve(tuple(pair)):
                return ["pair:foreign-point-happens-to-be-on-curve"]
            want_ok, label = False, "pair:off-curve-as-Point-object-of-another-curve"
        else:  # pair-no-point-x
            xx = _first_x_without_point(x + 1)
            pair, want_ok, label = (xx, y), False, "pair:off-curve"
    if kind == "pair-on-curve" and case.get("form"):
        # the same on-curve pair handed over as a Point object of the right curve (keys.public takes tuples; a Point is one)
        from pycoin.ecdsa.secp256k1 import secp256k1_generator
        pair_arg = secp256k1_generator.Point(*pair)
        label += ":as-Point"
    else:
        pair_arg = pair
    try:
        k = net.keys.public(pair_arg, is_compressed=case.get("compressed", True))
        err = None
    except InvalidPublicPairError:
        k, err = None, "InvalidPublicPairError"
    except InvalidSecretExponentError:
        k, err = None, "InvalidSecretExponentError"
    if want_ok and (k is None or tuple(k.public_pair()) != pair):
        _bad("pair:valid-refused", "%s keys.public(%r) raised %s" % (case["net"], pair, err))
    if not want_ok and err != "InvalidPublicPairError":
        _bad("pair:off-curve-" + ("accepted" if k is not None else "wrong-error"), "%s keys.public(%r) %s; InvalidPublicPairError is the "
             "documented refusal" % (case["net"], pair, "returned a key" if k is not None else "raised " + str(err)))
    return [label]


# astronomically large values are written [sign, base, exponent, addend] (a case is JSON, and the interpreter refuses to print
# integers of more than 4300 decimal digits)
OUT_OF_RANGE = [0, -1, -2, -N, N, N + 1, N + 2, 2 * N, P, 2**256 - 1, 2**256, 2**256 + 1, 2**300, [1, 2, 4096, 0], [1, 10, 4299, 0],
                [1, 10, 4300, 0], [1, 10, 4301, 7], [-1, 10, 4300, 0], [1, 2, 20000, 1], [-1, 2, 70000, 0]]


def cases_construct(tier):
    for code in NET_CODES:
        for d in OUT_OF_RANGE + [1, N - 1]:
            yield {"net": code, "kind": "exponent", "d": d, "compressed": True}
        for w in range(3):
            yield {"net": code, "kind": "pair-none", "x": 5, "which": w}
        yield {"net": code, "kind": "pair-off-curve-y", "x": 1, "which": 0, "delta": 0}
        yield {"net": code, "kind": "pair-no-point-x", "x": 1, "which": 1, "delta": 0}
        yield {"net": code, "kind": "pair-on-curve", "x": 1, "which": 1, "delta": 0}
        yield {"net": code, "kind": "pair-on-curve", "x": 1, "which": 1, "delta": 0, "form": 2}
        yield {"net": code, "kind": "pair-foreign-point", "x": 4, "which": 0, "delta": 0}


def s_construct():
    exps = st.one_of(st.sampled_from(OUT_OF_RANGE), st.integers(N, 2**256 - 1), st.integers(-2**256, 0), scalars(),
                     st.integers(N - 3, N + 3), st.integers(-3, 3))
    e = st.builds(lambda net, d, c: {"net": net, "kind": "exponent", "d": d, "compressed": c}, st.sampled_from(NET_CODES), exps, st.booleans())
    pk = st.builds(lambda net, kind, x, w, dl, c: {"net": net, "kind": kind, "x": x, "which": w, "delta": dl, "compressed": c},
                   st.sampled_from(NET_CODES), st.sampled_from(["pair-none", "pair-on-curve", "pair-on-curve", "pair-off-curve-y", "pair-off-curve-y", "pair-no-point-x", "pair-unreduced", "pair-foreign-point"]),
                   st.one_of(st.integers(0, 2**32), patterned_256().map(lambda v: v % P)), st.integers(0, 2), st.one_of(st.just(0), st.integers(0, P)),
                   st.booleans())
    pk = st.builds(lambda c, form: dict(c, form=form), pk, st.sampled_from([0, 0, 2]))
    return st.one_of(e, pk)


# ------------------------------------------------------------------ (e) DER


def _der_structure(blob):
    """lenient TLV walk with definite short/long lengths, no value checks.
    -> (kind, detail): 'well-framed', 'trailing-after-sequence', 'trailing-inside-sequence', 'overlong-sequence-length', 'other'"""
    def rdlen(b, i):
        if i >= len(b):
            return None
        f = b[i]
        if f < 0x80:
            return f, i + 1
        k = f & 0x7f
        if k == 0 or i + 1 + k > len(b):
            return None
        return int.from_bytes(b[i + 1:i + 1 + k], "big"), i + 1 + k
    if not blob or blob[0] != 0x30:
        return "other"
    r = rdlen(blob, 1)
    if r is None:
        return "other"
    seqlen, i = r
    end = i + seqlen
    body = blob[i:end]
    j = 0
    for _ in range(2):
        if j >= len(body) or body[j] != 0x02:
            return "other"
        r = rdlen(body, j + 1)
        if r is None:
            return "other"
        ln, j2 = r
        if ln == 0 or j2 + ln > len(body):
            return "other"
        j = j2 + ln
    if j < len(body):
        return "trailing-inside-sequence"
    if end < len(blob):
        return "trailing-after-sequence"
    if end > len(blob):
        return "overlong-sequence-length"
    return "well-framed"


def _strict_decode(blob):
    """-> ('ok', (r, s)) | ('refused', exception name)"""
    try:
        return "ok", der.sigdecode_der(blob, use_broken_open_ssl_mechanism=False)
    except (der.UnexpectedDER, ValueError) as ex:
        return "refused", type(ex).__name__
    except TypeError as ex:
        # ord(b"") in read_length on a blob that ends inside a length field: a refusal, though not a tidy one.
        # The property text asks nothing about the exception type for DER; counted, not judged (triage/C10.md).
        import traceback
        fr = traceback.extract_tb(ex.__traceback__)[-1]
        if fr.name != "read_length" or not fr.filename.endswith("der.py"):
            raise
        return "refused", "TypeError@read_length"


def _top_class(v):
    if v == 0:
        return "zero"
    b = v.to_bytes((v.bit_length() + 7) // 8, "big")
    return "top>=0x80" if b[0] & 0x80 else "top=0x7f" if b[0] == 0x7f else "top<0x7f"


def o_der(case):
    r, s = case["r"], case["s"]
    ref = refenc.der_sig(r, s)
    enc = der.sigencode_der(r, s)
    if enc != ref:
        _bad("der:encode!=minimal-DER", "sigencode_der(%#x, %#x) = %s, minimal DER %s" % (r, s, enc.hex(), ref.hex()))
    for mode in (False, True):
        got = der.sigdecode_der(enc, use_broken_open_ssl_mechanism=mode)
        if tuple(got) != (r, s):
            _bad("der:roundtrip", "sigdecode_der(sigencode_der(%#x, %#x), %r) = %r" % (r, s, mode, got))
    if tuple(der.sigdecode_der(enc)) != (r, s):
        _bad("der:roundtrip", "sigdecode_der(sigencode_der(%#x, %#x)) with default arguments" % (r, s))
    labels = ["r:" + _top_class(r), "s:" + _top_class(s)]
    junk = bytes.fromhex(case.get("junk", ""))
    if junk:
        after = ref + junk
        st_, val = _strict_decode(after)
        if st_ == "ok":
            _bad("der:strict-accepts-trailing-bytes-after-sequence", "strict sigdecode_der(%s) = %r with %d byte(s) after the sequence" % (
                after.hex(), val, len(junk)))
        body = refenc.der_int(r) + refenc.der_int(s) + junk
        if len(body) < 0x80:
            inside = b"\x30" + bytes([len(body)]) + body
        else:
            inside = b"\x30\x81" + bytes([len(body)]) + body
        st_, val = _strict_decode(inside)
        if st_ == "ok":
            _bad("der:strict-accepts-trailing-bytes-inside-sequence", "strict sigdecode_der(%s) = %r with %d byte(s) after s inside the sequence" % (
                inside.hex(), val, len(junk)))
        labels.append("junk=%d" % len(junk))
        if junk[0] == 0x02:
            labels.append("junk-looks-like-integer")
    return labels


def o_key_verify_strict(case):
    """the strictness of DER decoding as the key API applies it: Key.verify accepts the key's own signature and refuses
    the same signature with bytes after the sequence or after s inside the sequence"""
    net = NETS[case["net"]]
    d, h = case["d"], case["h"].to_bytes(32, "big")
    key = net.keys.private(d, is_compressed=bool(case["compressed"]))
    sig = key.sign(h)
    junk = bytes.fromhex(case["junk"])
    labels = ["junk=%d" % len(junk)]
    for name, k in (("private key", key), ("public copy", key.public_copy())):
        if k.verify(h, sig) is not True:
            _bad("key:verify-refuses-own-signature", "%s of d=%#x: verify(h, sign(h)) is not True (sig %s)" % (name, d, sig.hex()))
        got = _strict_decode(sig)
        if got[0] != "ok":
            return labels + ["own-signature-not-strict-DER"]        # judged by der_* sub-checks
        r, s_ = got[1]
        after = sig + junk
        body = refenc.der_int(r) + refenc.der_int(s_) + junk
        inside = b"\x30" + (bytes([len(body)]) if len(body) < 0x80 else b"\x81" + bytes([len(body)])) + body
        for how, blob in (("after the sequence", after), ("after s inside the sequence", inside)):
            try:
                v = k.verify(h, blob)
            except Exception as ex:     # noqa - a refusal by exception is judged by the totality clauses elsewhere
                v = "raised %s" % type(ex).__name__
            if v is True:
                _bad("key:verify-accepts-trailing-bytes", "%s of d=%#x: verify accepts its signature with %d byte(s) %s: %s" % (
                    name, d, len(junk), how, blob.hex()))
    return labels


def s_key_verify_strict():
    return st.fixed_dictionaries({"net": st.sampled_from(NET_CODES), "d": scalars(), "h": st.integers(1, 2**256 - 1),
                                  "compressed": st.sampled_from([0, 1]),
                                  "junk": st.one_of(st.sampled_from(["00", "01", "0201", "020100", "3000", "ff"]), st.binary(min_size=1, max_size=4).map(bytes.hex))})


def nt_der(case, labels):
    return any(l.endswith("top>=0x80") or l.endswith("top=0x7f") or l.endswith("zero") for l in labels)


def der_ints():
    per_len = st.builds(lambda ln, top, rest: int.from_bytes(bytes([top]) + (rest * 32)[:ln - 1], "big"), st.integers(1, 32),
                        st.sampled_from([0x00, 0x01, 0x7e, 0x7f, 0x80, 0x81, 0xff]), st.binary(min_size=1, max_size=31))
    return st.one_of(st.sampled_from([0, 1, 0x7f, 0x80, 0xff, 0x100, N - 1, N, N // 2, N // 2 + 1, P, 2**255, 2**256 - 1]), per_len, per_len,
                     st.integers(0, 2**256 - 1), scalars())


def s_der():
    junk = st.one_of(st.just(b""), st.binary(min_size=1, max_size=4), st.sampled_from([b"\x00", b"\x02\x01\x00", b"\x02\x00", b"\x30", b"\x01"]))
    return st.builds(lambda r, s, j: {"r": r, "s": s, "junk": j.hex()}, der_ints(), der_ints(), junk)


def cases_der_boundaries(tier):
    vals = [0, 2**256 - 1]
    for ln in range(1, 33):
        for top in (0x7f, 0x80):
            vals.append(top << (8 * (ln - 1)))
            vals.append(((top + 1) << (8 * (ln - 1))) - 1)
    for i, r in enumerate(vals):
        yield {"r": r, "s": vals[(i * 7 + 3) % len(vals)], "junk": ["", "00", "0201", "ffffffff"][i % 4]}
        yield {"r": vals[(i * 5 + 1) % len(vals)], "s": r, "junk": ["00", "", "020100", "30"][i % 4]}


def o_der_blob(case):
    """candidate DER blobs of 0..70 bytes: strict decoding must not accept a blob with trailing bytes"""
    blob = bytes.fromhex(case["blob"])
    kind = _der_structure(blob)
    st_, val = _strict_decode(blob)
    if st_ == "ok" and kind.startswith("trailing"):
        _bad("der:strict-accepts-" + ("trailing-bytes-after-sequence" if kind == "trailing-after-sequence" else "trailing-bytes-inside-sequence"),
             "strict sigdecode_der(%s) = %r although the blob has %s" % (case["blob"], val, kind.replace("-", " ")))
    labels = ["frame=" + kind, "strict=" + (st_ if st_ == "ok" else "refused:" + val)]
    if st_ == "ok":
        if kind == "well-framed" and min(val) >= 0 and refenc.der_sig(*val) == blob:
            labels.append("accepted:canonical")
        elif min(val) < 0:
            labels.append("accepted:negative-integer")
        elif kind == "well-framed":
            labels.append("accepted:non-minimal-integer-or-length")
        else:
            labels.append("accepted:" + kind)
    return labels


def s_der_blobs():
    def mutate(r, s, edits, junk, where):
        b = bytearray(refenc.der_sig(r, s))
        for pos, val, mode in edits:
            if not b:
                break
            i = pos % len(b)
            if mode == 0:
                b[i] = val
            elif mode == 1:
                del b[i]
            else:
                b.insert(i, val)
        if where == "after":
            b += junk
        elif where == "cut":
            b = b[:max(0, len(b) - 1 - len(junk))]
        elif where == "seqlen+":
            if len(b) > 1:
                b[1] = (b[1] + 1 + len(junk)) % 128
        return bytes(b[:70])
    small = st.one_of(st.integers(0, 0xffff), der_ints())
    edits = st.lists(st.tuples(st.integers(0, 80), st.integers(0, 255), st.integers(0, 2)), max_size=2)
    m = st.builds(mutate, small, small, edits, st.binary(max_size=4), st.sampled_from(["none", "after", "after", "cut", "seqlen+"]))
    return st.one_of(m, m, m, st.binary(max_size=70)).map(lambda b: {"blob": b.hex()})


# ------------------------------------------------------------------ one long-lived Key object queried in any order


def o_key_history(case):
    """sec / hash160 / address / wif asked of ONE Key object for both compression settings in a generated order (the
    object caches its hash160 per compression setting): every answer depends only on the question"""
    net = NETS[case["net"]]
    d, comp = case["d"], case["compressed"]
    key = net.keys.private(d, is_compressed=comp) if case["private"] else net.keys.public(_pub(d), is_compressed=comp)
    pt = _pub(d)
    labels = ["private" if case["private"] else "public-only"]
    seen = set()
    for step, (what, flag) in enumerate(case["ops"]):
        eff = comp if flag is None else bool(flag)
        sec = refenc.sec_encode(pt[0], pt[1], eff)
        h160 = refhash.hash160(sec)
        kw = {} if flag is None else {"is_compressed": bool(flag)}
        where = "%s d=%#x default-compressed=%r step %d %s(%s) after %s" % (case["net"], d, comp, step, what, kw, case["ops"][:step])
        if what == "sec":
            if key.sec(**kw) != sec:
                _bad("key:history:sec", "%s = %s, reference %s" % (where, key.sec(**kw).hex(), sec.hex()))
        elif what == "hash160":
            if key.hash160(**kw) != h160:
                _bad("key:history:hash160", "%s = %s, reference %s" % (where, key.hash160(**kw).hex(), h160.hex()))
        elif what == "address":
            a = key.address(**kw)
            payload = refenc.b58check_decode(a) if isinstance(a, str) else None
            if payload is None or not payload.endswith(h160) or not 1 <= len(payload) - 20 <= 2:
                _bad("key:history:address", "%s = %r, which does not carry hash160 %s" % (where, a, h160.hex()))
        elif what == "wif" and case["private"]:
            w = key.wif(**kw)
            payload = refenc.b58check_decode(w) if isinstance(w, str) else None
            tail = d.to_bytes(32, "big") + (b"\x01" if eff else b"")
            if payload is None or not payload.endswith(tail):
                _bad("key:history:wif", "%s = %r" % (where, w))
        if (what, eff) in seen or (what, not eff) in seen:
            labels.append("asked-again-or-other-compression")
        seen.add((what, eff))
    return sorted(set(labels))


def s_key_history():
    op = st.tuples(st.sampled_from(["sec", "hash160", "hash160", "address", "wif"]), st.sampled_from([None, True, False])).map(list)
    usable = [c for c in NET_CODES]
    return st.fixed_dictionaries({"net": st.sampled_from(usable), "d": scalars(), "compressed": st.booleans(), "private": st.booleans(),
                                  "ops": st.lists(op, min_size=3, max_size=10)})


SUBCHECKS = [
    SubCheck("key_history", o_key_history, strategy=s_key_history, budget=(1500, 80000),
             nontrivial=lambda c, l: "asked-again-or-other-compression" in l,
             rule="one Key object (private or public-only, any network): 3-10 questions sec / hash160 / address / wif, each with is_compressed None / True / False, in generated order; every answer equals the reference for that compression setting whatever was asked before; non-trivial = a question repeated or asked for the other compression"),
    SubCheck("wif_all_networks", o_wif, cases=cases_wif_all_networks, exhaustive=True, nontrivial=nt_wif,
             rule="every non-Groestl network x exponents {1,2,0xff,0x100,2^128,2^248-1,2^248,2^255,n-2,n-1}: wif text == Base58Check("
                  "prefix||d||[01]) for both flags, parse.wif returns the same exponent, flag, sec, hash160 (vs reference d*G), address"),
    SubCheck("wif_generated", o_wif, strategy=s_wif, budget=(1600, 80000), nontrivial=nt_wif,
             rule="network sampled from all, d boundary/uniform/patterned in [1,n-1], both flags; non-trivial = d within 2^16 of an end, "
                  "or with a leading zero byte, or bit length a multiple of 8"),
    SubCheck("sec_roundtrip", o_sec_roundtrip, strategy=s_sec_roundtrip, budget=(2000, 100000),
             nontrivial=lambda c, l: "x-leading-zero-byte" in l or "y-leading-zero-byte" in l or "from=d" in l,
             rule="curve points from an abscissa search (small x, boundary x, patterned x) or from d*G: sec() both forms == reference, "
                  "keys.public(sec)/Key.from_sec/sec_to_public_pair give back pair and flag, hash160 and address agree"),
    SubCheck("sec_strict", o_sec_strict, strategy=s_sec_blobs, budget=(5000, 300000), nontrivial=nt_sec_strict,
             rule="candidate blobs built from valid points with x in {valid, x+p (fits in 32 bytes), no-point, 0, p-1, p, p+1, 2^256-1}, "
                  "y in {correct, negated, y+p (small-y points), off-curve, 0}, prefix natural / 0..7 / any byte, lengths cut / extended / "
                  "prefix dropped, and raw strings of 0..70 bytes: keys.public / Key.from_sec accept iff the strict reference accepts, "
                  "with the same pair, flag and re-encoding; non-trivial = anything but a plain wrong length"),
    SubCheck("sec_strict_python_O", subproc.optimized_variant("checks.c10_keyenc", "o_sec_strict"), strategy=s_sec_blobs, budget=(500, 20000), nontrivial=nt_sec_strict,
             rule="the sec_strict cases evaluated in a child interpreter started with PYTHONOPTIMIZE=1 (python -O: assert statements are "
                  "compiled away, so validation written as an assert vanishes; the child asserts that mode)"),
    SubCheck("construct_all_networks", o_construct, cases=cases_construct, exhaustive=True,
             rule="every network x exponents {0,-1,-2,-n,n,n+1,n+2,2n,p,2^256-1,2^256,2^256+1,2^300,1,n-1} through keys.private, a WIF "
                  "carrying it, parse.secret_exponent; None coordinates, off-curve pairs, a valid pair through keys.public"),
    SubCheck("construct_generated", o_construct, strategy=s_construct, budget=(1500, 80000),
             rule="generated exponents around 0 and n, above n, negative; public pairs on curve / y perturbed / x without a point / None"),
    SubCheck("construct_python_O", subproc.optimized_variant("checks.c10_keyenc", "o_construct"), strategy=s_construct, budget=(300, 10000),
             rule="the construct_generated cases evaluated in a child interpreter started with PYTHONOPTIMIZE=1 (python -O: assert statements are "
                  "compiled away, so validation written as an assert vanishes; the child asserts that mode)"),
    SubCheck("der_boundaries", o_der, cases=cases_der_boundaries, exhaustive=True, nontrivial=nt_der,
             rule="r, s over {0, 2^256-1, 0x7f.., 0x7fff.., 0x80.., 0x80ff.. at every length 1..32}: sigencode_der == minimal DER, decode in "
                  "both modes returns (r,s); with 0-4 junk bytes appended after the sequence, and inside it after s: strict refuses"),
    SubCheck("der_generated", o_der, strategy=s_der, budget=(5000, 300000), nontrivial=nt_der,
             rule="r, s from per-length top-byte classes, n, n/2, p, uniform; junk of 1-4 bytes incl. bytes that look like a third integer"),
    SubCheck("key_verify_strict", o_key_verify_strict, strategy=s_key_verify_strict, budget=(600, 30000), nontrivial=lambda c, l: True,
             rule="Key.sign / Key.verify on every network's key class: the key and its public copy accept the key's own signature and "
                  "refuse it with 1-4 bytes appended after the sequence or after s inside the (re-lengthed) sequence - the strict-decoding "
                  "clause as the key API applies it"),
    SubCheck("der_blobs", o_der_blob, strategy=s_der_blobs, budget=(5000, 300000),
             nontrivial=lambda c, l: "frame=other" not in l,
             rule="valid encodings with 0-2 byte edits / insertions / deletions, appended junk, cuts, bumped sequence length, and raw "
                  "strings 0..70 bytes: strict decode must refuse whenever a lenient TLV walk finds trailing bytes (after the sequence or "
                  "after s inside it); what else strict mode lets through is histogrammed only"),
    SubCheck("sec_roundtrip_pure_python", subproc.pure_python_variant("checks.c10_keyenc", "o_sec_roundtrip"), strategy=s_sec_roundtrip,
             budget=(160, 6000),
             rule="the sec_roundtrip cases in a child interpreter started with PYCOIN_NATIVE=none (pure-Python point arithmetic, asserted)"),
    SubCheck("sec_strict_pure_python", subproc.pure_python_variant("checks.c10_keyenc", "o_sec_strict"), strategy=s_sec_blobs,
             budget=(320, 12000), nontrivial=nt_sec_strict,
             rule="the sec_strict cases in the same PYCOIN_NATIVE=none child"),
    SubCheck("wif_pure_python", subproc.pure_python_variant("checks.c10_keyenc", "o_wif"), strategy=s_wif, budget=(96, 4000), nontrivial=nt_wif,
             rule="the wif_generated cases (key from secret exponent: SEC, hash160 and address against the reference) in the same PYCOIN_NATIVE=none child"),
    SubCheck("construct_pure_python", subproc.pure_python_variant("checks.c10_keyenc", "o_construct"), strategy=s_construct,
             budget=(160, 6000),
             rule="the construct_generated cases in the same PYCOIN_NATIVE=none child"),
]

# thorough tier: coverage-guided campaigns (runs per worker, 4 workers each)
FUZZ = {"sec_strict": 40000, "der_blobs": 40000}
