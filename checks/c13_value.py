"""C13 - Transaction construction conserves value to the satoshi."""
import decimal
import hashlib
from fractions import Fraction

from hypothesis import strategies as st

from gen.common import boundary_ints
from oracles import refmerkle, refvalue
from vlib.core import SubCheck, Violation

from pycoin.convention import btc_to_satoshi, mbtc_to_satoshi, satoshi_to_btc, satoshi_to_mbtc
from pycoin.symbols.btc import network as BTC

PROPERTY = "C13"
ASSUMPTIONS = ["oracles/refvalue.py (split model: R = inputs - fixed - fee, R < k must fail, else ceil for the first R mod k and floor "
               "for the rest; exact Fraction conversions)", "oracles/refenc.py Base58Check for P2PKH payable addresses",
               "oracles/refmerkle.py transaction serialiser for the hashes under which source transactions are filed",
               "'insufficient funds must raise' is asserted only when at least one output is unspecified",
               "fee is an integer >= 0 (the deprecated fee='standard' is not explored)"]
CONFIGURATIONS = ["BTC network (network.tx_utils.create_tx, network.tx)", "spendables passed as objects, as_text-style text (4 and 7 fields), "
                  "as_dict-style dicts", "payables as bare address, (address, 0), (address, amount)"]
UNEXPLORED = ["the amount of fee='standard' (the library's own estimate; only split and conservation are judged)", "non-P2PKH payable addresses", "other networks' Tx classes"]

Tx = BTC.tx
MAX = refvalue.MAX_MONEY


def _bad(b, m):
    raise Violation(b, m)


def _h(tag, *parts):
    return hashlib.sha256(("%s/%s" % (tag, "/".join(str(p) for p in parts))).encode()).digest()


# ------------------------------------------------------------------ create_tx


def _mk_spendable(sp, i, seed):
    """-> (argument passed to create_tx, (value, script, tx_hash, index))"""
    value, form, index = sp["value"], sp["form"], sp["index"]
    tx_hash = _h("prev", seed, i)
    if sp["script"] == "ring":
        script = _ring_key(i % 3)[1]
    else:
        script = refvalue.p2pkh(_h("owner", seed, i)[:20])[1] if sp["script"] == "p2pkh" else _h("scr", seed, i)[:sp["script"]]
    ident = (value, script, tx_hash, index)
    if form == "obj":
        return Tx.Spendable(value, script, tx_hash, index), ident
    if form == "text4":
        return "/".join([tx_hash[::-1].hex(), str(index), script.hex(), str(value)]), ident
    if form == "text7":
        return "/".join([tx_hash[::-1].hex(), str(index), script.hex(), str(value), "0", "0", "0"]), ident
    if form == "dictstr":
        # the same record after a JSON layer that writes 64-bit integers as strings: still a satoshi count
        return {"coin_value": str(value), "script_hex": script.hex(), "tx_hash_hex": tx_hash[::-1].hex(), "tx_out_index": index}, ident
    return {"coin_value": value, "script_hex": script.hex(), "tx_hash_hex": tx_hash[::-1].hex(), "tx_out_index": index}, ident


_RING = {}


def _ring_key(j):
    """(wif, p2pkh script) of secret exponent j + 1, computed without pycoin"""
    if j not in _RING:
        import hashlib
        from oracles import refec, refenc
        C = refec.SECP256K1
        x, y = C.mul(j + 1, C.G)
        sec = refenc.sec_encode(x, y, True)
        h160 = hashlib.new("ripemd160", hashlib.sha256(sec).digest()).digest()
        _RING[j] = (refenc.b58check_encode(b"\x80" + (j + 1).to_bytes(32, "big") + b"\x01"), refvalue.p2pkh(h160)[1])
    return _RING[j]


def o_create(case):
    seed = case["seed"]
    signed = case.get("route") == "signed"
    args, idents = [], []
    for i, sp in enumerate(case["spendables"]):
        if signed:
            # create_signed_tx: every input must be signable, so the spent scripts pay to keys whose WIFs are supplied
            sp = dict(sp, script="ring")
        a, ident = _mk_spendable(sp, i, seed)
        args.append(a)
        idents.append(ident)
    assert len(set((t[2], t[3]) for t in idents)) == len(idents)
    payables, scripts, amounts = [], [], []
    for j, p in enumerate(case["payables"]):
        # "to": which payee (several payables may name the same one: a fan-out, or change back to one address)
        addr, script = refvalue.p2pkh(_h("payee", seed, p.get("to", j))[:20])
        scripts.append(script)
        if p["form"] == "bare":
            payables.append(addr)
            amounts.append(None)
        elif p["form"] == "tuple0":
            payables.append((addr, 0))
            amounts.append(None)
        else:
            assert p["amount"] >= 1
            payables.append((addr, p["amount"]))
            amounts.append(p["amount"])
    fee = case["fee"]
    inputs = sum(t[0] for t in idents)
    fixed = sum(a for a in amounts if a is not None)
    k = sum(1 for a in amounts if a is None)
    r_total = inputs - fixed - fee
    want = refvalue.split(inputs, fixed, fee, k)
    where = "inputs=%d fixed=%d fee=%d k=%d R=%d" % (inputs, fixed, fee, k, r_total)
    labels = ["k=%s" % (k if k < 2 else "2+"), "spendables=%s" % ("1" if len(idents) == 1 else "2-10")]
    labels += sorted(set("form=" + sp["form"] for sp in case["spendables"]))
    if k:
        labels.append("R<0" if r_total < 0 else "R=k-1" if r_total == k - 1 else "0<=R<k-1" if r_total < k else
                      "R=k" if r_total == k else "R=k+1" if r_total == k + 1 else "R>k+1")
        if r_total >= k:
            labels.append("rem=0" if r_total % k == 0 else "rem>0")
    labels.append("route=" + ("create_signed_tx" if signed else "create_tx"))
    try:
        if signed:
            tx = BTC.tx_utils.create_signed_tx(args, payables, wifs=[_ring_key(j)[0] for j in range(3)], fee=fee)
        else:
            tx = BTC.tx_utils.create_tx(args, payables, fee=fee)
    except ValueError as ex:
        if want is not None and k > 0:
            _bad("create_tx:raises-with-sufficient-funds", "%s: ValueError(%s)" % (where, ex))
        if k == 0 and r_total >= 0:
            _bad("create_tx:raises-with-sufficient-funds", "%s (all outputs fixed): ValueError(%s)" % (where, ex))
        return labels + ["raised"]     # (k == 0 and R < 0: nothing is asserted either way)
    if want is None:
        _bad("create_tx:insufficient-funds-accepted:" + ("R<0" if r_total < 0 else "0<=R<k"),
             "%s: a transaction with outputs %s was returned" % (where, [o.coin_value for o in tx.txs_out]))
    outs = [o.coin_value for o in tx.txs_out]
    if len(outs) != len(payables) or [o.script for o in tx.txs_out] != scripts:
        _bad("create_tx:outputs-order-or-script", "%s: output scripts do not follow the payables" % where)
    it = iter(want)
    expect = [a if a is not None else next(it) for a in amounts]
    if outs != expect:
        got_split = [v for v, a in zip(outs, amounts) if a is None]
        if [v for v, a in zip(outs, amounts) if a is not None] != [a for a in amounts if a is not None]:
            _bad("create_tx:fixed-output-changed", "%s: outputs %s, payables %s" % (where, outs, amounts))
        if k and sum(got_split) == r_total and sorted(got_split) == sorted(want):
            _bad("create_tx:remainder-not-to-earliest", "%s: unspecified outputs %s, expected %s" % (where, got_split, want))
        _bad("create_tx:split-values", "%s: unspecified outputs %s, expected %s" % (where, got_split, want))
    if k and (sum(outs) + fee != inputs or min(v for v, a in zip(outs, amounts) if a is None) < 1):
        _bad("create_tx:value-not-conserved", "%s: outputs %s" % (where, outs))
    # fee arithmetic
    tin, tout, f = tx.total_in(), tx.total_out(), tx.fee()
    if tin != inputs or tout != sum(expect) or f != inputs - sum(expect):
        _bad("tx:fee-arithmetic", "%s: total_in %d total_out %d fee() %d; model %d %d %d" % (
            where, tin, tout, f, inputs, sum(expect), inputs - sum(expect)))
    # pairing
    if len(tx.unspents) != len(idents) or len(tx.txs_in) != len(idents):
        _bad("create_tx:pairing", "%d spendables, %d unspents, %d inputs" % (len(idents), len(tx.unspents), len(tx.txs_in)))
    for i, (ident, arg) in enumerate(zip(idents, args)):
        u, ti = tx.unspents[i], tx.txs_in[i]
        got = (u.coin_value, u.script, u.tx_hash, u.tx_out_index)
        if got != ident:      # paired by value: the property does not promise object identity
            _bad("create_tx:pairing", "unspents[%d] is %r (form %s), the %d-th spendable was %r" % (i, got, case["spendables"][i]["form"], i, ident))
        if ti.previous_hash != ident[2] or ti.previous_index != ident[3]:
            _bad("create_tx:pairing", "txs_in[%d] spends %s:%d, the %d-th spendable (form %s) is %s:%d" % (
                i, ti.previous_hash.hex(), ti.previous_index, i, case["spendables"][i]["form"], ident[2].hex(), ident[3]))
    # "stays paired": the caller goes on to reuse its own argument list (a wallet refilling one pool list); the built
    # transaction must not change with it
    if all(sp["form"] == "obj" for sp in case["spendables"]):
        labels.append("all-spendable-objects")
    args.reverse()
    del args[len(args) // 2:]
    got = [(u.coin_value, u.script, u.tx_hash, u.tx_out_index) for u in tx.unspents]
    if got != idents:
        _bad("create_tx:pairing:aliases-argument-list", "after the caller reversed and truncated the list it had passed, tx.unspents "
             "changed from the %d spendables to %d entries" % (len(idents), len(got)))
    if tx.total_in() != inputs or tx.fee() != inputs - sum(expect):
        _bad("tx:fee-arithmetic", "%s: fee() changed to %d after the caller modified its own argument list" % (where, tx.fee()))
    # an input is dropped from the built transaction while its recorded spent output stays behind: the inputs and their
    # records no longer pair up, and no fee may be reported that counts a coin which funds no input
    if len(tx.txs_in) >= 2:
        tx.txs_in.pop()
        for name, f in (("fee", tx.fee), ("total_in", tx.total_in)):
            try:
                v = f()
            except ValueError:
                continue
            funded = sum(t[0] for t in idents[:-1])
            if v != (funded - sum(expect) if name == "fee" else funded):
                _bad("tx:fee-arithmetic:surplus-record-counted", "%s: after an input was removed (its record left in place) %s() = %d; the "
                     "remaining inputs are worth %d, the outputs %d" % (where, name, v, funded, sum(expect)))
        labels.append("input-dropped-record-left")
    return labels + ["built"]


def o_standard_fee(case):
    """fee="standard" (the default): the amount is the library's own estimate and is not judged; what the statement says
    about the result is: fixed outputs as given, unspecified outputs equal up to one satoshi with the larger ones first,
    and fee() == total_in() - total_out() with nothing lost"""
    seed, signed = case["seed"], case["route"] == "signed"
    args, idents = [], []
    for i, v in enumerate(case["values"]):
        a, ident = _mk_spendable({"value": v, "form": "obj", "index": i, "script": "ring" if signed else "p2pkh"}, i, seed)
        args.append(a)
        idents.append(ident)
    payables, amounts, scripts = [], [], []
    for j, p in enumerate(case["payables"]):
        addr, script = refvalue.p2pkh(_h("payee", seed, j)[:20])
        scripts.append(script)
        if p == "bare":
            payables.append(addr)
            amounts.append(None)
        elif p == "tuple0":
            payables.append((addr, 0))
            amounts.append(None)
        else:
            payables.append((addr, p))
            amounts.append(p)
    kw = {} if case["explicit"] == 0 else {"fee": "standard"}
    inputs = sum(case["values"])
    labels = ["route=" + case["route"], "inputs=%s" % ("1-6" if len(args) <= 6 else "7+"), "fee-argument=" + ("default" if not kw else "standard")]
    try:
        if signed:
            tx = BTC.tx_utils.create_signed_tx(args, payables, wifs=[_ring_key(j)[0] for j in range(3)], **kw)
        else:
            tx = BTC.tx_utils.create_tx(args, payables, **kw)
    except ValueError:
        return labels + ["raised"]
    outs = [o.coin_value for o in tx.txs_out]
    where = "%s(%d inputs of total %d, payables %s, fee=standard)" % ("create_signed_tx" if signed else "create_tx", len(args), inputs,
                                                                      [p if isinstance(p, str) else "fixed %d" % p for p in case["payables"]])
    if len(outs) != len(payables) or [o.script for o in tx.txs_out] != scripts:
        _bad("create_tx:outputs-order-or-script", "%s: output scripts do not follow the payables" % where)
    if [v for v, a in zip(outs, amounts) if a is not None] != [a for a in amounts if a is not None]:
        _bad("create_tx:fixed-output-changed", "%s: outputs %s" % (where, outs))
    split = [v for v, a in zip(outs, amounts) if a is None]
    if split:
        if max(split) - min(split) > 1 or min(split) < 1 or split != sorted(split, reverse=True):
            _bad("create_tx:standard-fee:split-uneven", "%s: unspecified outputs %s are not equal up to one satoshi, larger first" % (where, split))
        labels.append("k=%s" % (len(split) if len(split) < 2 else "2+"))
        if "bare" in case["payables"] and "tuple0" in case["payables"]:
            labels.append("both-unspecified-forms")
    tin, tout, f = tx.total_in(), tx.total_out(), tx.fee()
    if tin != inputs or tout != sum(outs) or f != inputs - sum(outs) or (split and f < 0):
        _bad("tx:fee-arithmetic", "%s: total_in %d total_out %d fee() %d, outputs %s" % (where, tin, tout, f, outs))
    return labels + ["built"]


def s_standard_fee():
    n_in = st.one_of(st.integers(1, 6), st.integers(7, 16))
    payable = st.one_of(st.sampled_from(["bare", "tuple0", "bare", "tuple0"]), st.integers(1, 10**6))
    return st.fixed_dictionaries({
        "seed": st.integers(0, 10**6), "route": st.sampled_from(["signed", "signed", "unsigned"]), "explicit": st.sampled_from([0, 1]),
        "values": n_in.flatmap(lambda n: st.lists(st.one_of(st.integers(10**6, 10**7), st.integers(10**6, 10**12)), min_size=n, max_size=n)),
        "payables": st.lists(payable, min_size=1, max_size=6)})


def o_fee_identity_coinbase(case):
    """"the reported fee always equals inputs minus outputs" on the one kind of transaction that has no spendables: a
    coinbase, built by the library's constructor and paying several parties; whatever total_in() means there, fee() is
    total_in() - total_out()"""
    import hashlib
    from oracles import refec, refenc
    x, y = refec.SECP256K1.mul(case["k"], refec.SECP256K1.G)
    tx = Tx.coinbase_tx(refenc.sec_encode(x, y, True), case["values"][0], coinbase_bytes=bytes.fromhex(case["script"]))
    for j, v in enumerate(case["values"][1:]):
        tx.txs_out.append(Tx.TxOut(v, refvalue.p2pkh(hashlib.sha256(b"pool member %d" % j).digest()[:20])[1]))
    if case["reparse"]:
        tx = Tx.from_bin(tx.as_bin())
    tin, tout, f = tx.total_in(), tx.total_out(), tx.fee()
    if tout != sum(case["values"]) or f != tin - tout:
        _bad("tx:fee-arithmetic:coinbase", "coinbase paying %s: total_in() %d, total_out() %d, fee() %d" % (case["values"], tin, tout, f))
    return ["outputs=%s" % (len(case["values"]) if len(case["values"]) < 3 else "3+"), "reparsed" if case["reparse"] else "constructed"]


def s_fee_identity_coinbase():
    return st.fixed_dictionaries({"k": st.integers(1, 50), "script": st.sampled_from(["", "03a0bb0d", "51" * 40]), "reparse": st.booleans(),
                                  "values": st.lists(st.one_of(st.integers(0, 50 * 10**8), st.sampled_from([0, 1, 625000000, 5000000000])),
                                                     min_size=1, max_size=5)})


def nt_create(case, labels):
    return ("k=2+" in labels and "rem>0" in labels) or any(x in labels for x in ("R=k-1", "R=k", "R=k+1"))


@st.composite
def s_create(draw):
    # mostly 1-8 payables; one case in eight has 9-40 (the unspecified ones then sit sparsely among many fixed ones)
    npay = draw(st.integers(1, 8)) if draw(st.integers(0, 7)) else draw(st.integers(9, 40))
    forms = draw(st.lists(st.sampled_from(["bare", "tuple0", "fixed", "bare", "fixed"]), min_size=npay, max_size=npay))
    if npay > 8 and draw(st.booleans()):
        sparse = set(draw(st.lists(st.integers(0, npay - 1), min_size=2, max_size=4)))
        forms = [("bare" if (i + npay) % 2 else "tuple0") if i in sparse else "fixed" for i in range(npay)]
    amount = st.one_of(st.integers(1, 1000), st.integers(1, 2 * 10 ** 14), st.sampled_from([1, 2, 546, 10 ** 8, 2 * 10 ** 14]))
    payables = [{"form": f, "amount": draw(amount) if f == "fixed" else None} for f in forms]
    if draw(st.integers(0, 3)) == 0:
        # few distinct payees: the same address several times among the payables (and equal fixed amounts to it)
        npayee = draw(st.sampled_from([1, 1, 2, 3]))
        same_amount = draw(amount)
        for j, p in enumerate(payables):
            p["to"] = draw(st.integers(0, npayee - 1))
            if p["form"] == "fixed" and draw(st.booleans()):
                p["amount"] = same_amount
    fixed = sum(p["amount"] or 0 for p in payables)
    k = sum(1 for p in payables if p["form"] != "fixed")
    fee = draw(st.one_of(st.just(0), st.integers(0, 10 ** 5), st.integers(0, 10 ** 13)))
    if k:
        mode = draw(st.sampled_from(["boundary", "remainder", "remainder", "short", "free"]))
        if mode == "boundary":
            r = k + draw(st.sampled_from([-1, 0, 1]))
        elif mode == "remainder":
            r = draw(st.one_of(st.integers(1, 5), st.integers(1, 10 ** 13))) * k + draw(st.integers(0, k - 1))
        elif mode == "short":
            r = draw(st.one_of(st.integers(-10 ** 9, k - 1), st.integers(-3, k - 1)))
        else:
            r = draw(st.integers(-10, 10 ** 14))
    else:
        r = draw(st.integers(-10 ** 6, 10 ** 9))
    total = max(1, fixed + fee + r)
    m = min(draw(st.integers(1, 10)), total)
    xs = draw(st.lists(st.integers(0, 2 ** 62), min_size=m - 1, max_size=m - 1))
    rest = total - m
    values = []
    for x in xs:
        take = x % (rest + 1) if x % 3 else 0        # a third of the inputs are 1 satoshi
        values.append(1 + take)
        rest -= take
    values.append(1 + rest)
    order = draw(st.permutations(values))
    sp_form = st.sampled_from(["obj", "text4", "text7", "dict", "obj", "dictstr"])
    spendables = [{"value": v, "form": draw(sp_form), "index": draw(st.one_of(st.integers(0, 3), st.integers(0, 2 ** 32 - 1))),
                   "script": draw(st.sampled_from(["p2pkh", "p2pkh", 0, 1, 25, 32]))} for v in order]
    case = {"seed": draw(st.integers(0, 10 ** 6)), "spendables": spendables, "payables": payables, "fee": fee}
    if draw(st.integers(0, 5)) == 0:
        case["route"] = "signed"
    return case


# ------------------------------------------------------------------ validate_unspents

DISCREPANCIES = ["amount", "swapped-unspents", "script", "wrong-tx", "index-past-end", "source-edited", "missing"]


def _source(src, si, seed):
    """-> (pycoin Tx, reference txid)"""
    ins = [(_h("srcprev", seed, si), si % 4, _h("sig", seed, si)[:src["siglen"]], 0xffffffff)]
    outs = [(v, bytes.fromhex(s)) for v, s in src["outs"]]
    t = Tx(src["version"], [Tx.TxIn(h, i, s, q) for h, i, s, q in ins], [Tx.TxOut(v, s) for v, s in outs], src["lock_time"])
    return t, refmerkle.txid(src["version"], ins, outs, src["lock_time"])


def o_validate(case):
    seed = case["seed"]
    sources = [_source(s, i, seed) for i, s in enumerate(case["sources"])]
    assert len(set(h for _t, h in sources)) == len(sources)
    db = dict((h, t) for t, h in sources)
    spend = [(a % len(sources), b) for a, b in case["spend"]]
    spend = [(a, b % len(case["sources"][a]["outs"])) for a, b in spend]
    seen = set()
    spend = [p for p in spend if not (p in seen or seen.add(p))]
    txs_in = [Tx.TxIn(sources[a][1], b, b"", 0xffffffff) for a, b in spend]
    recorded = [list(case["sources"][a]["outs"][b]) for a, b in spend]        # [value, script_hex]
    outs = [Tx.TxOut(v, bytes.fromhex(s)) for v, s in case["outs"]]
    disc = case["discrepancy"]
    kind = None
    if disc is not None:
        kind, x, y = disc
        j = x % len(spend)
        src_i, out_i = spend[j]
        if kind == "swapped-unspents":
            others = [i for i in range(len(spend)) if recorded[i] != recorded[j]]
            if not others:
                kind = "amount"
            else:
                i = others[y % len(others)]
                recorded[i], recorded[j] = recorded[j], recorded[i]
        if kind == "amount":
            delta = [1, -1, 1 + y % 1000, 10 ** 8][y % 4]
            recorded[j][0] = recorded[j][0] + delta if recorded[j][0] + delta >= 0 else recorded[j][0] + 1
        elif kind == "script":
            s = bytearray(bytes.fromhex(recorded[j][1]))
            if not s or y % 5 == 0:
                s.append(y % 256)
            elif y % 5 == 1:
                s.pop()
            else:
                s[y % len(s)] ^= 1 + (y // 7) % 255
            recorded[j][1] = bytes(s).hex()
        elif kind == "missing":
            del db[sources[src_i][1]]
        elif kind == "wrong-tx":
            # an unrelated transaction with the same outputs is filed under the hash
            fake, fh = _source(dict(case["sources"][src_i], lock_time=case["sources"][src_i]["lock_time"] ^ (1 + y % 1000)), src_i, seed)
            assert fh != sources[src_i][1]
            db[sources[src_i][1]] = fake
        elif kind == "source-edited":
            # the filed transaction pays a different amount in one output (possibly the spent one)
            e = dict(case["sources"][src_i])
            e["outs"] = [list(o) for o in e["outs"]]
            o = y % len(e["outs"])
            e["outs"][o][0] += 1
            fake, fh = _source(e, src_i, seed)
            assert fh != sources[src_i][1]
            db[sources[src_i][1]] = fake
        elif kind == "index-past-end":
            n_out = len(case["sources"][src_i]["outs"])
            txs_in[j] = Tx.TxIn(sources[src_i][1], n_out + [0, 0, 1, y % 1000][y % 4], b"", 0xffffffff)
    use_spendables = case["as_spendables"]
    unspents = []
    for (v, s), (a, b) in zip(recorded, spend):
        if use_spendables:
            unspents.append(Tx.Spendable(v, bytes.fromhex(s), sources[a][1], b))
        else:
            unspents.append(Tx.TxOut(v, bytes.fromhex(s)))
    tx = Tx(1, txs_in, outs, 0)
    tx.set_unspents(unspents)
    labels = ["inputs=%s" % (len(spend) if len(spend) < 3 else "3+"), "sources=%s" % (len(sources) if len(sources) < 3 else "3+"),
              "unspents=" + ("Spendable" if use_spendables else "TxOut")]
    model_fee = sum(r[0] for r in recorded) - sum(v for v, _s in case["outs"])
    if kind is None:
        fee = tx.validate_unspents(db)
        if fee != model_fee:
            _bad("validate_unspents:fee", "returned %r, inputs - outputs = %d" % (fee, model_fee))
        return labels + ["consistent", "fee<0" if model_fee < 0 else "fee>=0"]
    try:
        got = tx.validate_unspents(db)
    except Exception as ex:  # the property: 'never returns normally'; any exception qualifies
        return labels + ["discrepancy=" + kind, "refused-by=" + type(ex).__name__]
    _bad("validate_unspents:discrepancy-accepted:" + kind, "%d inputs from %d sources, discrepancy %s at input %d: returned %r" % (
        len(spend), len(sources), kind, disc[1] % len(spend), got))


def s_validate():
    script = st.one_of(st.binary(max_size=40), st.binary(min_size=25, max_size=25)).map(bytes.hex)
    value = st.one_of(st.integers(0, 1000), st.integers(0, MAX), st.sampled_from([0, 1, MAX]))
    out = st.tuples(value, script).map(list)
    src = st.fixed_dictionaries({"outs": st.lists(out, min_size=1, max_size=5), "version": st.sampled_from([1, 2]),
                                 "lock_time": st.integers(0, 2 ** 31), "siglen": st.integers(0, 30)})
    one = st.tuples(st.sampled_from(DISCREPANCIES), st.integers(0, 10 ** 6), st.integers(0, 10 ** 6)).map(list)
    # one_of de-duplicates identical strategy objects, so weight through an index (3/4 with a discrepancy); the choice is
    # drawn first and its simplest value is the interesting class, because Hypothesis fills the tail of many examples
    # with minimal choices
    disc = st.integers(0, 3).flatmap(lambda i: st.none() if i == 3 else one)
    return st.fixed_dictionaries({
        "discrepancy": disc,
        "spend": st.lists(st.tuples(st.integers(0, 50), st.integers(0, 50)).map(list), min_size=1, max_size=8),
        "seed": st.integers(0, 10 ** 6), "sources": st.lists(src, min_size=1, max_size=5),
        "outs": st.lists(out, min_size=1, max_size=4), "as_spendables": st.booleans()})


# ------------------------------------------------------------------ pairing through unspents_from_db


def o_from_db(case):
    """unspents_from_db over a database in which some sources are absent or filed under the wrong hash: every input whose
    source is there gets exactly the output it spends, every other input gets None (ignore_missing) or the call raises;
    once the caller has filled the reported gaps the fee is inputs minus outputs"""
    seed = case["seed"]
    sources = [_source(s, i, seed) for i, s in enumerate(case["sources"])]
    db = dict((h, t) for t, h in sources)
    spend = [(a % len(sources), b) for a, b in case["spend"]]
    spend = [(a, b % len(case["sources"][a]["outs"])) for a, b in spend]
    if case["group"]:
        first = spend[0][0]
        spend = sorted(spend, key=lambda p: p[0] != first)   # inputs spending the first input's source become adjacent
    absent = set(a % len(sources) for a in case["absent"])
    for a in sorted(absent):
        h = sources[a][1]
        if (a + case["seed"]) % 3 == 0:
            fake, fh = _source(dict(case["sources"][a], lock_time=case["sources"][a]["lock_time"] ^ 5), a, seed)
            db[h] = fake                                     # an unrelated transaction filed under the hash
        else:
            del db[h]
    txs_in = [Tx.TxIn(sources[a][1], b, b"", 0xffffffff) for a, b in spend]
    outs = [Tx.TxOut(v, bytes.fromhex(s)) for v, s in case["outs"]]
    tx = Tx(1, txs_in, outs, 0)
    want = [None if a in absent else tuple(case["sources"][a]["outs"][b]) for a, b in spend]
    labels = ["inputs=%s" % (len(spend) if len(spend) < 3 else "3+"), "absent=%d" % min(len(absent), 2),
              "ignore_missing=%r" % case["ignore_missing"]]
    if any(w is None for w in want) and any(w is not None for w in want):
        labels.append("mixed")
    if any(spend[i][0] == spend[i + 1][0] and spend[i][0] in absent for i in range(len(spend) - 1)):
        labels.append("adjacent-inputs-from-one-absent-source")
    try:
        tx.unspents_from_db(db, ignore_missing=case["ignore_missing"])
    except KeyError:
        if case["ignore_missing"] or all(w is not None for w in want):
            _bad("from_db:raises-without-a-missing-source", "unspents_from_db(ignore_missing=%r) raised KeyError; absent sources %r, inputs %r" % (
                case["ignore_missing"], sorted(absent), spend))
        return labels + ["raised"]
    if not case["ignore_missing"] and any(w is None for w in want):
        _bad("from_db:missing-source-accepted", "unspents_from_db() returned although the sources %r are not in the database" % sorted(absent))
    got = [None if u is None else (u.coin_value, u.script.hex()) for u in tx.unspents]
    if got != want:
        _bad("from_db:pairing", "inputs %r, absent sources %r: unspents %r, expected %r" % (spend, sorted(absent), got, want))
    flags = [tx.missing_unspent(i) for i in range(len(spend))]
    if flags != [w is None for w in want]:
        _bad("from_db:missing_unspent-flags", "missing_unspent = %r for unspents %r" % (flags, want))
    # the caller fills the reported gaps from its own records
    for i, (a, b) in enumerate(spend):
        if tx.unspents[i] is None:
            v, s = case["sources"][a]["outs"][b]
            tx.unspents[i] = Tx.TxOut(v, bytes.fromhex(s))
    model_fee = sum(case["sources"][a]["outs"][b][0] for a, b in spend) - sum(v for v, _s in case["outs"])
    if tx.total_in() - tx.total_out() != model_fee or tx.fee() != model_fee:
        _bad("tx:fee-arithmetic", "after filling the gaps fee() = %d, inputs - outputs = %d" % (tx.fee(), model_fee))
    return labels + ["paired"]


def s_from_db():
    base = s_validate()
    return st.builds(lambda c, absent, ign, group: {"seed": c["seed"], "sources": c["sources"], "spend": c["spend"], "outs": c["outs"],
                                                    "absent": absent, "ignore_missing": ign, "group": group},
                     base, st.lists(st.integers(0, 50), max_size=3), st.sampled_from([True, True, False]), st.booleans())


# ------------------------------------------------------------------ conversions


# ------------------------------------------------------------------ fee accounting over a history on one Tx object


def o_fee_history(case):
    """one long-lived Tx: its unspents are replaced (set_unspents / unspents_from_db / plain assignment) and output values
    edited between queries; every query must report the inputs and outputs as they are at that moment"""
    seed = case["seed"]
    sources = [_source(s, i, seed) for i, s in enumerate(case["sources"])]
    db = dict((h, t) for t, h in sources)
    spend = [(a % len(sources), b) for a, b in case["spend"]]
    spend = [(a, b % len(case["sources"][a]["outs"])) for a, b in spend]
    seen = set()
    spend = [p for p in spend if not (p in seen or seen.add(p))]
    txs_in = [Tx.TxIn(sources[a][1], b, b"", 0xffffffff) for a, b in spend]
    true_amounts = [case["sources"][a]["outs"][b][0] for a, b in spend]
    scripts = [bytes.fromhex(case["sources"][a]["outs"][b][1]) for a, b in spend]
    out_values = [v for v, _s in case["outs"]]
    tx = Tx(1, txs_in, [Tx.TxOut(v, bytes.fromhex(s)) for v, s in case["outs"]], 0)
    amounts = [a + d for a, d in zip(true_amounts, (case["initial_delta"] * len(true_amounts))[:len(true_amounts)])]
    tx.set_unspents([Tx.TxOut(a, s) for a, s in zip(amounts, scripts)])
    labels, nq, replaced = [], 0, False
    for op in case["ops"]:
        if op[0] == "q":
            nq += 1
            ti, to, fee = tx.total_in(), tx.total_out(), tx.fee()
            if ti != sum(amounts) or to != sum(out_values) or fee != sum(amounts) - sum(out_values):
                _bad("fee:stale-or-wrong-totals", "query #%d after %s: total_in=%d total_out=%d fee=%d; the unspents sum to %d, the outputs to %d" % (
                    nq, case["ops"][:case["ops"].index(op)], ti, to, fee, sum(amounts), sum(out_values)))
            if replaced:
                labels.append("query-after-replacement")
        elif op[0] == "validate":
            nq += 1
            if amounts == true_amounts:
                fee = tx.validate_unspents(db)
                if fee != sum(amounts) - sum(out_values):
                    _bad("fee:stale-or-wrong-totals", "validate_unspents returned %d, inputs - outputs = %d (history %s)" % (
                        fee, sum(amounts) - sum(out_values), case["ops"]))
                labels.append("validated")
            else:
                try:
                    r = tx.validate_unspents(db)
                except Exception:
                    labels.append("discrepancy-refused")
                else:
                    _bad("validate_unspents:discrepancy-accepted:amount", "validate_unspents returned %r although recorded amounts %s differ from the sources %s" % (r, amounts, true_amounts))
        elif op[0] == "set":
            amounts = [max(0, a + d) for a, d in zip(true_amounts, (op[1] * len(true_amounts))[:len(true_amounts)])]
            tx.set_unspents([Tx.TxOut(a, s) for a, s in zip(amounts, scripts)])
            replaced = True
        elif op[0] == "assign":
            amounts = [max(0, a + d) for a, d in zip(true_amounts, (op[1] * len(true_amounts))[:len(true_amounts)])]
            tx.unspents = [Tx.TxOut(a, s) for a, s in zip(amounts, scripts)]
            replaced = True
        elif op[0] == "from_db":
            tx.unspents_from_db(db)
            amounts = list(true_amounts)
            replaced = True
        elif op[0] == "out":
            k = op[1] % len(out_values)
            out_values[k] = op[2]
            tx.txs_out[k].coin_value = op[2]
            replaced = True
    return sorted(set(labels)) + ["queries=%d" % min(nq, 4)]


def s_fee_history():
    from gen.common import weighted
    deltas = st.lists(st.sampled_from([0, 0, 1, -1, 1000, 10**8]), min_size=1, max_size=3)
    op = weighted((5, st.just(["q"])), (2, st.just(["validate"])), (2, st.tuples(st.just("set"), deltas).map(list)),
                  (2, st.tuples(st.just("assign"), deltas).map(list)), (2, st.just(["from_db"])),
                  (1, st.tuples(st.just("out"), st.integers(0, 5), st.integers(0, 10**9)).map(list)))
    return st.builds(lambda base, init, ops: dict(base, initial_delta=init, ops=ops, discrepancy=None),
                     s_validate(), deltas, st.lists(op, min_size=2, max_size=10))


def _check_amount(n):
    """all conversion laws for one satoshi amount; returns label"""
    for name, to_dec, from_dec, frac, decimals in (
            ("btc", satoshi_to_btc, btc_to_satoshi, refvalue.btc_fraction, 8),
            ("mbtc", satoshi_to_mbtc, mbtc_to_satoshi, refvalue.mbtc_fraction, 5)):
        d = to_dec(n)
        if not isinstance(d, decimal.Decimal) or Fraction(d) != frac(n):
            _bad("convert:satoshi_to_%s-inexact" % name, "satoshi_to_%s(%d) = %r, exact value %s" % (name, n, d, frac(n)))
        back = from_dec(d)
        if back != n or isinstance(back, bool) or not isinstance(back, int):
            _bad("convert:%s_to_satoshi-roundtrip" % name, "%s_to_satoshi(satoshi_to_%s(%d)) = %r" % (name, name, n, back))
        for text in (str(d), refvalue.fixed_point(n, decimals), refvalue.short_point(n, decimals)):
            if Fraction(decimal.Decimal(text)) != frac(n):
                if text == str(d):
                    _bad("convert:satoshi_to_%s-str" % name, "str(satoshi_to_%s(%d)) = %r is not the exact value" % (name, n, text))
                raise AssertionError("reference string %r for %d" % (text, n))
            back = from_dec(text)
            if back != n:
                _bad("convert:%s_to_satoshi-from-string" % name, "%s_to_satoshi(%r) = %r, expected %d" % (name, text, back, n))


def o_convert_range(case):
    for n in range(case["start"], case["start"] + case["count"]):
        _check_amount(n)
    return ["range"]


def cases_convert(tier):
    for start in range(0, 10 ** 5, 500):
        yield {"start": start, "count": 500}


def o_convert(case):
    n = case["n"]
    _check_amount(n)
    return ["zero" if n == 0 else "sub-btc" if n < 10 ** 8 else "whole-btc" if n % 10 ** 8 == 0 else "mixed",
            "digits>15" if n >= 10 ** 15 else "digits<=15"]


def s_convert():
    whole = st.integers(0, 21 * 10 ** 6).map(lambda b: b * 10 ** 8)
    near = st.tuples(st.integers(0, 21 * 10 ** 6 - 1), st.sampled_from([1, 10, 99999999, 10 ** 5, 10 ** 5 - 1, 29, 57])).map(
        lambda t: t[0] * 10 ** 8 + t[1])
    return st.one_of(boundary_ints(0, MAX), st.integers(0, MAX), whole, near, st.integers(0, 10 ** 9)).map(lambda n: {"n": n})


SUBCHECKS = [
    SubCheck("create_tx_split", o_create, strategy=s_create, budget=(5000, 600000), nontrivial=nt_create,
             rule="1-10 spendables (values 1..21e14 built to hit a target R; objects / as_text text / as_dict dicts), 1-8 payables mixing "
                  "fixed amounts, bare addresses and (address, 0), fee >= 0; built through create_tx or (1 case in 6, inputs then paying to three known keys) create_signed_tx with the WIFs; targets: R in {k-1,k,k+1}, every remainder class q*k+r, "
                  "short (R<k incl. negative), free; model = refvalue.split; also fee()/total_in()/total_out(), unspents[i]/txs_in[i] "
                  "pairing; non-trivial = k>=2 with R mod k != 0, or R in {k-1,k,k+1}"),
    SubCheck("standard_fee_split", o_standard_fee, strategy=s_standard_fee, budget=(1500, 40000),
             nontrivial=lambda c, l: "k=2+" in l and "built" in l,
             rule="create_tx / create_signed_tx with the default fee=\"standard\" (1-16 inputs of 10^6..10^12 satoshi, 1-6 payables mixing "
                  "fixed amounts, bare addresses and (address, 0)): the fee amount itself is the library's estimate and is not judged; fixed "
                  "outputs as given, unspecified outputs equal up to one satoshi with the larger first, fee() == total_in() - total_out() "
                  ">= 0; non-trivial = two or more unspecified outputs"),
    SubCheck("fee_identity_coinbase", o_fee_identity_coinbase, strategy=s_fee_identity_coinbase, budget=(400, 10000),
             nontrivial=lambda c, l: "outputs=1" not in l,
             rule="Tx.coinbase_tx(...) with 0-4 further outputs appended (a pool paying several parties), as constructed or re-parsed: "
                  "total_out() is the sum of the outputs and fee() == total_in() - total_out(); non-trivial = two or more outputs"),
    SubCheck("validate_unspents", o_validate, strategy=s_validate, budget=(4000, 300000),
             nontrivial=lambda c, l: "consistent" not in l,
             rule="1-5 source transactions (1-5 outputs each) filed under the reference txid, a spending transaction with 1-8 distinct "
                  "outpoints and unspents recorded from the sources; none or exactly one discrepancy (amount +-, script byte / length, "
                  "source missing, other transaction under the hash, filed transaction edited, index past the end, two different "
                  "unspents swapped): consistent -> returns inputs - outputs; discrepancy -> any exception; non-trivial = with discrepancy"),
    SubCheck("unspents_from_db_pairing", o_from_db, strategy=s_from_db, budget=(3000, 150000),
             nontrivial=lambda c, l: "mixed" in l,
             rule="1-5 source transactions, a spending transaction with 1-8 inputs (optionally grouped so that inputs from one source are "
                  "adjacent), 0-3 sources absent from the database or replaced by an unrelated transaction filed under the same hash, "
                  "ignore_missing on/off: unspents[i] is exactly the spent output or None, missing_unspent flags agree, strict mode raises "
                  "KeyError iff a source is absent, and after the gaps are filled fee() = inputs - outputs; non-trivial = some inputs "
                  "resolved and some not"),
    SubCheck("fee_history", o_fee_history, strategy=s_fee_history, budget=(3000, 150000),
             nontrivial=lambda c, l: "query-after-replacement" in l,
             rule="one long-lived Tx: 2-10 operations, each a query (total_in / total_out / fee), a validate_unspents call, a replacement of the recorded unspents (set_unspents, unspents_from_db, or assignment to tx.unspents) with true or perturbed amounts, or an edit of an output value; every query equals the arithmetic on the current state; non-trivial = a query after a replacement"),
    SubCheck("conversions_below_1e5", o_convert_range, cases=cases_convert, exhaustive=True,
             rule="every n in 0..99999: satoshi_to_btc/mbtc(n) == n/10^8 resp. n/10^5 exactly (Fraction), back-conversion of the "
                  "Decimal, of its str(), of the fixed-point and of the shortest decimal string gives n"),
    SubCheck("conversions_generated", o_convert, strategy=s_convert, budget=(4000, 400000),
             nontrivial=lambda c, l: "zero" not in l,
             rule="the same for n over 0..21e14: boundary values, powers of two +-1, whole coins, whole coins +- small, uniform"),
]
