"""C19 - Hash primitives give standard digests in every configuration.

Configurations: (1) this process: whatever pycoin.encoding.hash selected at import (native hashlib RIPEMD-160 here);
the bundled pure-Python function pycoin.contrib.ripemd160.ripemd160 is also called directly.  (2) a child
interpreter started with PYCOIN_USE_PYTHON_RIPEMD160=1, which first reports which implementation
pycoin.encoding.hash selected; a whole batch of messages is evaluated per child.
"""
import json
import os
import subprocess
import sys

from hypothesis import strategies as st

from oracles import refenc, refhash
from vlib.core import HarnessError, SubCheck, Violation

import pycoin.contrib.ripemd160 as pyripemd
import pycoin.encoding.hash as pyhash
from pycoin.bloomfilter import BloomFilter, murmur3
from pycoin.coins.bitcoin.Tx import Tx as BitcoinTx

PROPERTY = "C19"
ASSUMPTIONS = [
    "hashlib (OpenSSL) SHA-256 and RIPEMD-160 are the standard digests (RIPEMD-160 binding checked on the paper vectors)",
    "oracles/refhash.py MurmurHash3 x86_32 written from MurmurHash3.cpp with explicit 32-bit masks, calibrated on the 14 "
    "Bitcoin Core hash_tests vectors and 16 published x86_32 vectors; BIP37 bit addressing calibrated on Core's "
    "bloom_create_insert_serialize vectors (tweak 0 and 2147483649)",
    "seeds and tweaks wider than 32 bits are reduced modulo 2^32, as the uint32_t arithmetic of BIP37 does",
]
CONFIGURATIONS = ["in-process: pycoin.encoding.hash.ripemd160 = %s" % getattr(pyhash.ripemd160, "__name__", "?"),
                  "in-process: pycoin.contrib.ripemd160.ripemd160 called directly",
                  "child process with PYCOIN_USE_PYTHON_RIPEMD160=1 (selection asserted to be _PurePythonRIPEMD160)"]
UNEXPLORED = ["pycrypto (Crypto.Hash.RIPEMD) branch of get_best_ripemd160: package not installed",
              "an OpenSSL build without RIPEMD-160 (the automatic fallback trigger); only the environment-variable trigger is exercised",
              "Bloom filter of 0 bytes (add_item divides by zero; no peer accepts an empty filter) is not generated"]

M32 = 0xFFFFFFFF
FILLS = ["zeros", "ff", "counter", "prng:0", "prng:1"]


def _bad(b, m):
    raise Violation(b, m)


def _msg(spec):
    """message spec: {"len": n, "fill": name} or {"data": hex}"""
    if "data" in spec:
        return bytes.fromhex(spec["data"])
    return refhash.fill_bytes(spec["len"], spec["fill"])


def _len_class(n):
    if n <= 55:
        return "len<=55"
    if n <= 63:
        return "len56-63"
    if n == 64:
        return "len=64"
    if n <= 119:
        return "len65-119"
    if n <= 127:
        return "len120-127"
    if n <= 300:
        return "len128-300"
    return "len>300"


def _pad_class(n):
    r = n % 64
    return "mod64=%s" % ("55" if r == 55 else "56" if r == 56 else "63" if r == 63 else "0" if r == 0 else "other")


# ------------------------------------------------------------------ RIPEMD-160 / hash160 / double_sha256, in process


def o_digests(case):
    m = _msg(case)
    desc = "len=%d %s" % (len(m), case.get("fill", "data"))
    ref = refhash.ripemd160(m)
    got = pyripemd.ripemd160(m)
    if got != ref:
        _bad("ripemd160-py:digest!=ref", "pycoin.contrib.ripemd160.ripemd160(%s) = %s, OpenSSL %s" % (desc, got.hex(), ref.hex()))
    got = pyhash.ripemd160(m).digest()
    if got != ref:
        _bad("ripemd160-selected:digest!=ref", "pycoin.encoding.hash.ripemd160(%s).digest() = %s, OpenSSL %s" % (desc, got.hex(), ref.hex()))
    got = pyhash.hash160(m)
    if got != refhash.hash160(m):
        _bad("hash160!=ref", "hash160(%s) = %s, reference %s" % (desc, got.hex(), refhash.hash160(m).hex()))
    got = pyhash.double_sha256(m)
    if bytes(got) != refhash.double_sha256(m):
        _bad("double_sha256!=ref", "double_sha256(%s) = %s" % (desc, bytes(got).hex()))
    # the message handed over as another bytes-like object (a buffer being filled, a slice of a larger one): same digests
    if len(m) % 3 != 1:
        alt = bytearray(m) if len(m) % 3 == 0 else memoryview(bytearray(m))
        how = type(alt).__name__
        from vlib.core import lib_call
        if bytes(lib_call("double_sha256(<%s>)" % how, pyhash.double_sha256, alt)) != refhash.double_sha256(m):
            _bad("double_sha256!=ref", "double_sha256(<%s> %s)" % (how, desc))
        if lib_call("hash160(<%s>)" % how, pyhash.hash160, alt) != refhash.hash160(m):
            _bad("hash160!=ref", "hash160(<%s> %s)" % (how, desc))
        if lib_call("ripemd160(<%s>)" % how, pyhash.ripemd160, alt).digest() != ref:
            _bad("ripemd160-selected:digest!=ref", "pycoin.encoding.hash.ripemd160(<%s> %s)" % (how, desc))
    return [_len_class(len(m)), _pad_class(len(m)), "selected=" + getattr(pyhash.ripemd160, "__name__", "?")]


def nt_len(case, labels):
    return len(_msg(case)) > 55 if "data" in case else case["len"] > 55


def cases_digest_lengths(tier):
    for n in range(0, 301):
        for f in FILLS:
            yield {"len": n, "fill": f}


def lengths_long():
    edge = []
    for k in range(1, 40):
        edge += [64 * k - 9, 64 * k - 8, 64 * k - 1, 64 * k, 64 * k + 1]
    edge += [4095, 4096, 8191, 8192, 16383, 16384, 19999, 20000]
    return st.one_of(st.sampled_from(edge), st.sampled_from(edge), st.sampled_from(range(0, 601)), st.integers(301, 3000),
                     st.integers(3000, 20000))


def msg_specs(max_len_strategy):
    by_fill = st.builds(lambda n, f, k: {"len": n, "fill": f if f != "prng" else "prng:%d" % k}, max_len_strategy,
                        st.sampled_from(["zeros", "ff", "counter", "prng", "prng", "prng"]), st.integers(0, 10**6))
    raw = st.binary(max_size=260).map(lambda b: {"data": b.hex()})
    return st.one_of(by_fill, by_fill, by_fill, raw)


def s_digests():
    return msg_specs(lengths_long())


# ------------------------------------------------------------------ fallback configuration (child process)

_WORKER = r'''
import sys, os, json, traceback
sys.dont_write_bytecode = True
repo = os.environ["VERIF_REPO"]
sys.path.insert(0, repo)
import hashlib
def fill_bytes(n, fill):
    if fill == "zeros": return bytes(n)
    if fill == "ff": return b"\xff" * n
    if fill == "counter": return bytes(i & 0xff for i in range(n))
    key = fill.encode(); out = bytearray(); ctr = 0
    while len(out) < n:
        out += hashlib.sha256(key + ctr.to_bytes(8, "big")).digest(); ctr += 1
    return bytes(out[:n])
out = {"results": []}
try:
    import pycoin
    out["pycoin_file"] = os.path.abspath(pycoin.__file__)
    import pycoin.encoding.hash as H
    out["selected"] = getattr(H.ripemd160, "__name__", repr(H.ripemd160))
    out["selected_module"] = getattr(H.ripemd160, "__module__", "")
    out["env"] = os.environ.get("PYCOIN_USE_PYTHON_RIPEMD160")
    for spec in json.load(sys.stdin)["msgs"]:
        m = bytes.fromhex(spec["data"]) if "data" in spec else fill_bytes(spec["len"], spec["fill"])
        out["results"].append([H.ripemd160(m).digest().hex(), H.hash160(m).hex(), bytes(H.double_sha256(m)).hex()])
except BaseException as ex:
    tb = traceback.extract_tb(ex.__traceback__)
    fr = [f for f in tb if os.path.abspath(f.filename).startswith(os.path.join(repo, "pycoin") + os.sep)]
    out["error"] = {"type": type(ex).__name__, "msg": str(ex)[:300], "index": len(out["results"]),
                    "frame": ("%s:%s" % (os.path.relpath(fr[-1].filename, repo), fr[-1].name)) if fr else None,
                    "trace": traceback.format_exc()[-1500:]}
json.dump(out, sys.stdout)
'''


def _run_child(msgs):
    repo = os.path.abspath(os.environ.get("VERIF_REPO", "/repo"))
    env = dict(os.environ, VERIF_REPO=repo, PYCOIN_USE_PYTHON_RIPEMD160="1", PYTHONHASHSEED="0")
    env.pop("PYTHONPATH", None)
    r = subprocess.run([sys.executable, "-c", _WORKER], input=json.dumps({"msgs": msgs}), env=env,
                       capture_output=True, text=True)
    if r.returncode != 0 or not r.stdout.strip():
        raise HarnessError("fallback child failed rc=%d: %s" % (r.returncode, r.stderr[-1500:]))
    return json.loads(r.stdout[r.stdout.index("{"):])


def o_fallback_batch(case):
    msgs = case["msgs"]
    out = _run_child(msgs)
    repo = os.path.abspath(os.environ.get("VERIF_REPO", "/repo"))
    if not out.get("pycoin_file", repo + os.sep).startswith(repo + os.sep):
        raise HarnessError("child imported pycoin from %s" % out.get("pycoin_file"))
    err = out.get("error")
    if err and "selected" not in out:
        if err["frame"] is None:
            raise HarnessError("fallback child could not start: %s" % err["trace"])
        _bad("crash:%s@%s" % (err["type"], err["frame"]), "importing pycoin.encoding.hash with PYCOIN_USE_PYTHON_RIPEMD160=1: %s" % err["msg"])
    sel = out["selected"]
    if sel == "ripemd160_native":
        _bad("ripemd160:fallback-not-selected", "PYCOIN_USE_PYTHON_RIPEMD160=1 but pycoin.encoding.hash.ripemd160 is %s" % sel)
    if sel != "_PurePythonRIPEMD160":
        raise HarnessError("unexpected RIPEMD-160 implementation in child: %s (%s)" % (sel, out.get("selected_module")))
    if err:
        spec = msgs[err["index"]] if err["index"] < len(msgs) else None
        if err["frame"] is None:
            raise HarnessError("fallback child error outside pycoin: %s" % err["trace"])
        _bad("crash:%s@%s" % (err["type"], err["frame"]), "fallback configuration, message %s: %s" % (json.dumps(spec), err["msg"]))
    labels = ["selected=" + sel, "batch"]
    for spec, (rip, h160, dsha) in zip(msgs, out["results"]):
        m = _msg(spec)
        desc = json.dumps(spec)[:120]
        if rip != refhash.ripemd160(m).hex():
            _bad("ripemd160-fallback:digest!=ref", "fallback ripemd160(%s).digest() = %s, OpenSSL %s" % (desc, rip, refhash.ripemd160(m).hex()))
        if h160 != refhash.hash160(m).hex():
            _bad("hash160-fallback!=ref", "fallback hash160(%s) = %s, reference %s" % (desc, h160, refhash.hash160(m).hex()))
        if dsha != refhash.double_sha256(m).hex():
            _bad("double_sha256-fallback!=ref", "fallback double_sha256(%s) = %s" % (desc, dsha))
        labels.append(_len_class(len(m)))
        labels.append(_pad_class(len(m)))
    if len(out["results"]) != len(msgs):
        raise HarnessError("child returned %d results for %d messages" % (len(out["results"]), len(msgs)))
    return labels


def cases_fallback_lengths(tier):
    """every length 0..300 with two contents (four in the thorough tier), 43 lengths per child"""
    fills = ["counter", "prng:7"] if tier == "quick" else ["zeros", "ff", "counter", "prng:7"]
    for f in fills:
        for lo in range(0, 301, 43):
            yield {"msgs": [{"len": n, "fill": f} for n in range(lo, min(301, lo + 43))]}


def s_fallback_batches():
    short = msg_specs(st.one_of(st.sampled_from(range(0, 301)), st.sampled_from([55, 56, 63, 64, 65, 119, 120, 127, 128, 183, 184])))
    long_ = msg_specs(lengths_long())
    return st.lists(st.one_of(short, short, short, long_), min_size=24, max_size=24).map(lambda l: {"msgs": l})


# ------------------------------------------------------------------ murmur3

SEEDS = [0, 1, 0xFBA4C795, 2**32 - 1, 2**32, 2**40 + 5, 2**64 - 1]


def o_murmur(case):
    m = _msg(case)
    seed = case["seed"]
    got = murmur3(m, seed)
    ref = refhash.murmur3_x86_32(m, seed)
    if got != ref:
        _bad("murmur3!=ref", "murmur3(%d bytes %s, seed=%#x) = %#x, reference %#x" % (
            len(m), m[:24].hex(), seed, got, ref))
    if "seed_default" in case and seed == 0 and murmur3(m) != ref:
        _bad("murmur3:default-seed", "murmur3(data) without seed differs from seed=0")
    return ["tail=%d" % (len(m) % 4), "blocks=%s" % ("0" if len(m) < 4 else "1" if len(m) < 8 else "2+"),
            "seed=%s" % ("0" if seed == 0 else "32bit" if seed <= M32 else "wide")]


def cases_murmur_grid(tier):
    for n in range(0, 41):
        for f in FILLS:
            for s in SEEDS:
                yield {"len": n, "fill": f, "seed": s, "seed_default": 1}
    # blocks whose intermediate values inside the mixing function are extreme: the 32-bit words w for which w*c1, the rotated
    # product, or the second product equals 0, 1, 0x7fffffff, 0x80000000 or 0xffffffff (each has exactly one such w), placed
    # at an aligned offset, at an unaligned one, and in front of a 1-3 byte tail
    c1, c2 = 0xcc9e2d51, 0x1b873593
    i1, i2 = pow(c1, -1, 1 << 32), pow(c2, -1, 1 << 32)
    for v in (0, 1, 0x7fffffff, 0x80000000, 0xffffffff, 0xfffffffe, 0xffff0000, 0x0000ffff):
        rot = ((v >> 15) | (v << 17)) & M32                       # the word whose left-rotation by 15 is v
        for w in {(v * i1) & M32, (rot * i1) & M32, ((((v * i2) & M32) >> 15 | ((v * i2) & M32) << 17) & M32) * i1 & M32}:
            wb = w.to_bytes(4, "little").hex()
            for data in (wb, "70796369" + wb + "7461696c", "aa" + wb + "bbccdd", wb + wb, "00000000" + wb + "ff", wb + "0102"):
                for s in (0, 0xFBA4C795, 0xffffffff):
                    yield {"data": data, "seed": s}
    # inputs far longer than anything a filter element is, past the 2^16-word mark (the library's murmur3 takes seconds here)
    for n in [65536 * 4 + 11] + ([65536 * 4 - 1, 65536 * 4, 65536 * 8 + 3] if tier == "thorough" else []):
        yield {"len": n, "fill": "prng:0", "seed": 0xFBA4C795}


def seeds():
    return st.one_of(st.sampled_from(SEEDS), st.integers(0, M32), st.integers(0, M32), st.integers(0, 2**64 - 1),
                     st.builds(lambda k, t: (k * 0xFBA4C795 + t), st.integers(0, 50), st.integers(0, M32)))


def s_murmur():
    ln = st.one_of(st.integers(0, 64), st.integers(0, 600), st.sampled_from([20, 32, 33, 36, 65, 520, 4096, 20000]))
    return st.builds(lambda spec, seed: dict(spec, seed=seed), msg_specs(ln), seeds())


# ------------------------------------------------------------------ Bloom filter histories


class _Spendable:
    """stand-in with the two attributes add_spendable reads (tx_hash in wire byte order, tx_out_index)"""

    def __init__(self, tx_hash, tx_out_index):
        self.tx_hash = tx_hash
        self.tx_out_index = tx_out_index


def o_bloom(case):
    size, nfuncs, tweak = case["size"], case["nfuncs"], case["tweak"]
    f = BloomFilter(size, nfuncs, tweak)
    ref = bytearray(size)
    if bytes(f.filter_bytes) != bytes(ref):
        _bad("bloom:fresh-filter-not-empty", "new BloomFilter(%d,%d,%d).filter_bytes = %s" % (size, nfuncs, tweak, bytes(f.filter_bytes).hex()[:80]))
    added = []
    labels = set()
    for step, op in enumerate(case["ops"]):
        kind = op[0]
        if kind == "item":
            item = bytes.fromhex(op[1])
            # the element arrives as plain bytes or as one of the library's own bytes subclasses (what Tx.hash(),
            # double_sha256() and parsed outpoints hand out): same bytes, same filter bits
            form = (len(item) + step) % 4
            if form == 1:
                from pycoin.encoding.hexbytes import bytes_as_revhex
                f.add_item(bytes_as_revhex(item))
                labels.add("item-as=bytes_as_revhex")
            elif form == 2:
                from pycoin.encoding.hexbytes import bytes_as_hex
                f.add_item(bytes_as_hex(item))
                labels.add("item-as=bytes_as_hex")
            else:
                f.add_item(item)
        elif kind == "collide":
            # a different element whose MurmurHash3 value under one of the filter's hash functions equals that of the
            # previously added element (constructed, not searched for): its other bit positions still have to be set
            if not added or len(added[-1]) < 8 or nfuncs == 0:
                continue
            fn = op[1] % nfuncs
            item = refhash.murmur3_collision_partner(added[-1], (fn * 0xFBA4C795 + tweak) & M32, op[2], op[3])
            f.add_item(item)
            labels.add("collides-under-fn=%s" % ("0" if fn == 0 else "1+"))
        elif kind == "hit":
            # a 4-byte element constructed so that one of the filter's hash functions gives a chosen 32-bit value that is
            # tied to the filter's size: exactly the bit count (position 0 after reduction), a multiple of it, one off,
            # the last position, the extremes
            if nfuncs == 0:
                continue
            fn = op[1] % nfuncs
            bits = 8 * size
            target = [bits, bits, 2 * bits, bits - 1, bits + 1, 0, M32, M32 - M32 % bits, 8 * (size - 1), bits * 3 + 7][op[2] % 10] & M32
            item = refhash.murmur3_preimage4(target, (fn * 0xFBA4C795 + tweak) & M32)
            f.add_item(item)
            labels.add("hash-value=%s" % ("bit-count" if target == bits else "other-chosen"))
        elif kind == "hash160":
            item = (bytes.fromhex(op[1]) * 20)[:20]
            f.add_hash160(item)
        elif kind == "address":
            item = (bytes.fromhex(op[2]) * 20)[:20]
            f.add_address(refenc.b58check_encode(bytes([op[1] % 256]) + item))
        elif kind == "spendable":
            h = (bytes.fromhex(op[1]) * 32)[:32]
            if op[3]:
                sp = BitcoinTx.Spendable(0, b"", h, op[2])
            else:
                sp = _Spendable(h, op[2])
            item = h + op[2].to_bytes(4, "little")       # COutPoint serialisation: hash || uint32 LE index
            f.add_spendable(sp)
        elif kind == "retune":
            # a long-lived filter is re-randomised: its public parameters are assigned, the bitmap is cleared, and the
            # elements are added again; what the filter then holds and announces follows the parameters as they are now
            tweak, nfuncs = op[1], op[2]
            f.tweak, f.hash_function_count = tweak, nfuncs
            f.filter_bytes = bytearray(size)
            ref = bytearray(size)
            added = []
            labels.add("op=retune")
            continue
        else:
            raise ValueError(kind)
        labels.add("op=" + kind)
        refhash.bip37_insert(ref, item, nfuncs, tweak)
        added.append(item)
        if bytes(f.filter_bytes) != bytes(ref):
            diff = [i for i in range(size) if f.filter_bytes[i] != ref[i]][:5]
            _bad("bloom:bitmap!=bip37", "after op %d (%s of %s) with size=%d nfuncs=%d tweak=%d: filter differs from BIP37 bitmap "
                 "at bytes %s (got %s, want %s)" % (step, kind, item.hex()[:80], size, nfuncs, tweak, diff,
                                                   [f.filter_bytes[i] for i in diff], [ref[i] for i in diff]))
        for it in added:
            for idx in refhash.bip37_bit_indexes(it, size, nfuncs, tweak):
                if not f.check_bit(idx):
                    _bad("bloom:added-item-bit-not-set", "after op %d, check_bit(%d) is False for added item %s" % (step, idx, it.hex()[:80]))
        if not refhash.bip37_contains(bytes(f.filter_bytes), item, nfuncs, tweak):
            _bad("bloom:peer-would-not-match", "peer-side BIP37 contains() fails on pycoin's bitmap for item %s" % item.hex()[:80])
    fb, n, t = f.filter_load_params()
    if bytes(fb) != bytes(ref) or n != nfuncs or t != tweak:
        _bad("bloom:filter_load_params", "filter_load_params() = (%s.., %r, %r)" % (bytes(fb).hex()[:40], n, t))
    labels.add("size=%s" % ("1" if size == 1 else "2-8" if size <= 8 else "9-256" if size <= 256 else "257+"))
    labels.add("nfuncs=%s" % ("0" if nfuncs == 0 else "1" if nfuncs == 1 else "2-11" if nfuncs < 12 else "12+"))
    labels.add("tweak=%s" % ("0" if tweak == 0 else "32bit" if tweak <= M32 else "wide"))
    labels.add("nops=%s" % ("0" if not added else "1" if len(added) == 1 else "2+"))
    return sorted(labels)


def s_bloom():
    size = st.one_of(st.sampled_from([1, 2, 7, 8, 255, 256, 36000]), st.integers(1, 64), st.integers(1, 36000))
    nfuncs = st.one_of(st.integers(0, 50), st.integers(1, 12))
    tweak = st.one_of(st.sampled_from([0, 1, 5, 2147483649, M32, M32 + 1, 2**40 + 5, 2**64 - 1]), st.integers(0, M32),
                      st.integers(0, 2**64 - 1))
    item = st.one_of(st.binary(max_size=40), st.binary(min_size=20, max_size=20), st.binary(min_size=32, max_size=36))
    hx = st.binary(min_size=1, max_size=32).map(bytes.hex)
    op = st.one_of(
        item.map(lambda b: ["item", b.hex()]), item.map(lambda b: ["item", b.hex()]),
        hx.map(lambda h: ["hash160", h]),
        st.tuples(st.integers(0, 255), hx).map(lambda t: ["address", t[0], t[1]]),
        st.tuples(hx, st.one_of(st.integers(0, 3), st.integers(0, M32)), st.booleans()).map(lambda t: ["spendable", t[0], t[1], t[2]]),
        st.tuples(st.sampled_from([0, 0, 0, 1, 2, 5]), st.integers(0, 8), st.integers(0, M32)).map(lambda t: ["collide", t[0], t[1], t[2]]),
        st.tuples(st.sampled_from([0, 0, 1, 2, 5, 11]), st.integers(0, 9)).map(lambda t: ["hit", t[0], t[1]]),
        st.tuples(st.one_of(st.integers(0, M32), st.sampled_from([0, 1, M32 + 1, 2**64 - 1])), st.integers(0, 12)).map(lambda t: ["retune", t[0], t[1]]),
    )
    return st.fixed_dictionaries({"size": size, "nfuncs": nfuncs, "tweak": tweak, "ops": st.lists(op, max_size=6)})


SUBCHECKS = [
    SubCheck("digests_len_0_300", o_digests, cases=cases_digest_lengths, exhaustive=True, nontrivial=nt_len,
             rule="every length 0..300 x contents {zeros, ff, counter, 2 PRNG streams}: pure-Python ripemd160, the selected "
                  "ripemd160 factory, hash160 and double_sha256 equal hashlib; non-trivial = length > 55 (padding spills)"),
    SubCheck("digests_generated", o_digests, strategy=s_digests, budget=(1200, 60000), nontrivial=nt_len,
             rule="lengths to 20000 weighted to 64k-9/-8/-1/0/+1 block edges, patterned/PRNG/raw contents; non-trivial = length > 55"),
    SubCheck("fallback_len_0_300", o_fallback_batch, cases=cases_fallback_lengths, exhaustive=True, max_shards=14,
             rule="child interpreter with PYCOIN_USE_PYTHON_RIPEMD160=1 (selection asserted): ripemd160().digest(), hash160, "
                  "double_sha256 for every length 0..300 (43 messages per child) equal hashlib"),
    SubCheck("fallback_generated", o_fallback_batch, strategy=s_fallback_batches, budget=(48, 2400),
             rule="same child configuration, batches of 24 generated messages (lengths to 20000, block-edge weighted)"),
    SubCheck("murmur3_grid", o_murmur, cases=cases_murmur_grid, exhaustive=True,
             nontrivial=lambda c, l: c["seed"] != 0,
             rule="lengths 0..40 (every tail size) and 262155 bytes (thorough: also 262143, 262144, 524291) x 5 contents x seeds {0,1,0xFBA4C795,2^32-1,2^32,2^40+5,2^64-1}: murmur3 == "
                  "reference x86_32 (seed mod 2^32); non-trivial = non-zero seed"),
    SubCheck("murmur3_generated", o_murmur, strategy=s_murmur, budget=(4000, 400000),
             nontrivial=lambda c, l: c["seed"] != 0,
             rule="generated data (0..600 bytes, some to 20000) x seeds uniform 32-bit / 64-bit / k*0xFBA4C795+tweak"),
    SubCheck("bloom_histories", o_bloom, strategy=s_bloom, budget=(3000, 200000),
             nontrivial=lambda c, l: len(c["ops"]) > 0 and c["nfuncs"] > 0,
             rule="filter sizes {1,2,7,8,255,256,36000,uniform}, 0-50 hash functions, tweaks 32-bit and wider, up to 6 adds via "
                  "add_item/add_hash160/add_address/add_spendable, or an element constructed to collide with the previous one under one of the filter's hash functions: after every add filter_bytes == BIP37 bitmap, every added "
                  "item's bits test set, peer-side contains() matches; non-trivial = at least one add with >=1 function"),
]
