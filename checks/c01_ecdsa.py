"""C01 - ECDSA: deterministic signatures verify for the signer and for nobody else.

Oracles: oracles/refecdsa.py (RFC 6979 + textbook sign / the verification equation as C01 states it) over
oracles/refec.py arithmetic.  Nothing computed by pycoin is used as an expected value.
"""
import os

from hypothesis import strategies as st

from gen import ecgen, subproc
from gen.ecgen import REF, ref_curve, curve_label, get_gen, backend_of
from oracles import refecdsa, refenc
from vlib.core import HarnessError, SubCheck, Violation

from pycoin.ecdsa.rfc6979 import deterministic_generate_k

PROPERTY = "C01"
IN_WORKER = bool(os.environ.get("VERIF_WORKER"))
NATIVE_NONE = {"PYCOIN_NATIVE": "none"}
THIS = "checks.c01_ecdsa"

ASSUMPTIONS = [
    "oracles/refecdsa.py (RFC 6979 3.2 HMAC-SHA256, textbook sign/verify; calibrated on RFC 6979 A.2.5 and the "
    "published secp256k1 vectors) over oracles/refec.py (affine law + Jacobian ladder, calibrated on published "
    "multiples and exhaustively on toy curves)",
    "hashlib / hmac SHA-256; Python big integers and pow(x, -1, m)",
    "toy curve orders come from brute-force point counting in refec.toy_curves (prime, odd, != p)",
    "z is used un-truncated (reduced mod n) in the signing and verification equations and as a 32-byte "
    "big-endian string for the RFC 6979 nonce, as the property states",
]
ACCEL = ("shipped", "openssl")
CONFIGURATIONS = ecgen.describe_configurations(("k1", "r1")) + [
    "secp256k1/shipped and secp256r1/shipped re-run in a child interpreter with PYCOIN_NATIVE=none (backend=pure "
    "asserted in the child)",
    "toy curves of prime order, both n < p and n > p, p < 24 exhaustively and 24 <= p < 200 sampled (quick) / p < 72 exhaustively (thorough): "
    "Generator(p,a,b,G,n), pure Python",
    "Key wrapper: BTC network Key class (secp256k1/shipped) and Key.make_subclass over secp256r1/shipped",
]
UNEXPLORED = [
    "libsecp256k1 backend (library not installed in this sandbox; pycoin.ecdsa.native.secp256k1.Optimizations "
    "sign/verify/multiply never run)" if not ecgen.LIBSECP_PRESENT else "",
    "recovery of signatures whose nonce abscissa is >= n on 256-bit curves (probability ~2^-128); reached on toy curves only",
    "hash functions other than SHA-256 in deterministic_generate_k(hash_f=...)",
    "user-supplied gen_k callbacks",
]
UNEXPLORED = [u for u in UNEXPLORED if u]
if not ecgen.OPENSSL_PRESENT:
    UNEXPLORED.append("OpenSSL-accelerated backend (libcrypto could not be loaded)")


def _bad(bucket, msg):
    raise Violation(bucket, msg)


def _h(v):
    return hex(v) if isinstance(v, int) and abs(v) > 10**6 else repr(v)


# ------------------------------------------------------------------------------------------------ helpers


def _sum_is_infinity(c, Q, z, r, s):
    n = c.n
    if not (1 <= r < n and 1 <= s < n):
        return False
    si = pow(s, -1, n)
    return c.add(c.mul_fast(z * si % n, c.G), c.mul_fast(r * si % n, Q)) is None


def pyc_verify(g, c, Q, z, r, s):
    """pycoin's verdict; the one exception class that is attributed to a precise root cause is named here,
    everything else propagates and is bucketed by the runner as crash:<Type>@<file>:<func>"""
    try:
        return g.verify(tuple(Q), z, (r, s))
    except TypeError as ex:
        if _sum_is_infinity(c, Q, z, r, s):
            _bad("verify:raises-TypeError-when-u1G+u2Q-is-infinity",
                 "verify(Q=%s, z=%s, (r,s)=(%s,%s)) on %s raised TypeError(%s) instead of returning False: "
                 "(z/s)G + (r/s)Q is the point at infinity" % (list(Q), _h(z), _h(r), _h(s), c.name, ex))
        raise


def _retry_reaches_n(c, d, z, k0):
    """does 'k += 1 until r and s are non-zero', started at the first RFC 6979 nonce, run into k == n?"""
    k = k0
    while k < c.n:
        r, s, _R = refecdsa.sign_with_k(c, d, z, k)
        if r != 0 and s != 0:
            return False
        k += 1
    return True


def _zclass(z, n):
    if z >= 2 * n:
        return "z>=2n"
    if z >= n:
        return "n<=z<2n"
    return "z<n"


def _cfg_list(spec, cfgs):
    if not isinstance(spec, str):
        return ["pure"]
    return [c for c in cfgs if c in ecgen.available_cfgs(spec)]


def _require_pure_in_worker(g):
    if IN_WORKER and os.environ.get("PYCOIN_NATIVE") == "none" and backend_of(g) != "pure":
        raise HarnessError("PYCOIN_NATIVE=none child still runs backend %s" % backend_of(g))


# ------------------------------------------------------------------------------------------------ sign


def o_sign(case, cfgs=ACCEL):
    spec, d, z = case["curve"], case["d"], case["z"]
    c = ref_curve(spec)
    n = c.n
    Q = c.mul_fast(d, c.G)
    k0 = refecdsa.first_nonce(n, d, z)
    r0, s0, _R0 = refecdsa.sign_with_k(c, d, z, k0)
    first_ok = r0 != 0 and s0 != 0
    labels = [curve_label(spec), _zclass(z, n), "first-nonce-ok" if first_ok else "first-nonce-gives-zero"]
    if ecgen.is_boundary(d, n):
        labels.append("d-boundary")
    if ecgen.is_boundary(z, n) or z >= (1 << 256) - 2:
        labels.append("z-boundary")

    kk = deterministic_generate_k(n, d, z)
    if kk != k0:
        _bad("sign:deterministic_generate_k!=rfc6979", "deterministic_generate_k(n, d=%s, z=%s) on %s = %s, RFC 6979 gives %s"
             % (_h(d), _h(z), c.name, _h(kk), _h(k0)))

    gens = [(cfg, get_gen(spec, cfg)) for cfg in _cfg_list(spec, cfgs)]
    memo = {}

    def ref_verify(K, r, s):
        """reference verdict, memoised inside this case (identical for every configuration)"""
        key = (K, r, s)
        if key not in memo:
            memo[key] = refecdsa.verify(c, K, z, r, s)
        return memo[key]

    def ref_mul_G(k):
        if ("G", k) not in memo:
            memo[("G", k)] = c.mul_fast(k, c.G)
        return memo[("G", k)]
    memo[("G", k0)] = _R0
    for cfg, g in gens:
        _require_pure_in_worker(g)
        where = "%s/%s d=%s z=%s" % (c.name, cfg, _h(d), _h(z))
        try:
            r, s, recid = g.sign_with_recid(d, z)
        except (TypeError, ValueError) as ex:
            if not first_ok and n < 4096 and not any(0 not in refecdsa.sign_with_k(c, d, z, k)[:2] for k in range(1, n)):
                labels.append("no-nonce-gives-a-signature")     # the property cannot be met for this (d, z): not judged
                continue
            if isinstance(ex, TypeError) and not first_ok and _retry_reaches_n(c, d, z, k0):
                _bad("sign:retry-loop-reaches-k=n", "sign_with_recid %s raised TypeError(%s): the first RFC 6979 nonce k=%d gives "
                     "r=%d s=%d, and k += 1 runs to k = n = %d where k*G is infinity" % (where, ex, k0, r0, s0, n))
            raise
        rs = g.sign(d, z)
        if tuple(rs) != (r, s) and not (backend_of(g) == "libsecp256k1" and tuple(rs) == (r, n - s)):
            # (a native backend may normalise s <-> n-s in sign() only: the property allows that)
            _bad("sign:sign!=sign_with_recid", "%s: sign -> %r, sign_with_recid -> %r" % (where, rs, (r, s, recid)))
        if not (isinstance(r, int) and isinstance(s, int) and 1 <= r < n and 1 <= s < n):
            _bad("sign:out-of-range", "%s: (r,s) = (%s,%s) not in [1,n-1]" % (where, _h(r), _h(s)))
        if not ref_verify(Q, r, s):
            _bad("sign:signature-does-not-satisfy-equation", "%s: (r,s) = (%s,%s) fails the verification equation under d*G"
                 % (where, _h(r), _h(s)))
        for cfg2, g2 in gens:
            if pyc_verify(g2, c, Q, z, r, s) is not True:
                _bad("sign:own-signature-rejected", "%s: signature (%s,%s) made by %s is refused by verify on %s"
                     % (where, _h(r), _h(s), cfg, cfg2))
        if first_ok:
            same = (r, s) == (r0, s0)
            if not same and backend_of(g) == "libsecp256k1":
                same = (r, n - s) == (r0, s0)
            if not same:
                _bad("sign:!=rfc6979", "%s: got (%s,%s), RFC 6979 signature is (%s,%s) (nonce %s)"
                     % (where, _h(r), _h(s), _h(r0), _h(s0), _h(k0)))
        k_used = pow(s, -1, n) * (z + r * d) % n
        if first_ok and k_used != k0 and backend_of(g) != "libsecp256k1":
            _bad("sign:nonce!=rfc6979", "%s: nonce recovered from the signature %s != RFC 6979 nonce %s" % (where, _h(k_used), _h(k0)))
        R = ref_mul_G(k_used)
        want_recid = (R[1] & 1) + (2 if R[0] >= n else 0)
        if recid != want_recid:
            _bad("sign:recid", "%s: recid %r, nonce point %s has y parity %d and x %s n so recid should be %d"
                 % (where, recid, list(R), R[1] & 1, ">=" if R[0] >= n else "<", want_recid))
        if R[0] < n:
            for par in (None, recid & 1):
                keys = [tuple(K) for K in (g.possible_public_pairs_for_signature(z, (r, s)) if par is None else
                                           g.possible_public_pairs_for_signature(z, (r, s), y_parity=par))]
                if Q not in keys:
                    _bad("recover:signer-missing", "%s: signature (%s,%s), nonce abscissa < n, y_parity=%r: recovered %r lacks the signer %r"
                         % (where, _h(r), _h(s), par, keys, Q))
                for K in keys:
                    if K == (None, None):
                        # s*R == z*G for the other candidate R: the equation holds with Q = infinity (pycoin's own verify agrees);
                        # infinity is outside the property's "Q on the curve" domain, so this is recorded, not judged
                        labels.append("recovered-infinity")
                        continue
                    if r >= c.p:
                        _bad("recover:in-range-r>=p-returns-keys", "%s: recovered key %r for r=%d >= p=%d" % (where, K, r, c.p))
                    if not ref_verify(K, r, s):
                        _bad("recover:returned-key-does-not-verify", "%s: recovered key %r does not verify (%s,%s)" % (where, K, _h(r), _h(s)))
            labels.append("recovered-signer")
        else:
            labels.append("nonce-x>=n")
        if gens[0][0] == cfg:
            labels += ["recid=%d" % recid, "s-high" if s > n // 2 else "s-low"]
    return labels


def o_sign_blinding(case):
    """a generator instance whose blinding factor is adversarial for this very (d, z): it cancels the RFC 6979 nonce in the
    signer's fixed-base multiplication (k + b = 0 or n), or u1 = z/s in the verifier's (u1 + b = 0 or n).  Signing and
    verification are properties of (d, z, r, s), not of the instance's blinding, so the results must be the usual ones."""
    spec, cfg, d, z = case["curve"], case["cfg"], case["d"], case["z"]
    c = ref_curve(spec)
    n = c.n
    Q = c.mul_fast(d, c.G)
    k0 = refecdsa.first_nonce(n, d, z)
    r0, s0, _R0 = refecdsa.sign_with_k(c, d, z, k0)
    if r0 == 0 or s0 == 0:
        return ["skip-first-nonce-gives-zero"]
    u1 = z * pow(s0, -1, n) % n
    u1_low = z * pow(n - s0, -1, n) % n
    target = {"nonce": k0, "u1": u1, "u1-other-s": u1_low, "nonce+1": k0 + 1, "zero": 0}[case["cancel"]]
    b = (-target) % n
    g = ecgen.build_generator(spec, cfg, entropy_f=ecgen.entropy_from_hex("%064x" % b))
    if getattr(g, "_blinding_factor", None) != b:
        raise HarnessError("the generator built with chosen entropy does not carry the chosen blinding factor: this "
                           "sub-check would be vacuous (attribute renamed or entropy width changed?)")
    labels = [curve_label(spec), "cfg=" + cfg, "cancel=" + case["cancel"], "blinding-as-chosen"]
    where = "%s/%s instance with blinding factor n - %s, d=%s z=%s" % (c.name, cfg, case["cancel"], _h(d), _h(z))
    r, s = g.sign(d, z)
    if (r, s) != (r0, s0):
        _bad("sign:adversarial-blinding:sign!=rfc6979", "%s: sign = (%s, %s), RFC 6979 signature (%s, %s)" % (where, _h(r), _h(s), _h(r0), _h(s0)))
    for rr, ss in ((r0, s0), (r0, n - s0)):
        got = g.verify(Q, z, (rr, ss))
        if got is not True:
            _bad("verify:adversarial-blinding:valid-refused", "%s: verify of the valid signature (s%s) returned %r" % (where, "" if ss == s0 else " negated", got))
    if g.verify(Q, (z + 1) % (1 << 256) or 1, (r0, s0)) is not False:
        _bad("verify:adversarial-blinding:other-hash-accepted", "%s: signature verifies for z + 1" % where)
    pk = g * d
    if tuple(pk) != Q:
        _bad("genmul:adversarial-blinding", "%s: G * d = %r" % (where, tuple(pk)))
    return labels


def s_sign_blinding():
    return st.builds(lambda cv, cfg, d, z, cancel: {"curve": cv, "cfg": cfg, "d": d, "z": z, "cancel": cancel},
                     st.sampled_from(["k1", "r1"]), st.sampled_from(["openssl", "openssl", "pure"]), st.integers(1, 2**255),
                     st.integers(1, 2**256 - 1), st.sampled_from(["nonce", "nonce", "u1", "u1-other-s", "nonce+1", "zero"]))


def o_sign_pure(case):
    return o_sign(case, ("pure",))


def o_sign_worker(case):      # runs inside the PYCOIN_NATIVE=none child
    return o_sign(case, ("shipped",)) + ["child-backend=" + backend_of(get_gen(case["curve"], "shipped"))]


def o_sign_native_none(case):
    return subproc.call(THIS, "o_sign_worker", case, NATIVE_NONE)


def nt_sign(case, labels):
    return case["d"] != 1 and any(l in ("d-boundary", "z-boundary", "n<=z<2n", "z>=2n", "first-nonce-gives-zero", "nonce-x>=n")
                                  or l.startswith("curve=toy") for l in labels)


def s_sign():
    return st.sampled_from(["k1", "r1"]).flatmap(lambda cv: st.builds(
        lambda d, z: {"curve": cv, "d": d, "z": z}, ecgen.scalars(REF[cv].n), ecgen.hashes(REF[cv].n)))


def _toy_zs(n):
    """every RFC 6979 input class on a toy curve: small z (h1 = 0), every value of the top qlen bits, and the top of the range"""
    q = n.bit_length()
    zs = list(range(1, n + 3))
    zs += [t << (256 - q) for t in range(1, 1 << q)]
    zs += [(1 << 256) - 1, ((n - 1) << (256 - q)) + n, (1 << 255) + n + 1]
    return zs


TOY_SIGN = {"quick": 24, "thorough": 72}


def cases_sign_toy(tier):
    for spec in ecgen.toy_specs(TOY_SIGN[tier]):
        n = spec[5]
        for d in range(1, n):
            for z in _toy_zs(n):
                yield {"curve": spec, "d": d, "z": z}


def s_sign_toy_big():
    """sampled (d, z) on the toy curves with 24 <= p < 200 that the quick tier does not enumerate"""
    specs = [s for s in ecgen.toy_specs(200) if s[0] >= 24]
    return st.sampled_from(specs).flatmap(lambda sp: st.builds(
        lambda d, z: {"curve": sp, "d": d, "z": z}, st.integers(1, sp[5] - 1),
        st.one_of(st.sampled_from(_toy_zs(sp[5])), st.integers(1, (1 << 256) - 1))))


# ------------------------------------------------------------------------------------------------ nonce separation


def o_nonce_sep(case):
    spec = case["curve"]
    c = ref_curve(spec)
    n = c.n
    a = (case["d"], case["z"])
    b = (case["d2"], case["z2"])
    labels = [curve_label(spec), "rel=" + case["rel"]]
    same_input = a[0] == b[0] and a[1] % n == b[1] % n
    # RFC 6979 bits2octets maps z and z + n (both < 2^256 < 2n) to the same octets: same nonce by design, not asserted different
    for cfg in _cfg_list(spec, ACCEL):
        g = get_gen(spec, cfg)
        ra, sa = g.sign(*a)
        rb, sb = g.sign(*b)
        ka = pow(sa, -1, n) * (a[1] + ra * a[0]) % n
        kb = pow(sb, -1, n) * (b[1] + rb * b[0]) % n
        if same_input:
            labels.append("congruent-inputs(not-asserted)")
            continue
        if ka == kb or ra == rb:
            _bad("sign:nonce-shared-between-distinct-inputs", "%s/%s: (d,z)=(%s,%s) and (%s,%s) are signed with the same nonce %s (r=%s)"
                 % (c.name, cfg, _h(a[0]), _h(a[1]), _h(b[0]), _h(b[1]), _h(ka), _h(ra)))
    return labels


def s_nonce_sep():
    def mk(cv, d, z, rel, bit, d2, z2):
        n = REF[cv].n
        top = (1 << 256) - 1
        if rel == "z+1":
            nd, nz = d, z + 1 if z < top else z - 1
        elif rel == "z-bitflip":
            nd, nz = d, (z ^ (1 << bit)) or 1
        elif rel == "z+n":
            z = z % (top - n) + 1
            nd, nz = d, z + n
        elif rel == "z-other":
            nd, nz = d, z2
        elif rel == "d+1":
            nd, nz = d % (n - 1) + 1, z
        elif rel == "d-bitflip":
            nd, nz = ((d ^ (1 << bit)) % (n - 1)) + 1, z
        elif rel == "d-other":
            nd, nz = d2, z
        elif rel in ("z+k*hashmod", "d+k*hashmod", "z+k*2^w"):
            # pairs that differ by a multiple of the modulus CPython's hash() reduces integers by (2^61 - 1; 2^31 - 1 on
            # 32-bit builds), or agree in their low 64 / 128 bits: distinct inputs that collide as hashed or truncated keys
            m = [2**61 - 1, 2**61 - 1, 2**31 - 1][bit % 3] if rel != "z+k*2^w" else [2**64, 2**128, 2**32][bit % 3]
            k = 1 + (d2 % 50000)
            if rel == "d+k*hashmod":
                nd = d + k * m if d + k * m < n else d - k * m
                nd, nz = (nd if 1 <= nd < n else d % (n - 1) + 1), z
            else:
                nz = z + k * m if z + k * m <= top else z - k * m
                nd, nz = d, (nz if 1 <= nz <= top else z ^ 1 or 2)
        else:  # swap roles: (d, z) vs (z mod, d)
            nd, nz = z % (n - 1) + 1, d
        return {"curve": cv, "d": d, "z": z, "d2": nd, "z2": nz, "rel": rel}
    return st.sampled_from(["k1", "r1"]).flatmap(lambda cv: st.builds(
        mk, st.just(cv), ecgen.scalars(REF[cv].n), ecgen.hashes(REF[cv].n),
        st.sampled_from(["z+1", "z-bitflip", "z+n", "z-other", "d+1", "d-bitflip", "d-other", "swap", "z+k*hashmod", "z+k*hashmod",
                         "d+k*hashmod", "z+k*2^w"]),
        st.integers(0, 255), ecgen.scalars(REF[cv].n), ecgen.hashes(REF[cv].n)))


# ------------------------------------------------------------------------------------------------ verify


def o_verify(case, cfgs=ACCEL):
    spec, Q, z, r, s = case["curve"], tuple(case["Q"]), case["z"], case["r"], case["s"]
    c = ref_curve(spec)
    n = c.n
    if not c.on_curve(Q) or z == 0:
        raise HarnessError("verify case outside the precondition (Q on curve, z != 0): %r" % (case,))
    exp = refecdsa.verify(c, Q, z, r, s)
    in_range = 1 <= r < n and 1 <= s < n
    labels = [curve_label(spec), "cls=" + case.get("cls", "?"), "expect=" + ("accept" if exp else "reject"),
              "in-range" if in_range else "out-of-range"]
    if in_range and not exp and (case.get("cls") in ("infinity", "infinity-rx") or not isinstance(spec, str)) and _sum_is_infinity(c, Q, z, r, s):
        labels.append("sum-is-infinity")
    for cfg in _cfg_list(spec, cfgs):
        g = get_gen(spec, cfg)
        _require_pure_in_worker(g)
        got = pyc_verify(g, c, Q, z, r, s)
        if got is not True and got is not False:
            _bad("verify:non-boolean-result", "verify on %s/%s returned %r" % (c.name, cfg, got))
        if got != exp:
            if exp:
                b = "verify:rejects-valid"
            elif not (1 <= r < n):
                b = "verify:accepts-r-out-of-range"
            elif not (1 <= s < n):
                b = "verify:accepts-s-out-of-range"
            else:
                b = "verify:accepts-equation-false"
            _bad(b, "verify(Q=%s, z=%s, (r,s)=(%s,%s)) on %s/%s returned %r, the property's equation says %r [class %s]"
                 % (list(Q), _h(z), _h(r), _h(s), c.name, cfg, got, exp, case.get("cls")))
    return labels


def o_verify_pure(case):
    return o_verify(case, ("pure",))


def o_verify_worker(case):
    return o_verify(case, ("shipped",)) + ["child-backend=" + backend_of(get_gen(case["curve"], "shipped"))]


def o_verify_native_none(case):
    return subproc.call(THIS, "o_verify_worker", case, NATIVE_NONE)


def nt_verify(case, labels):
    return case.get("cls") not in ("valid",)


VERIFY_CLASSES = ["valid", "malleated", "valid-z+n", "r-out", "s-out", "both-out", "other-key", "other-z", "random",
                  "near", "infinity", "infinity", "infinity-rx", "infinity-rx", "same-y", "r+n", "s+n", "close-x", "close-x", "structured-u", "structured-u", "structured-u"]


def _out_values(v0, n, i):
    return [-1, 0, n, n + 1, (1 << 256) - 1, v0 + n, v0 - n, -v0, 2 * n, n - 1 + n][i % 10]


def _mk_verify(cv, d, z, k, cls, a1, a2):
    c = REF[cv]
    n = c.n
    top = (1 << 256) - 1
    Q = c.mul_fast(d, c.G)
    if cls == "valid-z+n":
        z = z % (top - n) + 1
    r0, s0, _R = refecdsa.sign_with_k(c, d, z, k)
    r, s, zz = r0, s0, z
    if cls == "malleated":
        s = n - s0
    elif cls == "valid-z+n":
        zz = z + n
    elif cls == "r-out":
        r = _out_values(r0, n, a1)
    elif cls == "s-out":
        s = _out_values(s0, n, a1)
    elif cls == "both-out":
        r, s = _out_values(r0, n, a1), _out_values(s0, n, a2)
    elif cls == "r+n":
        r = r0 + n
    elif cls == "s+n":
        s = s0 + n
    elif cls == "other-key":
        Q = c.mul_fast(a1 % (n - 1) + 1, c.G)
    elif cls == "other-z":
        zz = [z + 1, (z ^ (1 << (a1 % 256))) or 1, a2 % top + 1, (z + n) if z + n <= top else z - 1 or 1][a1 % 4]
        zz = min(zz, top)
    elif cls == "random":
        r, s = a1 % (n - 1) + 1, a2 % (n - 1) + 1
    elif cls == "near":
        r, s = [(r0 + 1, s0), (r0 - 1, s0), (r0, s0 + 1), (r0, s0 - 1), (s0, r0), (r0 ^ (1 << (a2 % 255)), s0),
                (r0, s0 ^ (1 << (a2 % 255)))][a1 % 7]
    elif cls == "infinity":
        r = (-z * pow(d, -1, n)) % n
        s = [s0, a2 % (n - 1) + 1, 1, n - 1][a1 % 4]
    elif cls == "infinity-rx":
        # the sum verification forms is the point at infinity (z = -r*d) and r is an abscissa that is lying around
        # while it is formed: the key's, the base point's, or the one the two cancelling addends share
        s = [s0, a2 % (n - 1) + 1, 1, n - 1][a1 % 4]
        which = (a1 >> 2) % 4
        if which == 0:
            r = Q[0] % n
        elif which == 1:
            r = c.G[0] % n
        elif which == 2:
            r = Q[1] % n
        else:
            t = a2 % (n - 1) + 1
            r = c.mul_fast(t, Q)[0] % n
            s = r * pow(t, -1, n) % n
        zz = (-r * d) % n
        if which == 3 and (a1 >> 4) % 2 and zz + n <= top:
            zz += n
    elif cls == "same-y" and cv == "k1":
        # a valid triple built so that the two points verification adds, (z/s)G and (r/s)Q, are distinct points with the
        # same ordinate (secp256k1: multiplication by a cube root of unity mod n keeps y): z = lambda^j * r * d
        lam = pow(0x5363ad4cc05c30e0a5261c028812645a122e22ea20816678df02967c1b23bd72, 1 + a1 % 2, n)
        zz = lam * r0 * d % n or 1
        r, s, _R = refecdsa.sign_with_k(c, d, zz, k)
        if (a1 >> 1) % 2 and zz + n <= top:
            zz += n
    elif cls == "close-x":
        # a valid triple built so that the two points verification adds, (z/s)G and (r/s)Q, have abscissas a chosen small
        # (or word-boundary) distance apart: s = k, T = the curve point nearest to x((z/s)G) + dx, R = (z/s)G + T,
        # r = x(R) mod n, Q = (s/r)T
        s = k
        U1 = c.mul_fast(z * pow(s, -1, n) % n, c.G)
        mag = CLOSE_DX[a1 % len(CLOSE_DX)]
        dx = mag if a2 & 1 else -mag
        T = None
        if U1 is not None:
            for j in range(200):
                x = U1[0] + dx + (j if dx > 0 else -j)
                ys = c.ys_for_x(x) if 0 <= x < c.p else []
                if ys:
                    T = (x, ys[(a2 >> 1) % len(ys)])
                    break
        R = c.add(U1, T) if T is not None else None
        if R is not None and R[0] % n:
            r = R[0] % n
            Q = c.mul_fast(s * pow(r, -1, n) % n, T)
        else:
            cls = "valid"
    elif cls == "structured-u":
        # a valid triple built backwards from the two multipliers verification uses: u1 = z/s and u2 = r/s are chosen with
        # regular bit structure (0x5555.., 0xaaaa.., runs, sparse), R = u1*G + u2*Q, r = x(R) mod n, s = r/u2, z = u1*s
        u1 = _structured(a1, n)
        u2 = _structured(a2, n)
        R = c.add(c.mul_fast(u1, c.G), c.mul_fast(u2, Q))
        if R is not None and R[0] % n:
            r = R[0] % n
            s = r * pow(u2, -1, n) % n
            zz = u1 * s % n or n
        else:
            cls = "valid"
    return {"curve": cv, "Q": list(Q), "z": zz, "r": r, "s": s, "cls": cls}


def _structured(sel, n):
    """a scalar in [1, n-1] with regular bit structure, chosen by sel (block width, block value, total width)"""
    m = 2 + (sel >> 20) % (n.bit_length() - 1)
    if sel % 2 == 0:
        # j * (2^m - 1) / k: the repeating binary expansions of j/k (0x5555.., 0xaaaa.., 0x3333.., 0x2492.., ...), whose small
        # multiples 3e, 5e, ... fall just below a power of two - where NAF / window recoding and float logarithms slip
        k = [3, 3, 3, 5, 7, 9, 15, 17][(sel >> 4) % 8]
        j = 1 + (sel >> 8) % (k - 1)
        v = ((1 << m) - 1) // k * j + [0, 0, 1, -1][(sel >> 32) % 4]
        return v % (n - 1) + 1 if not 1 <= v < n else v
    p = 1 + sel % 16
    q = (sel >> 4) % ((1 << p) - 1) + 1
    v = 0
    for i in range(0, m, p):
        v |= q << i
    v &= (1 << m) - 1
    v += [0, 0, 1, -1][(sel >> 32) % 4]
    return v % (n - 1) + 1 if not 1 <= v < n else v


# abscissa distances between the two addends of verification (both signs are generated)
CLOSE_DX = [1, 2, 3, 255, 256, 65536, 2**31, 2**32 - 1, 2**32, 2**63, 2**64 - 1, 2**64, 2**64 + 1, 2**65, 2**128]


def s_verify():
    return st.sampled_from(["k1", "r1"]).flatmap(lambda cv: st.builds(
        _mk_verify, st.just(cv), ecgen.scalars(REF[cv].n), ecgen.hashes(REF[cv].n), ecgen.scalars(REF[cv].n),
        st.sampled_from(VERIFY_CLASSES), st.integers(0, 1 << 256), st.integers(0, 1 << 256)))


VERIFY_TOY_QUICK = ["toy-p7-a1-b1-n5", "toy-p11-a2-b7-n7", "toy-p7-a1-b6-n11", "toy-p19-a2-b18-n13"]


def _verify_toy_specs(tier):
    if tier == "quick":
        return [ecgen.spec_of(c) for c in ecgen.toy_curves(32) if c.name in VERIFY_TOY_QUICK]
    return ecgen.toy_specs(32, nmax=19)


def cases_verify_toy(tier):
    for spec in _verify_toy_specs(tier):
        c = ref_curve(spec)
        n = c.n
        for d in range(1, n):
            Q = list(c.mul(d, c.G))
            for z in range(1, 3 * n + 1):
                for r in range(-1, n + 2):
                    for s in range(-1, n + 2):
                        yield {"curve": spec, "Q": Q, "z": z, "r": r, "s": s, "cls": "exhaustive"}


def nt_verify_toy(case, labels):
    return "expect=accept" in labels or "sum-is-infinity" in labels or "out-of-range" in labels


def s_verify_toy_big():
    """generated candidates on all toy curves p < 200 (the ones too large for the exhaustive tier included)"""
    def mk(sp, d, z, k, cls, a1, a2):
        c = ref_curve(sp)
        n = c.n
        Q = c.mul_fast(d, c.G)
        r0, s0, _R = refecdsa.sign_with_k(c, d, z, k)
        r, s = r0, s0
        if cls == "malleated":
            s = n - s0
        elif cls == "r-out":
            r = _out_values(r0, n, a1)
        elif cls == "s-out":
            s = _out_values(s0, n, a1)
        elif cls == "other-key":
            Q = c.mul_fast(a1 % (n - 1) + 1, c.G)
        elif cls == "other-z":
            z = a2 % (3 * n) + 1
        elif cls == "random":
            r, s = a1 % (n + 3) - 1, a2 % (n + 3) - 1
        elif cls == "infinity":
            r, s = (-z * pow(d, -1, n)) % n, a2 % (n - 1) + 1
        return {"curve": sp, "Q": list(Q), "z": z, "r": r, "s": s, "cls": cls}
    return st.sampled_from(ecgen.toy_specs(200)).flatmap(lambda sp: st.builds(
        mk, st.just(sp), st.integers(1, sp[5] - 1), st.one_of(st.integers(1, 3 * sp[5]), st.integers(1, (1 << 256) - 1)),
        st.integers(1, sp[5] - 1), st.sampled_from(["valid", "malleated", "r-out", "s-out", "other-key", "other-z", "random", "infinity"]),
        st.integers(0, 1 << 64), st.integers(0, 1 << 64)))


# ------------------------------------------------------------------------------------------------ recovery


def o_recover(case, cfgs=ACCEL):
    spec, z, r, s = case["curve"], case["z"], case["r"], case["s"]
    c = ref_curve(spec)
    n = c.n
    in_range = 1 <= r < n and 1 <= s < n
    labels = [curve_label(spec), "cls=" + case.get("cls", "?"), "in-range" if in_range else "out-of-range"]
    signer = None
    if case.get("d") is not None and in_range:
        d = case["d"]
        k = pow(s, -1, n) * (z + r * d) % n
        R = c.mul_fast(k, c.G)
        if R is not None and R[0] % n == r and R[0] < n:
            signer = (c.mul_fast(d, c.G), R[1] & 1)
            labels.append("signer-known")
    memo = {}

    def ref_verify(K):
        if K not in memo:
            memo[K] = refecdsa.verify(c, K, z, r, s)
        return memo[K]
    for cfg in _cfg_list(spec, cfgs):
        g = get_gen(spec, cfg)
        _require_pure_in_worker(g)
        nkeys = 0
        for par in (None, 0, 1):
            where = "possible_public_pairs_for_signature(z=%s, (r,s)=(%s,%s), y_parity=%r) on %s/%s" % (
                _h(z), _h(r), _h(s), par, c.name, cfg)
            try:
                keys = g.possible_public_pairs_for_signature(z, (r, s)) if par is None else \
                    g.possible_public_pairs_for_signature(z, (r, s), y_parity=par)
            except (AssertionError, TypeError, ValueError, ZeroDivisionError) as ex:
                if not in_range:
                    _bad("recover:out-of-range-rs-raises", "%s raised %s(%s); (r,s) is outside [1,n-1]^2 (n=%s) so no key can verify: "
                         "expected an empty list" % (where, type(ex).__name__, ex, _h(n)))
                raise
            keys = [tuple(K) for K in keys]
            nkeys += len(keys)
            for K in keys:
                if not in_range:
                    _bad("recover:out-of-range-rs-returns-keys", "%s returned key %r; (r,s) is outside [1,n-1]^2 (n=%s), the signature "
                         "verifies under no key" % (where, list(K), _h(n)))
                if r >= c.p:
                    _bad("recover:in-range-r>=p-returns-keys", "%s returned key %r; r=%d is >= p=%d, so no curve point has abscissa r and "
                         "the signature verifies under no key (r was silently treated as r mod p)" % (where, list(K), r, c.p))
                if K == (None, None):
                    labels.append("recovered-infinity")     # s*R == z*G: the equation holds with Q = infinity; outside the key domain
                    continue
                if not c.on_curve(K):
                    _bad("recover:returns-off-curve-point", "%s returned %r, not a reduced point of the curve" % (where, K))
                if not ref_verify(K):
                    _bad("recover:returned-key-does-not-verify", "%s returned key %r under which the signature does not verify" % (where, list(K)))
                if par is None and pyc_verify(g, c, K, z, r, s) is not True:
                    _bad("recover:returned-key-refused-by-verify", "%s returned key %r which %s/%s verify refuses" % (where, list(K), c.name, cfg))
            if signer is not None and (par is None or par == signer[1]) and signer[0] not in keys:
                _bad("recover:signer-missing", "%s = %r lacks the signer's key %r (nonce abscissa < n)" % (where, keys, signer[0]))
        if cfg == _cfg_list(spec, cfgs)[0]:
            labels.append("keys=%d" % min(nkeys, 4))
    return labels


def o_recover_pure(case):
    return o_recover(case, ("pure",))


def o_recover_worker(case):
    return o_recover(case, ("shipped",)) + ["child-backend=" + backend_of(get_gen(case["curve"], "shipped"))]


def o_recover_native_none(case):
    return subproc.call(THIS, "o_recover_worker", case, NATIVE_NONE)


RECOVER_CLASSES = ["valid", "valid", "malleated", "r+n", "r-in-[n,p)", "s-out", "r-out", "random", "other-z", "r-in-[n,p)", "s-out"]


def _mk_recover(cv, d, z, k, cls, a1, a2):
    c = REF[cv]
    n, p = c.n, c.p
    r0, s0, _R = refecdsa.sign_with_k(c, d, z, k)
    out = {"curve": cv, "z": z, "r": r0, "s": s0, "cls": cls}
    if cls in ("valid", "malleated"):
        out["d"] = d
        if cls == "malleated":
            out["s"] = n - s0
    elif cls == "r+n":
        out["r"] = r0 + n
    elif cls == "r-in-[n,p)":
        out["r"] = n + a1 % (p - n)
    elif cls == "s-out":
        out["s"] = [0, n, -1, n + 1, s0 + n, -s0, 2 * n][a1 % 7]
    elif cls == "r-out":
        out["r"] = [0, -1, n, p, p + 1, (1 << 256) - 1, p - 1, r0 - n, -r0, n + 1][a1 % 10]
    elif cls == "random":
        out["r"], out["s"] = a1 % (n - 1) + 1, a2 % (n - 1) + 1
    elif cls == "other-z":
        out["z"] = a2 % ((1 << 256) - 1) + 1
    return out


def s_recover():
    return st.sampled_from(["k1", "r1"]).flatmap(lambda cv: st.builds(
        _mk_recover, st.just(cv), ecgen.scalars(REF[cv].n), ecgen.hashes(REF[cv].n), ecgen.scalars(REF[cv].n),
        st.sampled_from(RECOVER_CLASSES), st.integers(0, 1 << 256), st.integers(0, 1 << 256)))


RECOVER_TOY_QUICK = ["toy-p7-a1-b1-n5", "toy-p11-a2-b7-n7", "toy-p7-a1-b6-n11", "toy-p7-a0-b3-n13", "toy-p11-a1-b6-n13",
                     "toy-p19-a0-b2-n13", "toy-p19-a2-b18-n13"]


def _recover_toy_specs(tier):
    if tier == "quick":
        return [ecgen.spec_of(c) for c in ecgen.toy_curves(32) if c.name in RECOVER_TOY_QUICK]
    return ecgen.toy_specs(48, nmax=31)


def cases_recover_toy(tier):
    for spec in _recover_toy_specs(tier):
        p, n = spec[0], spec[5]
        for z in range(1, n + 3):
            for r in range(-1, p + 2):
                for s in range(-1, n + 2):
                    yield {"curve": spec, "z": z, "r": r, "s": s, "cls": "exhaustive"}


def nt_recover(case, labels):
    return "keys=0" not in labels or "out-of-range" in labels


# ------------------------------------------------------------------------------------------------ Key wrapper

_KEY_CLASSES = {}


def _key_class(cv):
    if cv not in _KEY_CLASSES:
        if cv == "k1":
            from pycoin.symbols.btc import network
            cls = network.keys.private(secret_exponent=1).__class__
            if cls._generator is not get_gen("k1", "shipped"):
                raise HarnessError("BTC Key class does not use the shipped secp256k1 generator")
        else:
            from pycoin.key.Key import Key
            cls = Key.make_subclass("R1TEST", None, get_gen("r1", "shipped"))
        _KEY_CLASSES[cv] = cls
    return _KEY_CLASSES[cv]


def _der_int_signed(v):
    if v >= 0:
        return refenc.der_int(v)
    nb = 1
    while not (-(1 << (8 * nb - 1)) <= v):
        nb += 1
    b = (v + (1 << (8 * nb))).to_bytes(nb, "big")
    return b"\x02" + bytes([len(b)]) + b


def _der_sig_signed(r, s):
    body = _der_int_signed(r) + _der_int_signed(s)
    return b"\x30" + refenc._der_len(len(body)) + body


def o_key(case):
    cv, d, h = case["curve"], case["d"], bytes.fromhex(case["h"])
    c = REF[cv]
    n = c.n
    z = int.from_bytes(h, "big")
    K = _key_class(cv)
    labels = [curve_label(cv), "cls=" + case["cls"]]
    key = K(secret_exponent=d)
    Q = c.mul_fast(d, c.G)
    if tuple(key.public_pair()) != Q:
        _bad("key:public_pair!=dG", "Key(secret_exponent=%s).public_pair() = %r, reference %r" % (_h(d), key.public_pair(), Q))
    der = key.sign(h)
    r0, s0, _k, _R = refecdsa.sign(c, d, z)
    want = refenc.der_sig(r0, s0)
    if der != want and not (ecgen.LIBSECP_PRESENT and der == refenc.der_sig(r0, n - s0)):
        _bad("key:sign!=DER(rfc6979)", "Key.sign(%s) under d=%s on %s = %s, minimal DER of the RFC 6979 signature is %s"
             % (case["h"], _h(d), c.name, der.hex(), want.hex()))
    pub = K(public_pair=Q)
    for who, kk in (("private", key), ("public", pub)):
        if kk.verify(h, der) is not True:
            _bad("key:own-signature-rejected", "%s Key.verify refuses Key.sign output for d=%s h=%s" % (who, _h(d), case["h"]))
    # candidate (Q', h', r, s)
    Q2 = c.mul_fast(case["d2"], c.G)
    h2 = bytes.fromhex(case["h2"])
    z2 = int.from_bytes(h2, "big")
    r, s = case["r"], case["s"]
    if r is None:
        r, s = r0, s0
    if case["cls"] == "infinity":
        r = (-z2 * pow(case["d2"], -1, n)) % n
    exp = refecdsa.verify(c, Q2, z2, r, s) if z2 != 0 else False
    blob = _der_sig_signed(r, s)
    try:
        got = K(public_pair=Q2).verify(h2, blob)
    except TypeError as ex:
        if _sum_is_infinity(c, Q2, z2, r, s):
            _bad("verify:raises-TypeError-when-u1G+u2Q-is-infinity", "Key.verify(h=%s, DER(r=%s, s=%s)) under Q=%r on %s raised "
                 "TypeError(%s): (z/s)G + (r/s)Q is infinity" % (case["h2"], _h(r), _h(s), list(Q2), c.name, ex))
        raise
    if got != exp:
        _bad("key:verify-accepts-invalid" if not exp else "key:verify-rejects-valid",
             "Key.verify(h=%s, DER(r=%s, s=%s)) under Q=%r on %s -> %r, equation says %r [class %s]"
             % (case["h2"], _h(r), _h(s), list(Q2), c.name, got, exp, case["cls"]))
    labels.append("expect=" + ("accept" if exp else "reject"))
    return labels


KEY_CLASSES = ["same", "other-key", "other-hash", "malleated", "r-out", "s-out", "negative", "infinity", "random"]


def s_key():
    def mk(cv, d, z, cls, a1, a2, d2, z2):
        n = REF[cv].n
        h = z.to_bytes(32, "big").hex()
        out = {"curve": cv, "d": d, "h": h, "cls": cls, "d2": d, "h2": h, "r": None, "s": None}
        if cls == "other-key":
            out["d2"] = d2 if d2 != d else d % (n - 1) + 1
        elif cls == "other-hash":
            out["h2"] = (z2 if z2 != z else z ^ 1 or 1).to_bytes(32, "big").hex()
        elif cls in ("malleated", "r-out", "s-out", "negative", "random"):
            c = REF[cv]
            r0, s0, _k, _R = refecdsa.sign(c, d, z)
            if cls == "malleated":
                out["r"], out["s"] = r0, n - s0
            elif cls == "r-out":
                out["r"], out["s"] = [0, n, n + 1, (1 << 256) - 1, r0 + n, 2 * n][a1 % 6], s0
            elif cls == "s-out":
                out["r"], out["s"] = r0, [0, n, n + 1, (1 << 256) - 1, s0 + n, 2 * n][a1 % 6]
            elif cls == "negative":
                out["r"], out["s"] = [(-r0, s0), (r0, -s0), (r0 - n, s0), (r0, s0 - n), (-1, s0), (r0 - (1 << 256), s0)][a1 % 6]
            else:
                out["r"], out["s"] = a1 % (n - 1) + 1, a2 % (n - 1) + 1
        elif cls == "infinity":
            out["r"], out["s"] = 0, a2 % (n - 1) + 1          # r is filled in by the oracle from (h2, d2)
        return out
    return st.sampled_from(["k1", "k1", "r1"]).flatmap(lambda cv: st.builds(
        mk, st.just(cv), ecgen.scalars(REF[cv].n), ecgen.hashes(REF[cv].n), st.sampled_from(KEY_CLASSES),
        st.integers(0, 1 << 256), st.integers(0, 1 << 256), ecgen.scalars(REF[cv].n), ecgen.hashes(REF[cv].n)))


# ------------------------------------------------------------------------------------------------ sub-checks

_R_SIGN = ("(curve, d in [1,n-1], z in [1,2^256-1]) with d, z from boundary (1,2,n-2,n-1,n/2, 2^k, 2^k+-1; z in n-1,n,n+1,2n..,2^256-1), "
           "byte patterns and uniform: deterministic_generate_k == RFC 6979 nonce; sign/sign_with_recid in range, == reference signature, "
           "verifies on every configuration, recid == parity/overflow of the nonce point, recovery (with and without y_parity) "
           "contains the signer; non-trivial = d != 1 and (d or z boundary, z >= n, first nonce gives zero, nonce abscissa >= n, or toy curve)")
_R_VERIFY = ("(Q on curve, z, candidate (r,s)) from classes valid / s -> n-s / z+n / r or s in {-1,0,n,n+1,2^256-1,v+n,v-n,-v,2n} / other key / "
             "other z / uniform / neighbours / r = -z/d (sum is infinity): pycoin must return the boolean given by the property's equation "
             "evaluated with the reference arithmetic; non-trivial = class != valid")
_R_RECOVER = ("(z, (r,s)) from classes valid / malleated / r+n / r in [n,p) / s in {0,n,-1,n+1,s+n,-s,2n} / r in {0,-1,n,p,p+1,2^256-1,..} / "
              "uniform / other z, with y_parity None, 0, 1: every returned key must satisfy the reference verification, the signer must be "
              "present when the nonce abscissa < n; non-trivial = some key returned or (r,s) out of range")

# ------------------------------------------------------------------------------------------------ one generator, long use


def o_sign_history(case):
    """one generator object serving a long-running process: tens of thousands of multiplications, and around every power of
    two of that count a burst of sign / verify calls whose results are the RFC 6979 signature and True, as on a fresh object.
    The entropy source answers differently every time it is asked."""
    import hashlib
    spec, cfg, upto, seed = case["curve"], case["cfg"], case["upto"], case["seed"]
    c = REF[spec]
    n = c.n
    asked = [0]

    def entropy_f(nbytes):
        asked[0] += 1
        return (hashlib.sha256(b"verif c01 history %d %d" % (seed, asked[0])).digest() * (nbytes // 32 + 1))[:nbytes]
    g = ecgen.build_generator(spec, cfg, entropy_f=entropy_f)
    d = (seed * 0x9E3779B97F4A7C15 + 12345) % (n - 1) + 1
    Q = c.mul_fast(d, c.G)
    # a generator handed to a worker process / kept in a copied configuration object: where copying or pickling the object
    # works at all (it raises on some versions - not judged), the copy signs and verifies like the original
    import copy as _copy
    import pickle as _pickle
    for how, mk in (("copy.copy", _copy.copy), ("copy.deepcopy", _copy.deepcopy), ("pickle", lambda o: _pickle.loads(_pickle.dumps(o)))):
        try:
            dup = mk(g)
        except Exception:      # noqa
            continue
        z = int.from_bytes(hashlib.sha256(b"copy %d" % seed).digest(), "big") or 1
        r0, s0, _k, _R = refecdsa.sign(c, d, z)
        if r0 and s0:
            got = dup.sign(d, z)
            if tuple(got) != (r0, s0) or dup.verify(Q, z, (r0, s0)) is not True:
                _bad("sign:copied-generator", "%s Generator/%s obtained by %s: sign(d, z) = %r (RFC 6979: (%d, %d)), verify of the valid "
                     "signature = %r" % (c.name, cfg, how, tuple(got), r0, s0, dup.verify(Q, z, (r0, s0))))
    made, bursts = 0, 0
    boundary = 256
    while boundary <= upto:
        while made < boundary - 8:
            g * (made + 2)
            made += 1
        for j in range(16):
            z = int.from_bytes(hashlib.sha256(b"msg %d %d %d" % (seed, boundary, j)).digest(), "big") or 1
            r0, s0, _k, _R = refecdsa.sign(c, d, z)
            if r0 == 0 or s0 == 0:
                continue
            got = g.sign(d, z)
            made += 1
            if tuple(got) != (r0, s0):
                _bad("sign:history:call-count-dependent", "%s Generator/%s: after about %d multiplications on this object sign(d, z) = %r, the "
                     "RFC 6979 signature is (%d, %d)" % (c.name, cfg, made, tuple(got), r0, s0))
            ok = g.verify(Q, z, (r0, s0))
            made += 1
            if ok is not True:
                _bad("verify:history:call-count-dependent", "%s Generator/%s: after about %d multiplications on this object verify refuses "
                     "the valid signature (%d, %d) of z=%d" % (c.name, cfg, made, r0, s0, z))
        bursts += 1
        boundary *= 2
    return [curve_label(spec), "cfg=" + cfg, "multiplications>16384" if made > 16384 else "multiplications<=16384"]


def cases_sign_history(tier):
    if ecgen.OPENSSL_PRESENT:
        yield {"curve": "k1", "cfg": "openssl", "upto": 2 ** 15 if tier == "quick" else 2 ** 17, "seed": 1}
        if tier != "quick":
            yield {"curve": "r1", "cfg": "openssl", "upto": 2 ** 16, "seed": 2}
    yield {"curve": "k1", "cfg": "pure", "upto": 2 ** 9 if tier == "quick" else 2 ** 11, "seed": 3}


SUBCHECKS = [
    SubCheck("sign_verify_long_lived_generator", o_sign_history, cases=cases_sign_history, exhaustive=False,
             nontrivial=lambda c, l: "multiplications>16384" in l,
             rule="one freshly constructed generator (OpenSSL class; a short run on the pure class) whose entropy source never repeats, used "
                  "for 2^15 (thorough 2^17) multiplications; around every power of two of that count 16 sign / verify pairs: sign equals the "
                  "RFC 6979 signature of the reference, verify accepts it - whatever the object has done before; non-trivial = more than "
                  "16384 multiplications on the object"),
    SubCheck("sign_adversarial_blinding", o_sign_blinding, strategy=s_sign_blinding, budget=(320, 12000),
             nontrivial=lambda c, l: "blinding-as-chosen" in l,
             rule="secp256k1 / secp256r1 generator instances (OpenSSL class and pure) constructed with a blinding factor that cancels this case's RFC 6979 nonce (k + b = n), or its u1 = z/s (for either sign of s), in the blinded fixed-base multiplication: sign must still equal the RFC 6979 signature, verify must accept it and refuse z+1, G*d must be the public key; non-trivial = the instance really has the chosen blinding factor"),
    SubCheck("sign_rfc6979", o_sign, strategy=s_sign, budget=(1200, 40000), nontrivial=nt_sign,
             rule="secp256k1 + secp256r1, shipped and explicit-OpenSSL generators: " + _R_SIGN),
    SubCheck("sign_rfc6979_pure", o_sign_pure, strategy=s_sign, budget=(64, 2000), nontrivial=nt_sign,
             rule="pure-Python Generator(p,a,b,G,n) for secp256k1 / secp256r1: " + _R_SIGN),
    SubCheck("sign_rfc6979_native_none", o_sign_native_none, strategy=s_sign, budget=(48, 800), nontrivial=nt_sign,
             rule="shipped generators inside a PYCOIN_NATIVE=none child interpreter: " + _R_SIGN),
    SubCheck("sign_toy_exhaustive", o_sign_pure, cases=cases_sign_toy, exhaustive=True, nontrivial=nt_sign,
             rule="every toy curve p < 24 (thorough: p < 72), every d in [1,n-1], z in [1,n+2] + every value of the top qlen bits "
                  "(each RFC 6979 h1) + 2^256-1: same assertions as sign_rfc6979; when the first RFC 6979 nonce gives r=0 or s=0 "
                  "equality is skipped (label first-nonce-gives-zero) but range, verification and recovery still hold"),
    SubCheck("sign_toy_generated", o_sign_pure, strategy=s_sign_toy_big, budget=(800, 60000), nontrivial=nt_sign,
             rule="toy curves 24 <= p < 200, sampled d and z (structured and uniform 256-bit): same assertions as sign_toy_exhaustive"),
    SubCheck("nonce_separation", o_nonce_sep, strategy=s_nonce_sep, budget=(400, 40000),
             nontrivial=lambda c, l: "congruent-inputs(not-asserted)" not in l,
             rule="pairs (d,z),(d',z') differing in one bit / by one / arbitrarily in z or d on 256-bit curves: nonces (recovered "
                  "algebraically) and r differ; z vs z+n is generated but not asserted (RFC 6979 maps them to one nonce)"),
    SubCheck("verify_iff_equation", o_verify, strategy=s_verify, budget=(2000, 40000), nontrivial=nt_verify,
             rule="secp256k1 + secp256r1, shipped and explicit-OpenSSL: " + _R_VERIFY),
    SubCheck("verify_iff_equation_pure", o_verify_pure, strategy=s_verify, budget=(320, 4000), nontrivial=nt_verify,
             rule="pure-Python generators: " + _R_VERIFY),
    SubCheck("verify_native_none", o_verify_native_none, strategy=s_verify, budget=(96, 800), nontrivial=nt_verify,
             rule="shipped generators inside a PYCOIN_NATIVE=none child: " + _R_VERIFY),
    SubCheck("verify_toy_exhaustive", o_verify_pure, cases=cases_verify_toy, exhaustive=True, nontrivial=nt_verify_toy,
             rule="toy curves (quick: (p,n) = (7,5),(11,7),(19,13) with n<p and (7,11) with n>p; thorough: all with p<32, n<=19): every Q != "
                  "infinity, every z in [1,3n], every (r,s) in [-1,n+1]^2; non-trivial = accepted, or sum at infinity, or out of range"),
    SubCheck("verify_toy_generated", o_verify_pure, strategy=s_verify_toy_big, budget=(2000, 100000), nontrivial=nt_verify,
             rule="all toy curves p < 200, sampled candidates by class (same classes as verify_iff_equation)"),
    SubCheck("recovery", o_recover, strategy=s_recover, budget=(1200, 40000), nontrivial=nt_recover,
             rule="secp256k1 + secp256r1, shipped and explicit-OpenSSL: " + _R_RECOVER),
    SubCheck("recovery_pure", o_recover_pure, strategy=s_recover, budget=(60, 1200), nontrivial=nt_recover,
             rule="pure-Python generators: " + _R_RECOVER),
    SubCheck("recovery_native_none", o_recover_native_none, strategy=s_recover, budget=(40, 600), nontrivial=nt_recover,
             rule="shipped generators inside a PYCOIN_NATIVE=none child: " + _R_RECOVER),
    SubCheck("recovery_toy_exhaustive", o_recover_pure, cases=cases_recover_toy, exhaustive=True, nontrivial=nt_recover,
             rule="toy curves of both shapes (n<p: (7,5),(11,7),(19,13)x2; n>p: (7,11),(7,13),(11,13); thorough: all p<48, n<=31): every z "
                  "in [1,n+2], r in [-1,p+1], s in [-1,n+1], y_parity None/0/1: every returned key verifies by the reference"),
    SubCheck("key_wrapper", o_key, strategy=s_key, budget=(800, 30000), nontrivial=lambda c, l: c["cls"] != "same",
             rule="Key.sign(h) == minimal DER of the RFC 6979 signature; Key.verify true for signer (private and public Key), and for a "
                  "candidate (other key / other hash / malleated / r,s in {0,n,n+1,2^256-1,v+n,2n} / negative DER integers / sum at "
                  "infinity / uniform) equal to the property's equation"),
]
