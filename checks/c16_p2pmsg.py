"""C16 - Peer-to-peer messages round-trip through pack and parse for every message type.

One sub-check (strategy + hand-written reference encoder in oracles/refser.MESSAGE_ENCODERS) per message name.
The set of names is read from the tree at import; a name with no strategy/encoder here is a harness error.
"""
import hashlib

from hypothesis import strategies as st

from gen import txgen
from gen.common import boundary_ints
from gen.txgen import blob, blob_len, expand_tx, weighted
from oracles import refser
from vlib import core
from vlib.core import HarnessError, SubCheck, Violation

from pycoin.message.InvItem import InvItem
from pycoin.message.PeerAddress import PeerAddress
from pycoin.message.make_parser_and_packer import STANDARD_P2P_MESSAGES
from pycoin.symbols.btc import network as BTC
from pycoin.symbols.ltc import network as LTC

PROPERTY = "C16"
NETS = {"BTC": BTC, "LTC": LTC}
ASSUMPTIONS = [
    "oracles/refser.py message encoders: written per message from the protocol documentation / BIP37 / BIP152 field types; "
    "calibrated on the developer-reference version message, network address and inventory encodings, and a BIP37 "
    "partial-merkle-tree builder checked against an independent extractor and block 80974",
    "the field list (names, declared types) of each message is the library's own table; the property asks for the Bitcoin "
    "wire encoding *of those fields*, so e.g. cmpctblock.header_hash is encoded as a 32-byte hash although BIP152 sends a header",
    "merkleblock cases carry a valid BIP37 proof (parse validates the proof by design); alert payloads are well-formed alert bodies",
    "an absent optional relay flag may parse as None or False (the property does not say how absence is represented)",
    "blocks in the block message have >= 1 transaction and a correct merkle root",
]
CONFIGURATIONS = ["BTC network.message (BTC Tx / Block classes)", "LTC network.message (LTCTx / LTCBlock)"]
UNEXPLORED = ["BTG network (different header layout), GRS (hash module missing)",
              "arrays of embedded transactions longer than 6 elements",
              "cmpctblock/filterload layouts are not compared with BIP152/BIP37 field lists (outside the property as worded)"]

U32, U64, U48 = 2**32 - 1, 2**64 - 1, 2**48 - 1

# my own statement of each message's field list (name, kind); kinds:
#   u8 u32 u64 u48 compact bool optbool str hash addr bytes1 inv tx header block, ("arr", kind), ("tuple", kind, kind)
INV_ARR = [("items", ("arr", "inv"))]
LOCATOR = [("version", "u32"), ("hashes", ("arr", "hash")), ("hash_stop", "hash")]
SPEC = {
    "version": [("version", "u32"), ("services", "u64"), ("timestamp", "u64"), ("remote_address", "addr"),
                ("local_address", "addr"), ("nonce", "u64"), ("subversion", "str"), ("last_block_index", "u32"),
                ("relay", "optbool")],
    "verack": [], "sendheaders": [], "getaddr": [], "mempool": [], "sendaddrv2": [], "filterclear": [],
    "addr": [("date_address_tuples", ("arr", ("tuple", "u32", "addr")))],
    "inv": INV_ARR, "getdata": INV_ARR, "notfound": INV_ARR,
    "reject": [("message", "str"), ("code", "u8"), ("reason", "str"), ("data", "hash")],
    "getblocks": LOCATOR, "getheaders": LOCATOR,
    "tx": [("tx", "tx")],
    "block": [("block", "block")],
    "headers": [("headers", ("arr", ("tuple", "header", "compact")))],
    "feefilter": [("fee_filter_value", "u64")],
    "sendcmpct": [("enabled", "bool"), ("version", "u64")],
    "cmpctblock": [("header_hash", "hash"), ("nonce", "u64"), ("short_ids", ("arr", "u48")),
                   ("prefilled_txs", ("arr", ("tuple", "compact", "tx")))],
    "getblocktxn": [("header_hash", "hash"), ("indices", ("arr", "compact"))],
    "blocktxn": [("header_hash", "hash"), ("txs", ("arr", "tx"))],
    "ping": [("nonce", "u64")], "pong": [("nonce", "u64")],
    "filterload": [("filter", "bytes1"), ("hash_function_count", "u32"), ("tweak", "u32"), ("flags", "bool")],
    "filteradd": [("data", "bytes1")],
    "merkleblock": [("header", "header"), ("total_transactions", "u32"), ("hashes", ("arr", "hash")), ("flags", "bytes1")],
    "alert": [("payload", "str"), ("signature", "str")],
}


def _bad(b, m):
    raise Violation(b, m)


# ------------------------------------------------------------------ JSON value -> reference model / pycoin object


def to_model(kind, v):
    if isinstance(kind, tuple):
        if kind[0] == "arr":
            return [to_model(kind[1], x) for x in v]
        return tuple(to_model(k, x) for k, x in zip(kind[1:], v))
    if kind in ("u8", "u32", "u64", "u48", "compact", "bool", "optbool"):
        return v
    if kind == "str":
        return blob(v)
    if kind == "bytes1":
        return list(blob(v))
    if kind == "hash":
        return bytes.fromhex(v)
    if kind == "addr":
        return {"services": v["services"], "ip": bytes.fromhex(v["ip"]), "port": v["port"]}
    if kind == "inv":
        return {"type": v["type"], "hash": bytes.fromhex(v["hash"])}
    if kind == "tx":
        return expand_tx(v)
    if kind == "header":
        m = {"version": v["version"], "prev": bytes.fromhex(v["prev"]), "merkle": bytes.fromhex(v["merkle"]),
             "time": v["time"], "bits": v["bits"], "nonce": v["nonce"]}
        if v.get("carry"):
            # the header is handed over as a full block object (one that came from Block.parse, say): the Block carries
            # transactions, its merkle root is theirs; what goes on the wire for a header field is still the 80 bytes
            m["carry_txs"] = [{"version": 1, "lock_time": 0, "ins": [{"prev": bytes([k + 1]) * 32, "index": k, "script": b"\x51",
                                                                      "sequence": 0xFFFFFFFF, "witness": []}],
                               "outs": [{"value": k, "script": b"\x51"}]} for k in range(v["carry"])]
            m["merkle"] = refser.merkle_root([refser.tx_hash(t) for t in m["carry_txs"]])
        return m
    if kind == "block":
        txs = [expand_tx(t) for t in v["txs"]]
        h = to_model("header", dict(v["header"], merkle="00" * 32, carry=0))
        h["merkle"] = refser.merkle_root([refser.tx_hash(t) for t in txs])
        return {"header": h, "txs": txs}
    raise HarnessError("unknown kind %r" % (kind,))


def to_py(kind, m, net):
    """reference model value -> the value pycoin's pack expects"""
    if isinstance(kind, tuple):
        if kind[0] == "arr":
            return [to_py(kind[1], x, net) for x in m]
        return tuple(to_py(k, x, net) for k, x in zip(kind[1:], m))
    if kind in ("u8", "u32", "u64", "u48", "compact", "bool", "optbool", "str", "hash", "bytes1"):
        return m
    if kind == "addr":
        return PeerAddress(m["services"], m["ip"], m["port"])
    if kind == "inv":
        return InvItem(m["type"], m["hash"], dont_check=m["type"] not in (1, 2, 3))
    if kind == "tx":
        return txgen.to_pycoin(net.tx, m)
    if kind == "header":
        b = net.block(m["version"], m["prev"], m["merkle"], m["time"], m["bits"], m["nonce"])
        if m.get("carry_txs"):
            b.set_txs([txgen.to_pycoin(net.tx, t) for t in m["carry_txs"]])
        return b
    if kind == "block":
        b = to_py("header", m["header"], net)
        b.set_txs([txgen.to_pycoin(net.tx, t) for t in m["txs"]])
        return b
    raise HarnessError("unknown kind %r" % (kind,))


def diff(kind, got, m, net, path):
    """None if the parsed value `got` equals the model value m, else a short description"""
    if isinstance(kind, tuple):
        if not isinstance(got, (tuple, list)):
            return "%s: not a sequence: %r" % (path, got)
        if kind[0] == "arr":
            if len(got) != len(m):
                return "%s: %d elements, expected %d" % (path, len(got), len(m))
            for i, (g, x) in enumerate(zip(got, m)):
                d = diff(kind[1], g, x, net, "%s[%d]" % (path, i))
                if d:
                    return d
            return None
        if len(got) != len(kind) - 1:
            return "%s: tuple of %d" % (path, len(got))
        for i, (k, g, x) in enumerate(zip(kind[1:], got, m)):
            d = diff(k, g, x, net, "%s.%d" % (path, i))
            if d:
                return d
        return None
    if kind in ("u8", "u32", "u64", "u48", "compact"):
        return None if (isinstance(got, int) and got == m) else "%s: %r expected %r" % (path, got, m)
    if kind == "bool":
        return None if (got is True or got is False) and got == m else "%s: %r expected %r" % (path, got, m)
    if kind == "optbool":
        if m is None:
            return None if got in (None, False) else "%s: absent flag parsed as %r" % (path, got)
        return None if (got is True or got is False) and got == m else "%s: %r expected %r" % (path, got, m)
    if kind in ("str", "hash"):
        return None if isinstance(got, bytes) and bytes(got) == m else "%s: %r expected %s" % (path, got, m.hex()[:64])
    if kind == "bytes1":
        return None if list(got) == m else "%s: byte array differs" % path
    if kind == "addr":
        want = PeerAddress(m["services"], m["ip"], m["port"])
        if not isinstance(got, PeerAddress) or not (got == want) or got.services != m["services"] or got.port != m["port"] \
                or got.ip_bin != refser.net_ip(m["ip"]):
            return "%s: %r (services %r) expected %r (services %d)" % (path, got, getattr(got, "services", None), want, m["services"])
        return None
    if kind == "inv":
        want = InvItem(m["type"], m["hash"], dont_check=True)
        if not isinstance(got, InvItem) or not (got == want) or got.item_type != m["type"] or got.data != m["hash"]:
            return "%s: %r expected type %d hash %s" % (path, got, m["type"], m["hash"].hex())
        return None
    if kind == "tx":
        return None if isinstance(got, net.tx) and got.as_bin() == refser.ser_tx(m) else "%s: transaction serialises differently" % path
    if kind == "header":
        return None if isinstance(got, net.block) and got.as_bin() == refser.ser_header(m) else "%s: header serialises differently" % path
    if kind == "block":
        return None if isinstance(got, net.block) and got.as_bin() == refser.ser_block(m["header"], m["txs"]) else \
            "%s: block serialises differently" % path
    raise HarnessError("unknown kind %r" % (kind,))


# ------------------------------------------------------------------ case -> field models


def fields_model(name, case):
    """the reference-model value of every declared field (special cases derive fields from a compact description)"""
    f = case["fields"]
    if name == "merkleblock":
        n, seed = f["n"], f["seed"]
        ids = [hashlib.sha256(b"%d:%d" % (seed, i)).digest() for i in range(n)]
        matches = [bool(f["match_mask"] >> i & 1) for i in range(n)]
        hashes, flags = refser.partial_merkle_tree(ids, matches)
        h = to_model("header", dict(f["header"], merkle="00" * 32, carry=0))
        h["merkle"] = refser.merkle_root(ids)
        return {"header": h, "total_transactions": n, "hashes": hashes, "flags": list(flags)}, \
               {"tx_hashes": [ids[i] for i in range(n) if matches[i]], "flag_bits": refser.partial_merkle_tree_bits(n, matches)}
    if name == "alert":
        body = dict(f["body"])
        for k in ("comment", "statusBar", "reserved"):
            body[k] = blob(body[k])
        body["setSubVer"] = [blob(x) for x in body["setSubVer"]]
        return {"payload": refser.ser_alert_body(body), "signature": blob(f["signature"])}, {"alert_info": body}
    return {fname: to_model(kind, f[fname]) for fname, kind in SPEC[name]}, {}


ALERT_KINDS = [("version", "u32"), ("relayUntil", "u64"), ("expiration", "u64"), ("id", "u32"), ("cancel", "u32"),
               ("setCancel", ("arr", "u32")), ("minVer", "u32"), ("maxVer", "u32"), ("setSubVer", ("arr", "str")),
               ("priority", "u32"), ("comment", "str"), ("statusBar", "str"), ("reserved", "str")]


def _guard(fn):
    """run one half of the oracle; classify an exception escaping from pycoin exactly as the runner would"""
    try:
        fn()
        return None
    except Violation as v:
        return v
    except HarnessError:
        raise
    except Exception as ex:  # noqa - re-raised unless it comes from pycoin code
        fr = core._pycoin_frame(ex.__traceback__)
        if fr is None:
            raise
        return Violation("crash:%s@%s:%s" % (type(ex).__name__, fr[0], fr[1]), "unexpected %s: %s" % (type(ex).__name__, str(ex)[:200]))


def _check_parsed(name, parsed, model, extra, net, origin):
    if not isinstance(parsed, dict):
        _bad("msg:%s:parse-shape" % name, "parse returned %r" % type(parsed))
    for fname, kind in SPEC[name]:
        if fname not in parsed:
            _bad("msg:%s:parse-missing-field" % name, "field %s missing from parse(%s) result" % (fname, origin))
        d = diff(kind, parsed[fname], model[fname], net, fname)
        if d:
            if kind == "optbool" and model[fname] is False and parsed[fname] is True:
                _bad("optbool:00-parsed-as-true", "%s: %s=False is packed as 00 and parsed back as True (%s)" % (name, fname, origin))
            _bad("msg:%s:parse-field:%s" % (name, fname), "parse(%s): %s" % (origin, d))
    if "tx_hashes" in extra:
        if [bytes(x) for x in parsed.get("tx_hashes", ())] != extra["tx_hashes"]:
            _bad("msg:merkleblock:tx_hashes", "tx_hashes %r, expected the matched ids" % (parsed.get("tx_hashes"),))
    if "alert_info" in extra:
        info = parsed.get("alert_info")
        if not isinstance(info, dict):
            _bad("msg:alert:alert_info", "no alert_info")
        for fname, kind in ALERT_KINDS:
            d = diff(kind, info.get(fname), extra["alert_info"][fname], net, "alert_info." + fname)
            if d:
                _bad("msg:alert:alert_info", d)


# ------------------------------------------------------------------ a coin whose header layout differs: Bitcoin Gold


def _btg_header_bytes(h):
    sol = bytes.fromhex(h["solution"])
    return (h["version"].to_bytes(4, "little") + bytes.fromhex(h["prev"]) + bytes.fromhex(h["merkle"]) + h["height"].to_bytes(4, "little") +
            b"\0" * 28 + h["time"].to_bytes(4, "little") + h["bits"].to_bytes(4, "little") + bytes.fromhex(h["nonce"]) +
            refser.compact_size(len(sol)) + sol)


def o_btg_headers(case):
    """'headers' on the Bitcoin Gold network: its wire header is the 140-byte Equihash layout plus the solution for EVERY
    height (the pre-fork 80-byte form only enters the block hash), so pack == that encoding and parse returns the fields"""
    from pycoin.symbols.btg import network as BTG
    hs = case["headers"]
    ref = refser.compact_size(len(hs)) + b"".join(_btg_header_bytes(h) + b"\0" for h in hs)
    objs = [BTG.block(h["version"], bytes.fromhex(h["prev"]), bytes.fromhex(h["merkle"]), h["time"], h["bits"], bytes.fromhex(h["nonce"]),
                      h["height"], bytes.fromhex(h["solution"])) for h in hs]
    packed = BTG.message.pack("headers", headers=[(o, 0) for o in objs])
    if packed != ref:
        _bad("msg:headers:btg:pack!=ref", "BTG pack('headers') of heights %s gives %d bytes, the wire encoding has %d" % (
            [h["height"] for h in hs], len(packed), len(ref)))
    got = BTG.message.parse("headers", ref)["headers"]
    fields = [(g.version, bytes(g.previous_block_hash).hex(), bytes(g.merkle_root).hex(), g.height, g.timestamp, g.difficulty,
               bytes(g.nonce).hex(), bytes(g.solution).hex(), c) for g, c in got]
    want = [(h["version"], h["prev"], h["merkle"], h["height"], h["time"], h["bits"], h["nonce"], h["solution"], 0) for h in hs]
    if fields != want:
        _bad("msg:headers:btg:parse-fields", "BTG parse('headers') returns %r, sent %r" % (fields[:2], want[:2]))
    return ["n=%d" % min(len(hs), 3)] + sorted({"height<fork" if h["height"] < 491407 else "height>=fork" for h in hs})


def s_btg_headers():
    h32 = st.binary(min_size=32, max_size=32).map(bytes.hex)
    hdr = st.fixed_dictionaries({"version": u(U32), "prev": h32, "merkle": h32, "time": u(U32), "bits": u(U32), "nonce": h32,
                                 "height": st.one_of(st.sampled_from([0, 1, 491406, 491407, 491408, 2**32 - 1]), st.integers(0, 10**6)),
                                 "solution": st.one_of(st.just(""), st.binary(max_size=40).map(bytes.hex),
                                                       st.sampled_from([100, 252, 253, 1344]).map(lambda n: "ab" * n))})
    return st.fixed_dictionaries({"headers": st.lists(hdr, min_size=0, max_size=3)})


def make_oracle(name):
    enc = refser.MESSAGE_ENCODERS[name]
    spec = SPEC[name]

    def oracle(case):
        net = NETS[case["net"]]
        model, extra = fields_model(name, case)
        ref = enc(model)
        state = {}

        def half_pack():
            kwargs = {fname: to_py(kind, model[fname], net) for fname, kind in spec}
            # keyword arguments have no order: the fields are handed over in a rotated / reversed order
            names = list(kwargs)
            k = len(ref) % max(1, len(names))
            names = names[k:] + names[:k]
            if len(ref) % 3 == 0:
                names.reverse()
            kwargs = {fname: kwargs[fname] for fname in names}
            try:
                packed = net.message.pack(name, **kwargs)
            except TypeError as ex:
                if core._pycoin_frame(ex.__traceback__) is None:
                    # raised while binding the arguments: pack's own signature cannot take the declared field names
                    _bad("msg:%s:pack-cannot-take-declared-fields" % name, "pack(%r, %s) raised TypeError: %s" % (name, ", ".join(names), ex))
                raise
            state["packed"] = packed
            if packed != ref:
                i = next((k for k, (a, b) in enumerate(zip(packed, ref)) if a != b), min(len(packed), len(ref)))
                _bad("msg:%s:pack!=ref" % name, "pack(%s) differs from the reference encoding at byte %d (len %d vs %d): ...%s vs ...%s" % (
                    name, i, len(packed), len(ref), packed[max(0, i - 4):i + 12].hex(), ref[max(0, i - 4):i + 12].hex()))
            # the same field objects packed again after the caller changed one of them (a header whose timestamp is rolled
            # between two announcements): the bytes describe the fields as they are now
            import copy
            m2, obj = None, None
            if name == "headers" and model["headers"]:
                m2 = copy.deepcopy(model)
                m2["headers"][0][0]["time"] = (m2["headers"][0][0]["time"] + 1) & 0xFFFFFFFF
                obj, new = kwargs["headers"][0][0], m2["headers"][0][0]["time"]
            elif name == "merkleblock":
                m2 = copy.deepcopy(model)
                m2["header"]["time"] = (m2["header"]["time"] + 1) & 0xFFFFFFFF
                obj, new = kwargs["header"], m2["header"]["time"]
            elif name == "block":
                m2 = copy.deepcopy(model)
                m2["block"]["header"]["time"] = (m2["block"]["header"]["time"] + 1) & 0xFFFFFFFF
                obj, new = kwargs["block"], m2["block"]["header"]["time"]
            if name == "version":
                # an address-book entry updated after the handshake revealed the peer's services / a new port
                m3 = copy.deepcopy(model)
                m3["remote_address"]["services"] = (m3["remote_address"]["services"] + 1) & 0xFFFFFFFFFFFFFFFF
                m3["remote_address"]["port"] = (m3["remote_address"]["port"] + 1) & 0xFFFF
                kwargs["remote_address"].services = m3["remote_address"]["services"]
                kwargs["remote_address"].port = m3["remote_address"]["port"]
                again = net.message.pack(name, **kwargs)
                if again != enc(m3):
                    _bad("msg:version:repack-after-edit!=ref", "pack('version') after the remote address object's services / port were assigned "
                         "does not encode the fields as they are now (%s)" % ("it repeats the earlier bytes" if again == packed else "other bytes"))
            elif name == "addr" and model["date_address_tuples"]:
                m3 = copy.deepcopy(model)
                m3["date_address_tuples"][0][1]["port"] = (m3["date_address_tuples"][0][1]["port"] + 1) & 0xFFFF
                m3["date_address_tuples"][0][1]["services"] = (m3["date_address_tuples"][0][1]["services"] ^ 1)
                kwargs["date_address_tuples"][0][1].port = m3["date_address_tuples"][0][1]["port"]
                kwargs["date_address_tuples"][0][1].services = m3["date_address_tuples"][0][1]["services"]
                again = net.message.pack(name, **kwargs)
                if again != enc(m3):
                    _bad("msg:addr:repack-after-edit!=ref", "pack('addr') after the first address object's services / port were assigned does "
                         "not encode the fields as they are now (%s)" % ("it repeats the earlier bytes" if again == packed else "other bytes"))
            if m2 is not None:
                obj.timestamp = new
                again = net.message.pack(name, **kwargs)
                if again != enc(m2):
                    _bad("msg:%s:repack-after-edit!=ref" % name, "pack(%s) after the header's timestamp was assigned %d does not encode the "
                         "fields as they are now (%s)" % (name, new, "it repeats the earlier bytes" if again == packed else "other bytes"))

        def half_parse_ref():
            _check_parsed(name, net.message.parse(name, ref), model, extra, net, "reference bytes")

        def half_roundtrip():
            _check_parsed(name, net.message.parse(name, state["packed"]), model, extra, net, "pack output")

        fails = [v for v in (_guard(half_pack), _guard(half_parse_ref)) if v is not None]
        if "packed" in state and state["packed"] != ref:
            v = _guard(half_roundtrip)
            if v is not None:
                fails.append(Violation(tuple("roundtrip:" + b if not b.startswith(("crash:", "optbool:")) else b for b in v.bucket), v.msg))
        if fails:
            buckets, seen = [], set()
            for v in fails:
                for b in v.bucket:
                    if b not in seen:
                        seen.add(b)
                        buckets.append(b)
            raise Violation(tuple(buckets), " || ".join(v.msg for v in fails))
        return labels_for(name, case, model, extra)
    return oracle


def _walk(kind, m, out):
    if isinstance(kind, tuple):
        if kind[0] == "arr":
            n = len(m)
            out.add("arr=0" if n == 0 else "arr>=0xfd" if n >= 0xFD else "arr=1-252")
            for x in m:
                _walk(kind[1], x, out)
        else:
            for k, x in zip(kind[1:], m):
                _walk(k, x, out)
        return
    lim = {"u8": 255, "u32": U32, "u64": U64, "u48": U48, "compact": U64}.get(kind)
    if lim is not None:
        if m <= 2 or m >= lim - 2 or any(x > 0 and x & (x - 1) == 0 for x in (m - 1, m, m + 1)) or \
                (kind == "compact" and m in (0xFC, 0xFD, 0xFE)):
            out.add("int-boundary")
        if kind == "u48" and m > U32:
            out.add("u48>2^32")
    elif kind == "addr":
        out.add("ip4-short" if len(m["ip"]) == 4 else "ip4-mapped" if m["ip"][:12] == b"\0" * 10 + b"\xff\xff" else "ip6")
        if m["port"] in (0, 65535):
            out.add("port-boundary")
        if m["port"] != ((m["port"] & 0xFF) << 8 | m["port"] >> 8):
            out.add("port-asymmetric")
    elif kind == "optbool":
        out.add("relay=%s" % ("absent" if m is None else m))
    elif kind == "bool":
        out.add("bool=%s" % m)
    elif kind in ("str", "bytes1"):
        n = len(m)
        out.add("bytes=0" if n == 0 else "bytes>=0xfd" if n >= 0xFD else "bytes=1-252")
    elif kind == "tx":
        out.add("tx:" + ("bip144" if refser.has_witness(m) else "legacy"))
    elif kind == "inv":
        out.add("inv-type=%s" % (m["type"] if m["type"] in (1, 2, 3) else "other"))
    elif kind == "block":
        out.add("block:ntx=%d" % len(m["txs"]))
        out.add("block:" + ("has-bip144-tx" if any(refser.has_witness(t) for t in m["txs"]) else "legacy-txs"))
    elif kind == "header":
        out.add("hdr:given-as-full-block" if m.get("carry_txs") else "hdr")


def labels_for(name, case, model, extra):
    out = {"net=" + case["net"]}
    for fname, kind in SPEC[name]:
        _walk(kind, model[fname], out)
    if name == "alert":
        for fname, kind in ALERT_KINDS:
            _walk(kind, extra["alert_info"][fname], out)
    if name == "merkleblock":
        n = model["total_transactions"]
        out.add("mb:n=%s" % (n if n <= 2 else "3-8" if n <= 8 else "9+"))
        k = bin(case["fields"]["match_mask"] & ((1 << n) - 1)).count("1")
        out.add("mb:matched=%s" % ("none" if k == 0 else "all" if k == n else "some"))
        out.add("mb:flag-bits%%8=%d" % (extra["flag_bits"] % 8))
        out.add("mb:flag-bytes=%s" % (len(model["flags"]) if len(model["flags"]) < 3 else "3+"))
    return sorted(out)


def nontrivial(case, labels):
    return any(x in labels for x in ("arr=1-252", "arr>=0xfd", "int-boundary", "bytes=1-252", "bytes>=0xfd")) or \
        any(x.startswith(("tx:", "mb:", "block:", "hdr")) for x in labels)


# ------------------------------------------------------------------ strategies (one per message name)


def u(lim):
    return boundary_ints(0, lim)


def compacts():
    return st.one_of(st.sampled_from([0, 1, 0xFC, 0xFD, 0xFE, 0xFFFF, 0x10000, U32, U32 + 1, U64]), st.integers(0, U64), st.integers(0, 300))


def hashes():
    return txgen.hashes32()


def addrs():
    ip = weighted([
        (30, st.binary(min_size=4, max_size=4).map(bytes.hex)),
        (20, st.binary(min_size=4, max_size=4).map(lambda b: (b"\0" * 10 + b"\xff\xff" + b).hex())),
        (40, st.binary(min_size=16, max_size=16).map(bytes.hex)),
        (10, st.sampled_from(["00" * 16, "ff" * 16, "00" * 15 + "01", "fd87d87eeb43" + "00" * 10, "7f000001", "00000000", "ffffffff"])),
    ])
    port = st.one_of(st.sampled_from([0, 1, 255, 256, 8333, 0x208D, 0x8D20, 65534, 65535]), st.integers(0, 65535))
    return st.builds(lambda s, i, p: {"services": s, "ip": i, "port": p}, u(U64), ip, port)


def invs():
    t = st.one_of(st.sampled_from([1, 2, 3, 1, 2, 3, 4, 0, (1 << 30) | 1, (1 << 30) | 2, U32]), st.integers(0, U32))
    return st.builds(lambda a, b: {"type": a, "hash": b}, t, hashes())


def strs():
    return txgen.blobs(big=1, max_small=30)


def header_fields():
    def mk(v, p, m, t, b, n, carry):
        d = {"version": v, "prev": p, "merkle": m, "time": t, "bits": b, "nonce": n}
        if carry:
            d["carry"] = carry
        return d
    return st.builds(mk, u(U32), hashes(), hashes(), u(U32), u(U32), u(U32), st.sampled_from([0, 0, 0, 0, 1, 2, 3]))


def arrays(elem, heavy=False):
    """0, few, or (rarely) 0xfc/0xfd/0xfe elements; heavy element kinds stay small"""
    if heavy:
        return st.one_of(st.just([]), st.lists(elem, min_size=1, max_size=6))
    # long arrays: a few generated elements repeated cyclically up to the boundary length (cheap to generate and shrink)
    big = st.builds(lambda n, xs: [xs[i % len(xs)] for i in range(n)], st.sampled_from([0xFC, 0xFD, 0xFE, 0x100, 0x101, 0x12C]),
                    st.lists(elem, min_size=1, max_size=5))
    return weighted([(12, st.just([])), (78, st.lists(elem, min_size=1, max_size=6)), (10, big)])


def value_strategy(kind):
    if isinstance(kind, tuple):
        if kind[0] == "arr":
            heavy = kind[1] == "tx" or (isinstance(kind[1], tuple) and "tx" in kind[1])
            return arrays(value_strategy(kind[1]), heavy=heavy)
        return st.tuples(*[value_strategy(k) for k in kind[1:]]).map(list)
    return {
        "u8": lambda: u(255), "u32": lambda: u(U32), "u64": lambda: u(U64), "u48": lambda: u(U48), "compact": compacts,
        "bool": st.booleans, "optbool": lambda: st.sampled_from([None, False, True]), "str": strs, "bytes1": strs, "hash": hashes,
        "addr": addrs, "inv": invs, "tx": txgen.small_txs, "header": header_fields,
    }[kind]()


def generic_strategy(name):
    spec = SPEC[name]
    return st.fixed_dictionaries({fname: value_strategy(kind) for fname, kind in spec})


def s_block():
    return st.fixed_dictionaries({"block": st.fixed_dictionaries({
        "header": header_fields(), "txs": st.lists(txgen.small_txs(), min_size=1, max_size=5)})})


def s_merkleblock():
    n = weighted([(25, st.sampled_from([1, 2, 3])), (55, st.integers(1, 17)), (15, st.integers(18, 70)), (5, st.sampled_from([255, 256, 257, 300]))])

    def mk(n, seed, mode, mask, hdr):
        full = (1 << n) - 1
        if mode.startswith("pad"):
            # a chosen number of padding bits in the last flag byte; pad0 = the flag bits fill whole bytes exactly, which
            # only unbalanced trees can do.  A (tree size, match set) of that shape is searched for deterministically.
            target = (8 - int(mode[3:])) % 8
            n = (7, 9, 11, 12, 14, 15, 18, 19, 30, 50, 70)[n % 11]      # tree sizes that admit every residue
            full = (1 << n) - 1
            for j in range(600):
                m = (mask * (2 * j + 1) + j * 0x9e3779b97f4a7c15) & full
                if refser.partial_merkle_tree_bits(n, [bool(m >> i & 1) for i in range(n)]) % 8 == target:
                    return {"n": n, "seed": seed, "match_mask": m, "header": hdr}
            mode = "some"
        mask = {"none": 0, "all": full, "one": 1 << (mask % n), "some": mask & full}[mode]
        return {"n": n, "seed": seed, "match_mask": mask, "header": hdr}
    return st.builds(mk, n, st.integers(0, 10**6), st.sampled_from(["none", "all", "one", "some", "some", "some", "pad0", "pad0", "pad1", "pad2", "pad3", "pad4", "pad5", "pad6", "pad7"]),
                     st.integers(0, (1 << 300) - 1), header_fields())


def s_alert():
    body = st.fixed_dictionaries({
        "version": u(U32), "relayUntil": u(U64), "expiration": u(U64), "id": u(U32), "cancel": u(U32),
        "setCancel": arrays(u(U32)), "minVer": u(U32), "maxVer": u(U32),
        "setSubVer": arrays(st.one_of(st.just(b"/Satoshi:0.9.3/".hex()), strs())), "priority": u(U32),
        "comment": strs(), "statusBar": strs(), "reserved": strs()})
    return st.fixed_dictionaries({"body": body, "signature": strs()})


CUSTOM = {"block": s_block, "merkleblock": s_merkleblock, "alert": s_alert}


def make_strategy(name):
    def strat():
        fields = CUSTOM[name]() if name in CUSTOM else generic_strategy(name)
        return st.builds(lambda net, f: {"net": net, "fields": f}, st.sampled_from(["BTC", "BTC", "LTC"]), fields)
    return strat


def make_empty_cases(name):
    def cases(tier):
        for net in ("BTC", "LTC"):
            yield {"net": net, "fields": {}}
    return cases


# ------------------------------------------------------------------ the table drives the sub-check list

_names = sorted(STANDARD_P2P_MESSAGES)
_missing = [n for n in _names if n not in SPEC or n not in refser.MESSAGE_ENCODERS]
if _missing:
    raise HarnessError("p2p message names defined by the tree but without a strategy / reference encoder here: %s" % _missing)
_stale = [n for n in SPEC if n not in STANDARD_P2P_MESSAGES]
if _stale:
    raise HarnessError("messages this check knows but the tree no longer defines: %s" % _stale)

RULE = ("fields over each declared type's range (32/64/48-bit boundary integers, empty / short / 0xfc-0xfe-element arrays, byte strings "
        "on compact-size boundaries, 4-byte, mapped and IPv6 addresses, ports incl. 0/65535, optional relay absent/False/True, "
        "embedded transactions/headers/blocks); pack == reference bytes, parse(reference bytes) and parse(pack output) give equal "
        "field values; non-trivial = non-empty array/byte string, boundary integer or embedded object")

SUBCHECKS = []
for _n in _names:
    if SPEC[_n]:
        _heavy = _n in ("block", "blocktxn", "cmpctblock", "tx")
        SUBCHECKS.append(SubCheck("msg_" + _n, make_oracle(_n), strategy=make_strategy(_n), nontrivial=nontrivial,
                                  budget=(320, 10000 if not _heavy else 6000), rule=_n + ": " + RULE,
                                  # few, longer Hypothesis runs: the first examples of every run are the simplest ones, and 28
                                  # sub-checks already fill the 16 workers
                                  max_shards=2))
    else:
        SUBCHECKS.append(SubCheck("msg_" + _n, make_oracle(_n), cases=make_empty_cases(_n), exhaustive=True, max_shards=1,
                                  rule=_n + ": message without fields: pack == b'' and parse(b'') == {} on both networks"))
SUBCHECKS.append(SubCheck("msg_headers_btg", o_btg_headers, strategy=s_btg_headers, budget=(300, 10000), max_shards=2,
                          nontrivial=lambda c, l: "height<fork" in l,
                          rule="'headers' on the Bitcoin Gold network (the one shipped coin whose header layout differs): 0-3 headers with "
                               "heights around the fork height 491407 and solutions of 0-1344 bytes; pack == the 140-byte Equihash layout + "
                               "solution for every height, parse(reference bytes) returns the fields; non-trivial = a height below the fork"))
