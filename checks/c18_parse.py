"""C18 - Text parsing is total, faithful and keeps kinds apart.

One oracle (`o_text`) applied to (network, text); the sub-checks differ only in how the text is built.
For every parse entry point of the network the oracle demands
  (1) no exception: an object or None;
  (2) a returned object re-serialises (address / hwif / wif / SEC text / disassembly) to text that the same entry
      point - or the catch-all parser of that object's kind - parses to an equal object;
  (3) a checksummed leaf parser that accepts the text really was given a well-formed payload of its own kind
      (prefix, exact length, value ranges) and decoded it to exactly the fields the reference decoder reads;
  (4) the text is accepted by at most one checksummed kind (address / WIF / extended key).
All problems found in one text are reported together (tuple bucket), so a text that trips a listed finding is
still examined for everything else.
"""
import os
import traceback

from hypothesis import strategies as st

import pycoin
from pycoin.key.BIP32Node import BIP32Node
from pycoin.key.electrum import ElectrumWallet
from pycoin.key.Key import Key
from pycoin.networks.Contract import Contract

from gen.nets import CODES, NETS, PFX, GRS, HRPS, ALL_B58_PREFIXES, PREFIX_ATTRS, b58_usable, quiet, mk_hash, hash_parts
from oracles import refenc, refaddr, refec
from vlib.core import SubCheck, Violation

from gen import subproc

PROPERTY = "C18"
ASSUMPTIONS = [
    "structured texts are valid Unicode; the unicode_text sub-check also feeds str values with lone surrogates",
    "oracles/refenc.py + oracles/refaddr.py reference decoders for Base58Check, Bech32(m), WIF, BIP32 blobs, SEC",
    "equality of parsed objects = same class, same secret exponent / public pair / compression flag (keys), same 74-byte "
    "serialisation (extended keys), same script bytes (contracts)",
    "script text round trip is only demanded for scripts made of known opcodes and minimal pushes (the scope of C12)",
]
CONFIGURATIONS = ["%d registered networks: %s" % (len(CODES), " ".join(CODES)),
                  "GRS/TGRS/GRSRT: totality of every entry point and the Bech32 / colon / numeric / script paths"]
UNEXPLORED = ["Base58 (groestl checksum) decoding on GRS, TGRS, GRSRT: groestlcoin_hash C module not installed, every Base58 text "
              "is refused there and WIF / extended-key / p2pkh / p2sh texts cannot be produced",
              "parse.address / hierarchical_key / private_key / public_key on GRS networks are replaced by constant-None parsers "
              "by the symbol files when the module is missing",
              "Atheris fuzz target of the DESIGN (not built)", "libsecp256k1 backend"]

PYCOIN_DIR = os.path.dirname(os.path.abspath(pycoin.__file__)) + os.sep
N = refaddr.N
P = refaddr.P

LEAVES = ["p2pkh", "p2sh", "p2pkh_segwit", "p2sh_segwit", "p2tr", "wif", "bip32_prv", "bip32_pub", "bip49_prv", "bip49_pub",
          "bip84_prv", "bip84_pub", "bip32_seed", "hd_seed", "electrum_seed", "electrum_prv", "electrum_pub", "sec",
          "public_pair", "secret_exponent", "script"]
DISPATCH = ["address", "bip32", "bip49", "bip84", "payable", "hierarchical_key", "private_key", "secret", "public_key", "__call__"]
ENTRY_POINTS = LEAVES + DISPATCH
GROUP = {"p2pkh": "address", "p2sh": "address", "p2pkh_segwit": "address", "p2sh_segwit": "address", "p2tr": "address",
         "wif": "wif", "bip32_prv": "extkey", "bip32_pub": "extkey", "bip49_prv": "extkey", "bip49_pub": "extkey",
         "bip84_prv": "extkey", "bip84_pub": "extkey"}
B58_LEAF_PREFIX = {"p2pkh": "address", "p2sh": "p2sh", "wif": "wif", "bip32_prv": "bip32_prv", "bip32_pub": "bip32_pub",
                   "bip49_prv": "bip49_prv", "bip49_pub": "bip49_pub", "bip84_prv": "bip84_prv", "bip84_pub": "bip84_pub"}
SEGWIT_LEAF = {"p2pkh_segwit": (0, 20), "p2sh_segwit": (0, 32), "p2tr": (1, 32)}

ADDR_LEN = "p2pkh-p2sh:payload-length-not-checked"


def _frames(ex):
    """(innermost ParseAPI.py function, innermost pycoin frame) of an escaped exception.  Everything BIP32Node.deserialize
    lets escape while decoding a blob handed over by hparse is one root cause (no validation there, no handler in hparse)."""
    api = inner = None
    names = []
    for fs in traceback.extract_tb(ex.__traceback__):
        fn = os.path.abspath(fs.filename)
        if fn.startswith(PYCOIN_DIR):
            inner = "%s:%s" % (os.path.basename(fn), fs.name)
            names.append(inner)
            if os.path.basename(fn) == "ParseAPI.py":
                api = fs.name
    if api == "hparse" and "BIP32Node.py:deserialize" in names:
        inner = "BIP32Node.py:deserialize(any)"
    return api, inner


class _Raised(Exception):
    def __init__(self, bucket, msg):
        self.bucket, self.msg = bucket, msg


def _call(code, name, text):
    p = NETS[code].parse
    f = p if name == "__call__" else getattr(p, name)
    try:
        if code in GRS:
            with quiet():
                return f(text)
        return f(text)
    except Exception as ex:
        api, inner = _frames(ex)
        if inner is None:
            raise
        tname = "*" if inner.endswith("(any)") else type(ex).__name__
        raise _Raised("raises:%s:%s@%s" % (api or name, tname, inner),
                      "parse.%s(%r) raises %s: %s" % (name, text[:200], type(ex).__name__, str(ex)[:120]))


# ------------------------------------------------------------------ describing / re-serialising returned objects


def _pair(k):
    pp = k.public_pair()
    return None if pp is None else (int(pp[0]), int(pp[1]))


def describe(obj):
    if isinstance(obj, Contract):
        return ("contract", obj.script().hex())
    if isinstance(obj, BIP32Node):
        priv = obj.secret_exponent() is not None
        return (type(obj).__name__, priv, obj.serialize(as_private=priv).hex())
    if isinstance(obj, ElectrumWallet):
        return (type(obj).__name__, obj.secret_exponent(), _pair(obj))
    if isinstance(obj, Key):
        return (type(obj).__name__, obj.secret_exponent(), _pair(obj), bool(obj.is_compressed()))
    return ("other:" + type(obj).__name__,)


def kind_of(obj):
    if isinstance(obj, Contract):
        return "contract"
    if isinstance(obj, BIP32Node):
        return "hdkey"
    if isinstance(obj, ElectrumWallet):
        return "electrum"
    if isinstance(obj, Key):
        return "prvkey" if obj.secret_exponent() is not None else "pubkey"
    return "other"


FALLBACK = {"contract": ["payable"], "hdkey": ["hierarchical_key"], "electrum": ["hierarchical_key", "secret", "public_key"],
            "prvkey": ["private_key", "secret"], "pubkey": ["public_key", "sec"], "other": []}


def _canonical_script(n, script):
    ps = refaddr.parse_script(script)
    if ps is None or not all(m for _o, _d, m in ps):
        return False
    return all(d is not None or op in n.script.int_to_opcode for op, d, _m in ps)


def text_of(code, obj):
    """the text form(s) of a returned object: (form-name, text) or (skip-reason, None)"""
    n = NETS[code]
    k = kind_of(obj)
    if k == "contract":
        a = obj.address()
        if isinstance(a, str) and a != "???" and not a.startswith("(nulldata"):
            return "address", a
        if not _canonical_script(n, obj.script()):
            return "skip-noncanonical-script", None
        return "disassembly", obj.disassemble()
    if code in GRS and k in ("hdkey", "prvkey", "electrum"):
        return "skip-grs-base58", None
    if k == "hdkey":
        # two names for one serialisation: hwif and as_text (what repr() shows); the objects alternate between them
        priv = obj.secret_exponent() is not None
        if obj.child_index() % 2:
            return "as_text", obj.as_text(as_private=priv)
        return "hwif", obj.hwif(as_private=priv)
    return "as_text", obj.as_text()


def reserialise(code, entry, obj, problems):
    """(2): text form parses back, through the same entry point or the kind's catch-all, to an equal object"""
    if kind_of(obj) == "pubkey" and entry in ("public_pair", "public_key"):
        x, y = _pair(obj)
        if not (0 <= x < P and 0 <= y < P):
            problems.append(("public_pair:coordinate-out-of-range-accepted", "%s parse.%s returns a key with x = %d (field prime %d): it has no SEC "
                             "text form that parses back (x >= 2^256 or < 0 cannot even be serialised)" % (code, entry, x, P)))
            return "pubkey-out-of-range"
    try:
        want = describe(obj)
        form, text = text_of(code, obj)
    except Exception as ex:
        api, inner = _frames(ex)
        if inner is None:
            raise
        problems.append(("reserialise-raises:%s:%s@%s" % (kind_of(obj), type(ex).__name__, inner),
                         "object returned by parse.%s cannot be turned back into text: %s %s" % (entry, type(ex).__name__, str(ex)[:100])))
        return "reserialise-raised"
    if text is None:
        return form
    if not isinstance(text, str):
        problems.append(("reserialise:text-form-is-not-a-string:%s" % kind_of(obj), "parse.%s result has text form %r" % (entry, text)))
        return "reserialise-failed"
    seen = []
    for e in [entry] + [f for f in FALLBACK[kind_of(obj)] if f != entry]:
        try:
            back = _call(code, e, text)
        except _Raised as r:
            problems.append((r.bucket, "re-parsing text form: " + r.msg))
            continue
        if back is None:
            continue
        got = describe(back)
        if got == want:
            return "reserialised:" + form
        seen.append((e, got))
    # diagnosis: name the root cause where it can be pinned down
    k = kind_of(obj)
    bucket = "reserialise:%s-text-does-not-parse-back" % k
    sec_prefix = PFX[code]["sec"]
    if k == "pubkey" and isinstance(sec_prefix, str) and text.startswith(sec_prefix):
        try:
            bare = _call(code, "sec", text[len(sec_prefix):])
        except _Raised:
            bare = None
        if bare is not None and describe(bare) == want:
            bucket = "sec:own-text-prefix-not-recognised"
    if k == "electrum" and any(g[1:3] == want[1:3] and g[0] != want[0] for _e, g in seen):
        bucket = "electrum:text-form-is-a-plain-key"
    elif k == "electrum" and want[1] is None and isinstance(sec_prefix, str) and text.startswith(sec_prefix):
        bucket = "electrum:text-form-is-a-plain-key"
    problems.append((bucket, "%s parse.%s -> %s %r; its text form %r parses back to %r" % (code, entry, k, want, text, seen or None)))
    return "reserialise-failed"


# ------------------------------------------------------------------ (3) well-formedness of what a checksummed leaf accepted


def _x_out_of_range_only(kd):
    x = int.from_bytes(kd[1:], "big")
    return kd[0] in (2, 3) and x >= P and bool(refec.SECP256K1.ys_for_x(x % P))


def wellformed(code, entry, obj, text, problems):
    pf = PFX[code]
    if entry in B58_LEAF_PREFIX:
        prefix = pf[B58_LEAF_PREFIX[entry]]
        data = refenc.b58check_decode(text)
        if data is None or prefix is None or not data.startswith(prefix):
            problems.append(("accepted-without-own-prefix:%s" % entry, "%s parse.%s(%r) accepted; decoded %r, prefix %r" % (
                code, entry, text, data.hex() if data else None, prefix)))
            return
        payload = data[len(prefix):]
        if entry in ("p2pkh", "p2sh"):
            if len(payload) != 20:
                problems.append((ADDR_LEN, "%s parse.%s(%r) accepted a %d-byte payload" % (code, entry, text, len(payload))))
            elif obj.script() != refaddr.script_for(entry, payload):
                problems.append(("address:wrong-script", "%s parse.%s(%r).script() = %s" % (code, entry, text, obj.script().hex())))
        elif entry == "wif":
            d = refaddr.wif_decode_payload(payload)
            if d == "length":
                problems.append(("wif:payload-length-not-checked", "%s parse.wif(%r) accepted a %d-byte payload (32 or 33 expected) as exponent %s" % (
                    code, text, len(payload), obj.secret_exponent())))
            elif d == "flag":
                problems.append(("wif:compression-flag-not-checked", "%s parse.wif(%r) accepted a 33-byte payload ending 0x%02x (0x01 expected)" % (
                    code, text, payload[32])))
            elif d == "range":
                problems.append(("wif:out-of-range-exponent-accepted", "%s parse.wif(%r) -> %s" % (code, text, obj.secret_exponent())))
            elif (obj.secret_exponent(), bool(obj.is_compressed())) != d:
                problems.append(("wif:decoded-fields-differ", "%s parse.wif(%r) -> (%s, %s), reference %r" % (
                    code, text, obj.secret_exponent(), obj.is_compressed(), d)))
        else:
            d = refaddr.bip32_decode_body(payload)
            want_private = entry.endswith("_prv")
            if d == "length":
                problems.append(("bip32:blob-length-not-checked", "%s parse.%s(%r) accepted a %d-byte blob (78 expected)" % (code, entry, text, len(data))))
            elif d == "badpoint" and _x_out_of_range_only(payload[41:]):
                problems.append(("sec:x-not-below-p-accepted", "%s parse.%s(%r): public key x >= p" % (code, entry, text)))
            elif isinstance(d, str):
                problems.append(("bip32:invalid-key-data-accepted:" + d, "%s parse.%s(%r) accepted key data %s" % (code, entry, text, payload[41:].hex())))
            else:
                if (d["secret"] is not None) != want_private:
                    problems.append(("bip32:version-and-key-type-mismatch-accepted", "%s parse.%s(%r): %s version bytes with %s key data" % (
                        code, entry, text, "private" if want_private else "public", "private" if d["secret"] is not None else "public")))
                got = (obj.tree_depth(), obj.parent_fingerprint(), obj.child_index(), obj.chain_code(), obj.secret_exponent(), _pair(obj))
                ref = (d["depth"], d["fingerprint"], d["index"], d["chain"], d["secret"], d["pub"])
                if got != ref:
                    problems.append(("bip32:decoded-fields-differ", "%s parse.%s(%r) -> %r, reference %r" % (code, entry, text, got, ref)))
                cls = {"bip32": "BIP32Node", "bip49": "BIP49Node", "bip84": "BIP84Node"}[entry[:5]]
                if not type(obj).__name__.endswith(cls):
                    problems.append(("bip32:wrong-node-class", "%s parse.%s(%r) -> %s" % (code, entry, text, type(obj).__name__)))
    elif entry == "sec":
        # SEC text (bare hex or behind the network's own "xxxSEC:" prefix): the key is the point the bytes encode, in the
        # form (compressed / uncompressed) they encode it in - that form decides the key's addresses
        body = text[len(pf["sec"]):] if isinstance(pf["sec"], str) and text.startswith(pf["sec"]) else text
        try:
            blob = bytes.fromhex(body)
        except ValueError:
            blob = None
        d = refenc.sec_decode_strict(blob, P, 0, 7) if blob is not None else None
        if d is not None and obj.secret_exponent() is None:
            got = (_pair(obj), bool(obj.is_compressed()))
            if got != ((d[0], d[1]), d[2]):
                problems.append(("sec:decoded-fields-differ", "%s parse.sec(%r) -> pair %r compressed=%r, the bytes encode %r compressed=%r" % (
                    code, text, got[0], got[1], (d[0], d[1]), d[2])))
    elif entry in SEGWIT_LEAF:
        ver, ln = SEGWIT_LEAF[entry]
        hrp = pf["hrp"]
        d = refenc.segwit_decode(hrp, text) if hrp else None
        if d is None or d[0] != ver or len(d[1]) != ln:
            problems.append(("segwit:ill-formed-accepted", "%s parse.%s(%r) accepted; reference decode under hrp %r: %r" % (code, entry, text, hrp, d)))
        elif obj.script() != refaddr.witness_script(ver, d[1]):
            problems.append(("address:wrong-script", "%s parse.%s(%r).script() = %s" % (code, entry, text, obj.script().hex())))


# ------------------------------------------------------------------ the oracle


def _reach(code, text):
    """which kind-specific decoders the text can reach (labels; also the non-trivial rule)"""
    out = []
    pf = PFX[code]
    data = refenc.b58check_decode(text) if text and b58_usable(code) else None
    if data is not None:
        out.append("reach:b58check")
        hit = [a for a in PREFIX_ATTRS if pf[a] is not None and data.startswith(pf[a])]
        out.extend("prefix:" + a for a in hit[:2])
        if not hit:
            out.append("prefix:foreign")
    if pf["hrp"] and text.lower().startswith(pf["hrp"] + "1") and refenc.segwit_decode(pf["hrp"], text) is not None:
        out.append("reach:segwit-valid")
    elif "1" in text and all(33 <= ord(c) <= 126 for c in text) and len(text) <= 90:
        pos = text.rfind("1")
        t = text.lower()
        if pos >= 1 and len(t) - pos > 6 and all(c in refenc.CHARSET for c in t[pos + 1:]) and \
                refenc.polymod(refenc.hrp_expand(t[:pos]) + [refenc.CHARSET.find(c) for c in t[pos + 1:]]) in (1, refenc.BECH32M_CONST):
            out.append("reach:bech32-checksum")
    if ":" in text:
        head = text.split(":", 1)[0]
        out.append("colon:" + (head if head in ("H", "P", "E") else "SEC" if isinstance(pf["sec"], str) and text.startswith(pf["sec"]) else "other"))
    if "/" in text or "," in text:
        out.append("reach:pair")
    return out


def o_text(case):
    code, text = case["net"], case["text"]
    problems = []
    results = {}
    # callers such as ku wrap the text once in the network's parseable_str so that the decode cache is shared by
    # the entry points; three texts out of four are passed that way, the rest as plain str (fresh cache per call)
    shared = NETS[code].parseable_str_type(text) if len(text) % 4 else text
    if shared is not text and "GRS" in NETS and "BTC" in NETS:
        # ku tries one text object on every network: a network with the OTHER Base58 checksum function has already looked
        # at this object; what it concluded is its own business
        other = NETS["BTC"] if code in GRS else NETS["GRS"]
        with quiet():
            for e in ("wif", "p2pkh", "p2sh", "bip32_prv", "bip32_pub"):
                try:
                    getattr(other.parse, e)(shared)
                except Exception:       # noqa - the other network's verdict is not under test here
                    pass
    for e in ENTRY_POINTS:
        try:
            results[e] = _call(code, e, shared)
        except _Raised as r:
            problems.append((r.bucket, r.msg))
    labels = _reach(code, text)
    if code in GRS:
        labels.append("net-grs")
    accepted_groups = {}
    for e, obj in results.items():
        if obj is None:
            continue
        if e in LEAVES:
            labels.append("got:" + e)
        if e in GROUP:
            wellformed(code, e, obj, text, problems)
            accepted_groups.setdefault(GROUP[e], []).append(e)
        elif e == "sec":
            wellformed(code, e, obj, text, problems)
        lab = reserialise(code, e, obj, problems)
        if e in LEAVES:
            labels.append(lab)
    if len(accepted_groups) > 1 and not any(b.split(":")[0] in ("wif", "bip32", ADDR_LEN.split(":")[0], "accepted-without-own-prefix", "segwit")
                                            for b, _m in problems):
        problems.append(("kinds:text-accepted-as-two-checksummed-kinds", "%s %r accepted by %r" % (code, text, sorted(accepted_groups.values()))))
    for g, es in accepted_groups.items():
        fam = {x[:5] for x in es}
        if g == "extkey" and len(es) > 1:
            problems.append(("kinds:extended-key-accepted-by-two-parsers", "%s %r accepted by %r" % (code, text, es)))
        if g == "address" and len(es) > 1 and len(fam) > 1:
            problems.append(("kinds:address-accepted-by-two-parsers", "%s %r accepted by %r" % (code, text, es)))
    if len(accepted_groups) > 1:
        labels.append("two-groups-accepted")
    if not any(l.startswith("got:") for l in labels):
        labels.append("got:nothing")
    # text built by the reference encoders as a valid instance of one kind must be accepted by that kind's own entry point
    # (faithfulness: a parser that refuses everything is total and keeps kinds apart, but parses nothing)
    want = KIND_ENTRY.get(case.get("kind"))
    if want is not None and not (code in GRS and want in GRS_STUBBED):
        if results.get(want) is None and not any(b.startswith("raises:" + want) for b, _m in problems):
            problems.append(("faithful:valid-%s-text-refused" % case["kind"], "%s parse.%s(%r) returned None for a valid %s text" % (code, want, text, case["kind"])))
    if problems:
        buckets = tuple(sorted({b for b, _m in problems}))
        raise Violation(buckets, " || ".join(m for _b, m in problems)[:900])
    return sorted(set(labels))


KIND_ENTRY = {"p2pkh": "p2pkh", "p2sh": "p2sh", "p2wpkh": "p2pkh_segwit", "p2wsh": "p2sh_segwit", "p2tr": "p2tr", "wif-c": "wif", "wif-u": "wif",
              "bip32_prv": "bip32_prv", "bip32_pub": "bip32_pub", "bip49_prv": "bip49_prv", "bip49_pub": "bip49_pub", "bip84_prv": "bip84_prv",
              "bip84_pub": "bip84_pub", "sec-text": "sec", "electrum-prv": "electrum_prv", "electrum-pub": "electrum_pub",
              "electrum-seed": "electrum_seed"}
GRS_STUBBED = ()     # the Groestlcoin symbol files replace only address / hierarchical_key / private_key / public_key when the C module is missing


def nt_text(case, labels):
    return any(l.startswith(("reach:", "colon:", "got:")) and l != "got:nothing" for l in labels)


# ------------------------------------------------------------------ generators (few primitive draws, pure shaping)

MAIN = ["BTC", "LTC", "POLIS", "XTN", "ZEC", "DCR", "CHC", "DOGE", "PIVX", "MZC", "GRS"]


def nets():
    return st.one_of(st.sampled_from(MAIN), st.sampled_from(CODES))


def s_unicode():
    soup = st.lists(st.sampled_from(list("0123456789abcdefABCDEFxX:/,-_+ HPE[]'\n\t.") + ["even", "odd", "OP_", "SEC", "0x"]), max_size=30).map("".join)
    # str values that are not valid Unicode text (lone surrogates), bare and behind the colon / numeric prefixes
    odd = st.builds(lambda p, t: p + t, st.sampled_from(["", "P:", "H:", "E:", "BTCSEC:", "1/", "0x", "P:abc"]),
                    st.text(alphabet=st.characters(), max_size=6))
    return st.builds(lambda c, t: {"net": c, "text": t}, nets(), st.one_of(st.text(), st.text(), st.text(max_size=5), soup, odd))


SECRETS = [1, 2, 3, 0x1234567890abcdef, N - 1, N - 2, (N - 1) // 2, 2**255 % N, 2**128 + 1, 0xdeadbeef * 2**200 + 5]
PUBS = [refaddr.pubkey(k) for k in SECRETS]
X_NO_POINT = [x for x in range(1, 40) if not refec.SECP256K1.ys_for_x(x)][:6]
X_POINT_SMALL = [x for x in range(1, 40) if refec.SECP256K1.ys_for_x(x)][:6]
X_GE_P = [x + P for x in X_POINT_SMALL if x + P < 2**256]
assert X_NO_POINT and X_GE_P


def _b32(v):
    return (v % 2**256).to_bytes(32, "big")


def key_payloads(sel, raw):
    """32/33-byte WIF-like payloads with boundary contents"""
    vals = [0, 1, N - 1, N, N + 1, 2**256 - 1, SECRETS[sel % len(SECRETS)], int.from_bytes(raw[:32], "big")]
    v = vals[sel % len(vals)]
    suffix = [b"", b"\x01", b"\x01", b"\x00", b"\x02", b"\xff", b"\x01\x01"][(sel // 8) % 7]
    return _b32(v) + suffix


def bip32_bodies(sel, sel2, raw):
    """74-byte bodies and near misses"""
    i = sel % len(SECRETS)
    depth, fp, idx, chain = raw[0], raw[1:5], int.from_bytes(raw[5:9], "big"), raw[2:34]
    variant = sel2 % 14
    if variant <= 2:
        body = refaddr.bip32_body(depth, fp, idx, chain, secret=SECRETS[i])
    elif variant <= 5:
        body = refaddr.bip32_body(depth, fp, idx, chain, pub=PUBS[i])
    elif variant == 6:
        body = refaddr.bip32_body(depth, fp, idx, chain, secret=1)[:41] + b"\0" + _b32([0, N, N + 1, 2**256 - 1][sel % 4])
    elif variant == 7:
        body = refaddr.bip32_body(depth, fp, idx, chain, pub=PUBS[i])[:41] + bytes([2 + sel % 2]) + _b32(X_NO_POINT[sel % len(X_NO_POINT)])
    elif variant == 8:
        body = refaddr.bip32_body(depth, fp, idx, chain, pub=PUBS[i])[:41] + bytes([2 + sel % 2]) + _b32(X_GE_P[sel % len(X_GE_P)])
    elif variant == 9:
        body = refaddr.bip32_body(depth, fp, idx, chain, pub=PUBS[i])[:41] + bytes([[1, 4, 5, 6, 7, 0xff][sel % 6]]) + _b32(PUBS[i][0])
    elif variant == 10:
        body = refaddr.bip32_body(depth, fp, idx, chain, secret=SECRETS[i])[:-(1 + sel % 3)]
    elif variant == 11:
        body = refaddr.bip32_body(depth, fp, idx, chain, pub=PUBS[i])[:-(1 + sel % 3)]
    elif variant == 12:
        body = refaddr.bip32_body(depth, fp, idx, chain, secret=SECRETS[i]) + raw[:1 + sel % 3]
    else:
        body = refaddr.bip32_body(depth, fp, idx, chain, pub=PUBS[i]) + raw[:1 + sel % 3]
    return body


def mk_b58(code, pmode, psel, cmode, sel, sel2, n, hp, raw):
    pf = PFX[code]
    own = [(a, pf[a]) for a in PREFIX_ATTRS if pf[a] is not None]
    pmode %= 10
    if pmode <= 6:
        attr, prefix = own[psel % len(own)]
    elif pmode == 7:
        attr, prefix = "foreign", ALL_B58_PREFIXES[psel % len(ALL_B58_PREFIXES)]
    elif pmode == 8:
        attr, prefix = "cut", own[psel % len(own)][1][:-1]
    else:
        attr, prefix = "random", raw[:1 + psel % 4]
    cmode %= 12
    if cmode <= 1:                                   # the natural payload of that prefix
        if attr in ("address", "pay_to_script"):
            payload = mk_hash(20, *hp)
        elif attr == "wif":
            payload = key_payloads(sel, raw)
        elif attr.startswith("bip"):
            payload = bip32_bodies(sel, sel2 % 6 if attr.endswith("pub") else sel2 % 3, raw)
        else:
            payload = mk_hash(20, *hp)
    elif cmode <= 3:
        payload = key_payloads(sel, raw)
    elif cmode <= 6:
        payload = bip32_bodies(sel, sel2, raw)
    elif cmode == 7:
        payload = mk_hash(20, *hp)
    elif cmode == 8:
        payload = bytes([[0, 0xff, 0x11][sel % 3]]) * n
    elif cmode == 9:
        payload = (raw * 3)[:n]
    elif cmode == 10:
        payload = mk_hash(max(1, [19, 21, 31, 32, 33, 34][sel % 6]), *hp)
    else:                                            # something valid under a *different* own prefix kind: kinds apart
        payload = [mk_hash(20, *hp), key_payloads(sel, raw), bip32_bodies(sel, sel2 % 6, raw)][sel2 % 3]
    if cmode <= 1 and n % 5 == 1:
        # the same kind of payload, its free part chosen so that the text has a run of one digit at an aligned group of
        # positions (ten '1's at a multiple of ten from the end, ...): the hash, the exponent, or the chain code
        from gen.common import b58_digit_run_data
        run = ([10, 10, 10, 8, 9, 11, 12, 4, 5, 16][sel % 10], sel2 % 4, [0, 0, 0, 57, 1, 33][(sel // 10) % 6], raw[0] * 256 + raw[1])
        if attr in ("address", "pay_to_script") and len(payload) == 20:
            shaped = b58_digit_run_data(prefix, 20, b"", *run)
        elif attr == "wif" and len(payload) in (32, 33):
            shaped = b58_digit_run_data(prefix, 32, payload[32:], *run)
        elif attr.startswith("bip") and len(payload) == 74:
            shaped = b58_digit_run_data(prefix + payload[:13], 28, payload[41:], *run)
        else:
            shaped = None
        if shaped is not None:
            payload = shaped[len(prefix):]
    if attr.startswith("bip") and len(payload) == 74 and n % 4 == 0:
        # a well-formed extended key whose body carries, somewhere inside, the version bytes of ANOTHER of the network's
        # checksummed kinds (another extended-key flavour, or the WIF / address byte run): the version is what the text
        # starts with, not something it contains
        others = [pf[a] for a in PREFIX_ATTRS if pf[a] is not None and pf[a] != prefix]
        plant = others[sel % len(others)]
        at = [13, 14, 9, 5, 20, 41 - len(plant)][sel2 % 6]          # inside the chain code, child number, fingerprint
        payload = payload[:at] + plant + payload[at + len(plant):]
    return {"net": code, "text": refenc.b58check_encode(prefix + payload)}


def s_b58():
    usable = [c for c in CODES if b58_usable(c)]
    main = [c for c in MAIN if b58_usable(c)]
    return st.builds(mk_b58, st.one_of(st.sampled_from(main), st.sampled_from(usable)), st.integers(0, 9), st.integers(0, 255),
                     st.integers(0, 11), st.integers(0, 255), st.integers(0, 255), st.integers(0, 80), hash_parts(),
                     st.binary(min_size=34, max_size=34))


def mk_bech32(code, hmode, hsel, ver, n, cmode, upper, body, tweak, good, glyph=0):
    own = PFX[code]["hrp"]
    if good is not None:        # one of the three forms pycoin knows, so that accepting paths are well populated
        ver, n, cmode = good
    hmode %= 8
    if hmode <= 4 and own:
        hrp = own
    elif hmode <= 6:
        hrp = HRPS[hsel % len(HRPS)]
    else:
        hrp = ["b", "bc1", "x", "tbb", "lt", "1", "bcrt1"][hsel % 7]
    const = [refenc.BECH32_CONST, refenc.BECH32M_CONST, refenc.BECH32_CONST, refenc.BECH32M_CONST, 0x3fffffff][cmode % 5]
    data = [ver] + refenc.to5((body * 3)[:n])
    if tweak == 1:
        data = data[:1]
    elif tweak == 2:
        data = []
    elif tweak == 3:
        data.append(0)
    s = refenc.bech32_encode_raw(hrp, data, const)
    if glyph:
        # look-alikes: a correctly checksummed string in which letters are replaced by non-ASCII characters that a case
        # mapping turns into them (KELVIN SIGN lower()s to k, LATIN SMALL LETTER LONG S upper()s to S); the body is
        # varied until the data part contains the letter
        want, repl, up = [("k", "\u212a", True), ("s", "\u017f", False), ("k", "\u212a", False)][glyph % 3]
        for j in range(64):
            d2 = [ver] + refenc.to5(((body[:-1] + bytes([(body[-1] + j) & 0xff])) * 3)[:n])
            s2 = refenc.bech32_encode_raw(hrp, d2, const)
            if want in s2[s2.rfind("1"):]:
                s = s2
                break
        head, tail = s[:s.rfind("1") + 1], s[s.rfind("1") + 1:]
        if up:
            head, tail = head.upper(), tail.upper()
            want = want.upper()
        tail = tail.replace(want, repl) if glyph < 4 else tail.replace(want, repl, 1)
        return {"net": code, "text": head + tail}
    return {"net": code, "text": s.upper() if upper else s}


def s_bech32():
    with_hrp = [c for c in CODES if PFX[c]["hrp"]]
    return st.builds(mk_bech32, st.one_of(st.sampled_from(with_hrp), st.sampled_from(with_hrp), nets()), st.integers(0, 7), st.integers(0, 255),
                     st.one_of(st.integers(0, 17), st.sampled_from([0, 0, 1, 1])),
                     st.one_of(st.integers(0, 41), st.sampled_from([20, 32, 20, 32, 19, 21, 31, 33])), st.integers(0, 4),
                     st.sampled_from([False, False, False, True]), st.binary(min_size=14, max_size=14),
                     st.sampled_from([0, 0, 0, 0, 0, 0, 1, 2, 3]),
                     st.sampled_from([None, None, None, (0, 20, 0), (0, 32, 0), (1, 32, 1), (1, 32, 1)]),
                     st.sampled_from([0] * 10 + [1, 2, 3, 4, 5, 6]))


NUMS = [0, 1, 2, 5, -1, -5, N - 1, N, N + 1, P - 1, P, P + 2, 2**256 - 1, 2**256, 2**256 + 5, 2**300, "1" + "0" * 5000, "9" * 4400, "0x" + "f" * 5000] + X_NO_POINT[:2] + X_POINT_SMALL[:2] + X_GE_P[:2]


def _num(sel, style):
    v = NUMS[sel % len(NUMS)]
    style %= 8
    if isinstance(v, str):
        return v
    if style <= 2:
        return str(v)
    if style == 3:
        return hex(v)
    if style == 4:
        return "%x" % abs(v)
    if style == 5:
        return " %d " % v
    if style == 6:
        return "0%d" % abs(v)
    return "%X" % abs(v)


def mk_colon(code, fam, sel, sel2, style, n, raw, junk):
    pf = PFX[code]
    fam %= 16
    pub = PUBS[sel % len(PUBS)]
    if fam == 0:                                                # H: seeds
        text = "H:" + [(raw * 5)[:n].hex(), (raw * 5)[:n].hex()[:-1], "", junk, (raw * 5)[:n].hex().upper()][sel2 % 5]
    elif fam == 1:                                              # P: seeds
        text = "P:" + [junk, "", "correct horse", junk * 3][sel2 % 4]
    elif fam in (2, 3):                                         # E: electrum
        lens = [32, 64, 32, 64, 32, 64, 0, 15, 17, 31, 33, 63, 65, 16][sel2 % 14 if sel % 9 == 0 else sel2 % 13]
        kinds = sel % 6
        if lens == 32:
            blob = _b32([0, N, N - 1, 2**256 - 1, SECRETS[sel2 % len(SECRETS)], int.from_bytes(raw[:32], "big")][kinds])
        elif lens == 64:
            blob = [_b32(pub[0]) + _b32(pub[1]), _b32(pub[0]) + _b32(pub[1] ^ 1), b"\0" * 64, b"\xff" * 64,
                    _b32(X_GE_P[0]) + _b32(refec.SECP256K1.ys_for_x(X_GE_P[0] % P)[0]), (raw * 2)[:64]][kinds]
        else:
            blob = (raw * 3)[:lens]
        text = "E:" + (blob.hex() if sel2 % 11 else blob.hex()[:-1] + "g")
    elif fam in (4, 5, 6):                                      # SEC text with the network's own prefix, a colon form, or bare
        secs = [refaddr.sec(pub, True), refaddr.sec(pub, False), bytes([2 + sel2 % 2]) + _b32(X_NO_POINT[sel % len(X_NO_POINT)]),
                bytes([2]) + _b32(X_GE_P[sel % len(X_GE_P)]), bytes([[0, 1, 5, 6, 7][sel2 % 5]]) + refaddr.sec(pub, True)[1:],
                refaddr.sec(pub, True)[:-1], refaddr.sec(pub, False) + b"\0", b"\x04" + _b32(pub[0]) + _b32(pub[1] ^ 1),
                bytes([6 + sel2 % 2]) + refaddr.sec(pub, False)[1:]][sel2 % 9]
        head = [pf["sec"] if isinstance(pf["sec"], str) else "", "", "%sSEC:" % code, (pf["wif"] or b"").hex() + ":", ":", "SEC:"][style % 6]
        text = head + secs.hex()
    elif fam in (7, 8):                                         # numeric forms
        text = _num(sel, style)
    elif fam in (9, 10, 11, 12):                                # x/y, x,y, x/even, x/odd
        xs = [pub[0], pub[0], X_NO_POINT[sel % len(X_NO_POINT)], X_GE_P[sel % len(X_GE_P)], 0, -pub[0], 2**256 + X_POINT_SMALL[0], pub[0] + P * 2**10]
        x = xs[sel2 % len(xs)]
        ys = [str(pub[1]), "even", "odd", hex(pub[1]), str(pub[1] ^ 1), str(P - pub[1]), "", "Even", str(pub[1] + P), "0"]
        y = ys[style % len(ys)] if fam != 12 else ["even", "odd"][style % 2]
        sep = ["/", ",", "/", ", ", "/,", ":"][n % 6] if fam == 11 else ["/", ","][n % 2]
        xt = [str(x), hex(x), "%x" % abs(x), str(x)][sel % 4]
        text = xt + sep + y
    elif fam == 13:                                             # other colon shapes
        text = [":", "::", "H", "P", "E", "H:P:E:", junk + ":" + junk, "h:00", "p:x", "e:" + "00" * 32][sel2 % 10]
    else:                                                       # mixtures
        text = _num(sel, style) + [":", "/", ",", " ", "\n"][sel2 % 5] + _num(sel2, style + 1)
    return {"net": code, "text": text}


def s_colon():
    return st.builds(mk_colon, nets(), st.integers(0, 15), st.integers(0, 255), st.integers(0, 255), st.integers(0, 15), st.integers(0, 130),
                     st.binary(min_size=34, max_size=34), st.text(max_size=12))


TOKENS = ["OP_DUP", "OP_HASH160", "OP_EQUALVERIFY", "OP_CHECKSIG", "OP_0", "OP_1", "OP_16", "OP_RETURN", "OP_CHECKMULTISIG", "OP_IF", "OP_ENDIF",
          "OP_PUSHDATA1", "OP_NOP", "DUP", "op_dup", "Op_Add", "1", "0", "16", "17", "-1", "01", "0x4c", "0x", "0x4c01ff", "0xzz", "[]", "[ab]", "[abc]",
          "''", "'a b'", "'", "[", "OP_", "OP_PUSH_20", "OP_FOO", "ff", "add", "ADD", "deadbeef", "12345678901234567890123"]


def mk_script(code, toks, datas, junk, joiner):
    parts = []
    for i, t in enumerate(toks):
        if t == "<hex>":
            parts.append(datas[i % len(datas)].hex() if datas else "00")
        elif t == "<bracket>":
            parts.append("[%s]" % (datas[i % len(datas)].hex() if datas else ""))
        elif t == "<junk>":
            parts.append(junk)
        else:
            parts.append(t)
    return {"net": code, "text": [" ", " ", "  ", "\n", "\t"][joiner % 5].join(parts)}


def s_script():
    tok = st.one_of(st.sampled_from(TOKENS), st.sampled_from(["<hex>", "<bracket>", "<hex>", "<junk>"]))
    return st.builds(mk_script, nets(), st.lists(tok, max_size=7), st.lists(st.binary(max_size=80), max_size=3), st.text(max_size=6), st.integers(0, 4))


VALID_KINDS = ["p2pkh", "p2sh", "p2wpkh", "p2wsh", "p2tr", "wif-c", "wif-u", "bip32_prv", "bip32_pub", "bip49_prv", "bip49_pub", "bip84_prv", "bip84_pub",
               "sec-text", "electrum-prv", "electrum-pub", "electrum-seed"]


def cases_valid(tier):
    """for every network, canonical valid text of every kind it defines (built by the reference encoders)"""
    reps = 3 if tier == "quick" else 10
    for code in CODES:
        pf = PFX[code]
        for i in range(reps):
            k = SECRETS[(i * 3 + 1) % len(SECRETS)]
            pub = refaddr.pubkey(k) if i else PUBS[1]
            h = refaddr.hash160(refaddr.sec(pub, True))
            h32 = refaddr.hash160(b"x" + h) + h[:12]
            for kind in VALID_KINDS:
                text = None
                if kind in ("p2pkh", "p2sh") and b58_usable(code):
                    text = refaddr.address_for(kind, h, pf)
                elif kind in ("p2wpkh", "p2wsh", "p2tr"):
                    text = refaddr.address_for(kind, h if kind == "p2wpkh" else h32, pf)
                elif kind in ("wif-c", "wif-u") and pf["wif"] is not None and b58_usable(code):
                    text = refenc.b58check_encode(pf["wif"] + _b32(k) + (b"\1" if kind == "wif-c" else b""))
                elif kind.startswith("bip") and pf[kind] is not None and b58_usable(code):
                    body = refaddr.bip32_body(i, h[:4], [0, 0x80000001, 7][i % 3], h32, secret=k if kind.endswith("prv") else None, pub=pub)
                    text = refenc.b58check_encode(pf[kind] + body)
                elif kind == "sec-text" and isinstance(pf["sec"], str):
                    text = pf["sec"] + refaddr.sec(pub, bool(i % 2)).hex()
                elif kind == "electrum-prv":
                    text = "E:" + _b32(k).hex()
                elif kind == "electrum-pub":
                    text = "E:" + (_b32(pub[0]) + _b32(pub[1])).hex()
                elif kind == "electrum-seed":
                    text = "E:" + h[:16].hex()
                if text is not None:
                    yield {"net": code, "text": text, "kind": kind}


SUBCHECKS = [
    SubCheck("unicode_text", o_text, strategy=s_unicode, budget=(6000, 150000), nontrivial=nt_text,
             rule="st.text() over all of Unicode plus short soups of digits / hex / separators / keywords, on every network, through all 31 "
                  "entry points; non-trivial = some kind-specific decoder was reached or an object came back"),
    SubCheck("b58_structured", o_text, strategy=s_b58, budget=(8000, 200000), nontrivial=nt_text,
             rule="Base58Check(prefix || payload) with a valid checksum: prefix = each of the network's own prefixes (address, p2sh, wif, "
                  "bip32/49/84 prv/pub), other networks' prefixes, a truncated own prefix, random bytes; payload = 20-byte hashes, 32/33/34-byte keys "
                  "with exponent 0, 1, n-1, n, n+1, 2^256-1 and compression byte 01/00/02/ff, 74-byte extended-key bodies (private, public) and "
                  "near misses (exponent 0/n, x without a point, x >= p, key prefix 1/4/5/6/7, 1-3 bytes short / long), constant and random bytes "
                  "of every length 0..80, payloads valid for a different prefix of the same network"),
    SubCheck("b58_structured_python_O", subproc.optimized_variant("checks.c18_parse", "o_text"), strategy=s_b58, budget=(800, 20000), nontrivial=nt_text,
             rule="the b58_structured cases evaluated in a child interpreter started with PYTHONOPTIMIZE=1 (python -O: assert statements are "
                  "compiled away, so validation written as an assert vanishes; the child asserts that mode)"),
    SubCheck("bech32_structured", o_text, strategy=s_bech32, budget=(3000, 75000), nontrivial=nt_text,
             rule="Bech32 / Bech32m / foreign-constant strings with the network's HRP, other networks' HRPs and near misses, versions 0..17, "
                  "program lengths 0..41, missing / empty / over-padded data part, upper case"),
    SubCheck("colon_numeric_pairs", o_text, strategy=s_colon, budget=(5000, 125000), nontrivial=nt_text,
             rule="H:/P:/E: forms with hex of every interesting length and content (0, n, n-1, valid key, on/off-curve x||y, odd-length and "
                  "non-hex), SEC text with the network's own prefix / other prefixes / bare (valid, no point, x >= p, bad prefix byte, wrong "
                  "length, hybrid), numbers (0, negative, n-1, n, >= 2^256, hex, padded, huge), x/y x,y x/even x/odd pairs with and without a curve point"),
    SubCheck("script_text", o_text, strategy=s_script, budget=(2000, 50000), nontrivial=nt_text,
             rule="script source text from opcode names in several spellings, numbers, hex, [hex], quoted strings, 0x raw bytes and junk tokens"),
    SubCheck("valid_text_every_kind", o_text, cases=cases_valid, exhaustive=False, nontrivial=nt_text,
             rule="every network x every text kind it defines (5 address kinds, WIF compressed / uncompressed, bip32/49/84 prv and pub, SEC text, "
                  "electrum prv / pub) built by the reference encoders from 3 keys: no other checksummed kind may accept it, and what the "
                  "native parser returns must equal the reference decode and re-serialise faithfully"),
]

# thorough tier: coverage-guided campaigns (runs per worker, 4 workers each)
FUZZ = {"unicode_text": 20000, "b58_structured": 20000, "colon_numeric_pairs": 20000}
