"""C07 - Transactions round-trip through the wire format and have stable ids."""
import io

from hypothesis import strategies as st

from gen import txgen
from gen.txgen import blob, expand_tx, first_difference, model_fields, pycoin_fields, to_pycoin, weighted
from oracles import refser
from vlib.core import SubCheck, Violation

from pycoin.symbols.btc import network as BTC
from pycoin.symbols.ltc import network as LTC

PROPERTY = "C07"
ASSUMPTIONS = [
    "oracles/refser.py: struct-based serialiser written from the protocol documentation and BIP141/144; calibrated on the "
    "genesis block, main-chain block 80974, a main-chain transaction with known id and the three BIP143 example transactions",
    "hashlib SHA256",
    "the binary Spendable record and the appended-unspents extension are pycoin-specific; their reference encoding is the "
    "field list of the parse format string 'QS#LIbI' / a sequence of TxOut records",
    "only canonical byte strings are parsed (the property speaks of 'such bytes'); no raw-byte fuzzing here",
]
CONFIGURATIONS = ["BTC Tx class (pycoin.coins.bitcoin.Tx.Tx)", "LTC Tx class (pycoin.coins.litecoin.LTCTx)", "BCH and BTG Tx classes (same wire format and double-SHA256 ids; Groestlcoin ids are single SHA256 by design and are not asserted here)"]
UNEXPLORED = ["witness stacks with >= 0xffff items (count boundary is exercised through input/output counts and lengths instead)",
              "LTC MWEB flag (0x08) transactions: not part of the Bitcoin wire format the property names"]

from pycoin.symbols.bch import network as _BCH
from pycoin.symbols.btg import network as _BTG

CLASSES = {"BTC": BTC.tx, "LTC": LTC.tx, "BCH": _BCH.tx, "BTG": _BTG.tx}
Spendable = BTC.tx.Spendable


def _bad(b, m):
    raise Violation(b, m)


def _shape(m):
    return "bip144" if refser.has_witness(m) else "legacy"


# ------------------------------------------------------------------ wire form, ids, hex


def o_tx_wire(case):
    Tx = CLASSES[case["coin"]]
    m = expand_tx(case["tx"])
    ref = refser.ser_tx(m)
    ref_legacy = refser.ser_tx_legacy(m)
    shape = _shape(m)
    # some other object of the process has been filled in place beforehand (an input's witness stack grown with append, a
    # transaction's unspents list extended): what this transaction serialises to must not depend on it
    other_in = Tx.TxIn(b"\x07" * 32, 7, b"", 7)
    other_in.witness.append(b"\x07other")
    other_tx = Tx(1, [Tx.TxIn(b"\x08" * 32, 8, b"", 8)], [Tx.TxOut(8, b"\x51")])
    other_tx.unspents.append(Tx.TxOut(9, b"\x52"))
    try:
        return _o_tx_wire(case, Tx, m, ref, ref_legacy, shape)
    finally:
        del other_in.witness[:]
        del other_tx.unspents[:]


def _o_tx_wire(case, Tx, m, ref, ref_legacy, shape):
    tx = to_pycoin(Tx, m)

    got = tx.as_bin()
    if got != ref:
        _bad("tx:as_bin!=ref:" + shape, "%s as_bin differs from reference at byte %d (len %d vs %d)" % (
            case["coin"], _first_diff(got, ref), len(got), len(ref)))
    if tx.as_bin(include_witness_data=False) != ref_legacy:
        _bad("tx:stripped!=ref", "as_bin(include_witness_data=False) differs from the legacy reference form")
    if tx.as_hex() != ref.hex():
        _bad("tx:as_hex", "as_hex() is not the hex of the reference bytes")
    # the hex form takes the same options as the binary form and is its hex, option for option
    for kw in ({"include_witness_data": False}, {"include_witness_data": True}, {"blank_solutions": True},
               {"blank_solutions": True, "include_witness_data": False}):
        if tx.as_hex(**kw) != tx.as_bin(**kw).hex():
            _bad("tx:as_hex-option", "as_hex(%s) is not the hex of as_bin(%s)" % (kw, kw))
    if tx.as_hex(include_witness_data=False) != ref_legacy.hex():
        _bad("tx:as_hex-option", "as_hex(include_witness_data=False) is not the hex of the legacy reference form")

    # serialise -> parse -> equal, field by field
    tx2 = Tx.from_bin(got)
    d = first_difference(model_fields(m), pycoin_fields(tx2))
    if d:
        _bad("tx:from_bin-fields:" + shape, "from_bin(as_bin()) differs: %s" % d)
    # parse reference bytes -> re-serialise unchanged; stream position after parse
    f = io.BytesIO(ref + b"\xa5\x5a")
    tx3 = Tx.parse(f)
    if f.tell() != len(ref):
        _bad("tx:parse-length:" + shape, "parse consumed %d of %d bytes" % (f.tell(), len(ref)))
    back = tx3.as_bin()
    if back != ref:
        _bad("tx:reserialise:" + shape, "parse(ref).as_bin() differs at byte %d" % _first_diff(back, ref))
    tx4 = Tx.from_hex(ref.hex())
    if tx4.as_bin() != ref or tx4.as_hex() != ref.hex():
        _bad("tx:from_hex", "from_hex(ref.hex()) does not re-serialise to ref")
    # the same bytes arriving on a stream that can only be read forward (a pipe, a socket file): two transactions back to back
    fwd = _ForwardOnly(ref + ref + b"\xa5")
    for k in range(2):
        tx5 = Tx.parse(fwd)
        if tx5.as_bin() != ref:
            _bad("tx:parse-forward-only-stream:" + shape, "transaction %d parsed from a forward-only stream re-serialises differently" % k)
    if fwd.consumed != 2 * len(ref):
        _bad("tx:parse-length:" + shape, "parse consumed %d of %d bytes of a forward-only stream" % (fwd.consumed, 2 * len(ref)))

    # ids
    want_id, want_wid = refser.txid(m), refser.wtxid(m)
    if tx.id() != want_id or tx.hash() != refser.sha256d(ref_legacy) or tx2.id() != want_id:
        _bad("tx:id!=sha256d(stripped)", "id() %s, reference %s" % (tx.id(), want_id))
    if tx.w_id() != want_wid or tx.w_hash() != refser.sha256d(ref):
        _bad("tx:w_id!=sha256d(full)", "w_id() %s, reference %s" % (tx.w_id(), want_wid))

    # metamorphic: replace one witness stack, then strip them all
    labels = set(txgen.tx_summary_labels(m))
    alt = case.get("alt_witness")
    if alt is not None:
        idx = alt["idx"] % len(m["ins"])
        new_stack = [blob(w) for w in alt["stack"]]
        m2 = model_fields(m)
        m2["ins"][idx]["witness"] = new_stack
        tx.set_witness(idx, new_stack)
        if tx.id() != want_id:
            _bad("tx:id-depends-on-witness", "id changed from %s to %s after set_witness(%d, ...)" % (want_id, tx.id(), idx))
        if tx.w_id() != refser.wtxid(m2) or tx.as_bin() != refser.ser_tx(m2):
            _bad("tx:w_id-after-set_witness", "w_id/as_bin after set_witness differ from the reference")
        changed = refser.ser_tx(m2) != ref
        if changed and tx.w_id() == want_wid:
            _bad("tx:w_id-ignores-witness", "witness changed but w_id did not")
        labels.add("alt-witness:changed" if changed else "alt-witness:same")
        for k in range(len(m2["ins"])):
            tx.set_witness(k, [])
        if tx.id() != want_id or tx.w_id() != want_id or tx.as_bin() != ref_legacy:
            _bad("tx:stripped-ids", "after clearing every witness: id %s w_id %s, expected both %s" % (tx.id(), tx.w_id(), want_id))
    labels.add("form=" + shape)
    labels.add("coin=" + case["coin"])
    return sorted(labels)


class _ForwardOnly:
    """a binary stream offering read() only, like sys.stdin.buffer on a pipe or socket.makefile('rb')"""

    def __init__(self, data):
        self._f = io.BytesIO(data)
        self.consumed = 0

    def read(self, n=-1):
        b = self._f.read(n)
        self.consumed += len(b)
        return b

    def readable(self):
        return True

    def seekable(self):
        return False

    def seek(self, *a):
        raise io.UnsupportedOperation("seek")

    def tell(self):
        raise io.UnsupportedOperation("tell")


def _first_diff(a, b):
    for i, (x, y) in enumerate(zip(a, b)):
        if x != y:
            return i
    return min(len(a), len(b))


def nt_tx(case, labels):
    return txgen.crosses_boundary(labels)


def s_tx_wire():
    alt = st.one_of(st.none(), st.fixed_dictionaries({"idx": st.integers(0, 300), "stack": txgen.witness_stacks(big=0)}))
    return st.builds(lambda coin, tx, a: {"coin": coin, "tx": tx, "alt_witness": a},
                     st.sampled_from(["BTC", "BTC", "LTC", "LTC", "BCH", "BTG"]), txgen.txs(big=1), alt)


ALPHABETS = {"hex-lower": b"0123456789abcdef", "hex-upper": b"0123456789ABCDEF", "digits": b"0123456789", "blanks": b" \n\t\r",
             "letters": b"ABCDEFGHIJKLMNOPQRSTUVWXYZabcdefghijklmnopqrstuvwxyz", "base64": b"ABCDEFGHabcdefgh0123456789+/=",
             "nul": b"\x00", "ff": b"\xff\xfe"}


def alphabet_tx(name, seed):
    """a legal legacy transaction EVERY byte of whose serialisation is taken from one small alphabet (all ASCII hex digits, all
    blanks, all letters ...): version, counts, hashes, indices, script lengths and contents, sequences, amounts, lock time"""
    a = ALPHABETS[name]
    k = [seed]

    def nxt(n):
        out = bytes(a[(k[0] + j * 7 + (j * j) % 5) % len(a)] for j in range(n))
        k[0] += n + 3
        return out
    count = [b for b in a if 1 <= b < 0xfd] or [1]
    n_in, n_out = count[seed % len(count)], count[(seed // 3) % len(count)]
    if name in ("nul", "ff"):
        return None        # a count byte of 0x00 means no inputs (the marker of the extended form), 0xff an 8-byte count
    ins = [{"prev": nxt(32).hex(), "index": int.from_bytes(nxt(4), "little"), "script": nxt(count[(seed + i) % len(count)]).hex(),
            "sequence": int.from_bytes(nxt(4), "little"), "witness": []} for i in range(n_in)]
    outs = [{"value": int.from_bytes(nxt(8), "little"), "script": nxt(count[(seed + 2 * i) % len(count)]).hex()} for i in range(n_out)]
    return {"version": int.from_bytes(nxt(4), "little"), "lock_time": int.from_bytes(nxt(4), "little"), "ins": ins, "outs": outs}


def cases_tx_grid(tier):
    """one dimension at a time on every compact-size boundary, with and without a witness, BTC and LTC"""
    for name in sorted(ALPHABETS):
        for seed in (0, 1, 5):
            tx = alphabet_tx(name, seed)
            if tx is not None:
                yield {"coin": "BTC" if seed != 5 else "LTC", "tx": tx, "alt_witness": None}
    bounds = txgen.SIZE_BOUNDS
    count_bounds = bounds if tier == "thorough" else [b for b in bounds if b < 0xFFFF]
    base_in = {"prev": "11" * 32, "index": 1, "script": "", "sequence": 0xFFFFFFFE, "witness": []}
    for coin in ("BTC", "LTC"):
        for wit in (False, True):
            def mk(**kw):
                i0 = dict(base_in, witness=["aa"] if wit else [])
                i0.update(kw.pop("in0", {}))
                tx = {"version": 2, "lock_time": 0x01020304, "ins": [i0], "outs": [{"value": 1, "script": "51"}]}
                tx.update(kw)
                return {"coin": coin, "tx": tx, "alt_witness": {"idx": 0, "stack": ["bb", ""]}}
            for n in count_bounds:
                if n >= 1:
                    yield mk(xins=n - 1)
                yield mk(outs=[], xouts=n)
            for n in bounds:
                yield mk(in0={"script": [n, 5]})
                yield mk(outs=[{"value": 2**64 - 1, "script": [n, 9]}])
                yield mk(in0={"witness": [[n, 1]]})
                yield mk(in0={"witness": [[n, 1], "", [n, 2]]})
            for n in count_bounds:
                yield mk(in0={"witness": [""] * n})
                yield mk(in0={"witness": ["01"] * n})
            # single strings far above what generated cases reach but well inside what the wire format carries (a witness
            # item is bounded by the 4,000,000-unit block weight only; Core's deserialiser accepts strings to 32 MiB)
            huge = [1000001, 2**20 + 1, 2**21, 2**21 + 1, 3999000] + ([2**22 + 1, 2**24 + 1] if tier == "thorough" else [])
            if coin == "BTC":
                for n in huge:
                    if wit:
                        yield mk(in0={"witness": ["", [n, 3]]})
                    else:
                        yield mk(in0={"script": [n, 4]})
                        yield mk(outs=[{"value": 5, "script": [n, 6]}])


# ------------------------------------------------------------------ spendables


def _sp_model(c):
    return {"value": c["value"], "script": blob(c["script"]), "tx_hash": bytes.fromhex(c["tx_hash"]),
            "tx_out_index": c["tx_out_index"], "block_index_available": c["bia"], "does_seem_spent": c["spent"],
            "block_index_spent": c["bis"]}


def _sp_fields(sp):
    return {"value": sp.coin_value, "script": bytes(sp.script), "tx_hash": bytes(sp.tx_hash), "tx_out_index": sp.tx_out_index,
            "block_index_available": sp.block_index_available, "does_seem_spent": bool(sp.does_seem_spent),
            "block_index_spent": sp.block_index_spent}


def _mk_spendable(m):
    return Spendable(m["value"], m["script"], m["tx_hash"], m["tx_out_index"], m["block_index_available"],
                     m["does_seem_spent"], m["block_index_spent"])


def _sp_labels(m):
    out = ["spent" if m["does_seem_spent"] else "unspent"]
    n = len(m["script"])
    out.append("script>=0xfd" if n >= 0xFD else "script=0" if n == 0 else "script<0xfd")
    if m["value"] >= 2**63:
        out.append("value>=2^63")
    if m["block_index_available"] >= 0xFD or m["block_index_spent"] >= 0xFD:
        out.append("block_index>=0xfd")
    return out


def o_spendable_text_dict(case):
    m = _sp_model(case)
    m["does_seem_spent"] = bool(m["does_seem_spent"])
    sp = _mk_spendable(m)
    text = sp.as_text()
    want_text = "/".join([m["tx_hash"][::-1].hex(), str(m["tx_out_index"]), m["script"].hex(), str(m["value"]),
                          str(m["block_index_available"]), "1" if m["does_seem_spent"] else "0", str(m["block_index_spent"])])
    if text != want_text:
        _bad("spendable:as_text", "as_text() = %r expected %r" % (text[:200], want_text[:200]))
    d = first_difference(m, _sp_fields(Spendable.from_text(text)))
    if d:
        _bad("spendable:text-roundtrip", "from_text(as_text()) differs: %s" % d)
    dct = sp.as_dict()
    d = first_difference(m, _sp_fields(Spendable.from_dict(dct)))
    if d:
        _bad("spendable:dict-roundtrip", "from_dict(as_dict()) differs: %s" % d)
    # the dictionary form is "for use with JSON"
    import json
    d = first_difference(m, _sp_fields(Spendable.from_dict(json.loads(json.dumps(dct)))))
    if d:
        _bad("spendable:dict-json-roundtrip", "from_dict(json(as_dict())) differs: %s" % d)
    # plain TxOut form
    if sp.as_bin() != refser.ser_txout(m):
        _bad("spendable:as_bin-txout", "as_bin() is not the TxOut encoding")
    ti = sp.tx_in()
    if bytes(ti.previous_hash) != m["tx_hash"] or ti.previous_index != m["tx_out_index"]:
        _bad("spendable:tx_in", "tx_in() does not reference the spendable's outpoint")
    return _sp_labels(m)


def o_spendable_binary(case):
    m = _sp_model(case)
    m["does_seem_spent"] = bool(m["does_seem_spent"])
    ref = refser.ser_spendable(m)
    parsed = Spendable.from_bin(ref)
    d = first_difference(m, _sp_fields(parsed))
    if d:
        _bad("spendable:from_bin(ref)-fields", "from_bin(reference bytes) differs: %s" % d)
    sp = _mk_spendable(m)
    got = sp.as_bin(as_spendable=True)
    if got != ref:
        _bad("spendable:as_bin!=ref", "as_bin(as_spendable=True) differs from reference at byte %d" % _first_diff(got, ref))
    d = first_difference(m, _sp_fields(Spendable.from_bin(got)))
    if d:
        _bad("spendable:binary-roundtrip", "from_bin(as_bin(as_spendable=True)) differs: %s" % d)
    return _sp_labels(m)


def s_spendable():
    return st.fixed_dictionaries({
        "value": txgen.amounts(), "script": txgen.blobs(big=1), "tx_hash": txgen.hashes32(), "tx_out_index": txgen.u32s(),
        "bia": st.one_of(st.sampled_from([0, 1, 0xFC, 0xFD, 0xFFFF, 0x10000, 0xFFFFFFFF]), st.integers(0, 10**6)),
        "spent": st.booleans(),
        "bis": st.one_of(st.sampled_from([0, 1, 0xFC, 0xFD, 0xFFFF, 0x10000, 0xFFFFFFFF]), st.integers(0, 10**6)),
    })


# ------------------------------------------------------------------ unspents extension


def o_unspents(case):
    Tx = CLASSES[case["coin"]]
    m = expand_tx(case["tx"])
    n = len(m["ins"])
    us = [{"value": u["value"], "script": blob(u["script"])} for u in (case["unspents"] * n)[:n]]
    ref_tx = refser.ser_tx(m)
    ref = refser.ser_tx_with_unspents(m, us)
    tx = to_pycoin(Tx, m, unspents=us)
    before = tx.as_bin()
    got = tx.as_bin(include_unspents=True)
    if got != ref:
        _bad("unspents:as_bin!=ref", "as_bin(include_unspents=True) differs from tx||txouts at byte %d (len %d vs %d)" % (
            _first_diff(got, ref), len(got), len(ref)))
    if tx.as_hex(include_unspents=True) != ref.hex():
        _bad("unspents:as_hex", "as_hex(include_unspents=True) mismatch")
    if before != ref_tx or tx.as_bin() != ref_tx:
        _bad("unspents:plain-form-changed", "as_bin() without the extension is not the plain transaction")
    tx2 = Tx.from_bin(ref)
    d = first_difference(model_fields(m), pycoin_fields(tx2))
    if d:
        _bad("unspents:tx-fields", "transaction part differs after from_bin: %s" % d)
    if len(tx2.unspents) != n:
        _bad("unspents:count", "from_bin gave %d unspents for %d inputs" % (len(tx2.unspents), n))
    all_nonzero = True
    for k, (u, p) in enumerate(zip(us, tx2.unspents)):
        if u["value"] == 0:
            all_nonzero = False        # the property covers non-zero amounts only
            continue
        if p is None or p.coin_value != u["value"] or bytes(p.script) != u["script"]:
            _bad("unspents:roundtrip", "unspent %d (value %d, script %d bytes) came back as %r" % (
                k, u["value"], len(u["script"]), p if p is None else (p.coin_value, len(p.script))))
    labels = ["coin=" + case["coin"], "form=" + _shape(m)]
    if all_nonzero:
        if tx2.as_bin(include_unspents=True) != ref:
            _bad("unspents:reserialise", "from_bin(ref).as_bin(include_unspents=True) != ref")
        if Tx.from_hex(ref.hex()).as_hex(include_unspents=True) != ref.hex():
            _bad("unspents:hex-roundtrip", "hex form with unspents does not round-trip")
        labels.append("all-nonzero")
    else:
        labels.append("has-zero-amount(dont-care)")
    labels.append("n_in=%s" % (n if n < 4 else "4+"))
    labels.append("n_in!=n_out" if n != len(m["outs"]) else "n_in==n_out")
    if any(u["value"] in (1, 2) for u in us):
        labels.append("amount=1|2")
    if any(i["prev"] == b"\0" * 32 for i in m["ins"]):
        labels.append("zero-prev-hash")
    return labels


def s_unspents():
    amt = weighted([(30, st.sampled_from([1, 2, 2**63 - 1, 2**63, 2**64 - 1])), (55, st.integers(1, 2**64 - 1)),
                    (10, st.integers(1, 10**6)), (5, st.just(0))])
    us = st.lists(st.builds(lambda v, s: {"value": v, "script": s}, amt, txgen.blobs(big=0)), min_size=1, max_size=4)
    return st.builds(lambda coin, tx, u: {"coin": coin, "tx": tx, "unspents": u}, st.sampled_from(["BTC", "BTC", "LTC", "LTC", "BCH", "BTG"]),
                     txgen.txs(big=0, counts=False), us)


# ------------------------------------------------------------------ one long-lived Tx object edited in place


def o_tx_history(case):
    """id / w_id / as_bin / as_hex asked of ONE Tx object between in-place edits of its fields: every answer describes the
    transaction as it is at that moment (an id or serialisation cached across an edit is a violation)"""
    Tx = CLASSES[case["coin"]]
    m = expand_tx(case["tx"])
    tx = to_pycoin(Tx, m)
    labels, edited, asked = ["coin=" + case["coin"]], False, False
    for step, op in enumerate(case["ops"]):
        k = op[0]
        if k == "q":
            what = op[1]
            if what == "id":
                got, want = tx.id(), refser.txid(m)
            elif what == "w_id":
                got, want = tx.w_id(), refser.wtxid(m)
            elif what == "hash":
                got, want = tx.hash(), bytes.fromhex(refser.txid(m))[::-1]
            elif what == "as_hex":
                got, want = tx.as_hex(), refser.ser_tx(m).hex()
            else:
                got, want = tx.as_bin(), refser.ser_tx(m)
            if got != want:
                _bad("tx:history:%s-stale-or-wrong" % what, "step %d of %s: %s() does not describe the transaction as edited (%s)" % (
                    step, [o[:2] for o in case["ops"]], what, _shape(m)))
            if edited and asked:
                labels.append("query-after-edit-after-query")
            asked = True
            continue
        edited = True
        if k == "version":
            m["version"] = tx.version = op[1]
        elif k == "lock_time":
            m["lock_time"] = tx.lock_time = op[1]
        elif k == "sequence":
            j = op[1] % len(m["ins"])
            m["ins"][j]["sequence"] = tx.txs_in[j].sequence = op[2]
        elif k == "in-script":
            j = op[1] % len(m["ins"])
            b = bytes.fromhex(op[2])
            m["ins"][j]["script"] = b
            tx.txs_in[j].script = b
        elif k == "out-value" and m["outs"]:
            j = op[1] % len(m["outs"])
            m["outs"][j]["value"] = tx.txs_out[j].coin_value = op[2]
        elif k == "witness":
            j = op[1] % len(m["ins"])
            w = [bytes.fromhex(x) for x in op[2]]
            m["ins"][j]["witness"] = w
            tx.set_witness(j, w)
    return sorted(set(labels))


def s_tx_history():
    from gen.common import weighted
    u32 = st.sampled_from([0, 1, 2, 0xfffffffe, 0xffffffff, 0x80000000])
    q = st.tuples(st.just("q"), st.sampled_from(["id", "id", "w_id", "hash", "as_bin", "as_hex"])).map(list)
    edit = st.one_of(st.tuples(st.just("version"), u32).map(list), st.tuples(st.just("lock_time"), u32).map(list),
                     st.tuples(st.just("sequence"), st.integers(0, 5), u32).map(list),
                     st.tuples(st.just("in-script"), st.integers(0, 5), st.sampled_from(["", "51", "00" * 3, "ab" * 253])).map(list),
                     st.tuples(st.just("out-value"), st.integers(0, 5), st.sampled_from([0, 1, 2**63, 2**64 - 1, 5000])).map(list),
                     st.tuples(st.just("witness"), st.integers(0, 5), st.sampled_from([[], [""], ["", ""], ["aa"], ["", "bb" * 300]])).map(list))
    return st.builds(lambda coin, tx, ops: {"coin": coin, "tx": tx, "ops": ops}, st.sampled_from(["BTC", "LTC", "BCH", "BTG"]),
                     txgen.txs(big=0), st.lists(weighted((3, q), (2, edit)), min_size=3, max_size=10))


SUBCHECKS = [
    SubCheck("tx_history", o_tx_history, strategy=s_tx_history, budget=(1500, 60000),
             nontrivial=lambda c, l: "query-after-edit-after-query" in l,
             rule="one Tx object: 3-10 operations, each a query (id, w_id, hash, as_bin, as_hex) or an in-place edit (version, lock time, a sequence, an input script, an output value, a witness stack incl. stacks of empty items); every answer equals the reference for the transaction as it is at that moment; non-trivial = a query after an edit that followed a query"),
    SubCheck("tx_wire", o_tx_wire, strategy=s_tx_wire, budget=(4000, 100000), nontrivial=nt_tx,
             rule="generated transactions (1..4 inputs, rarely 0xfc/0xfd/0xfe inputs or outputs, scripts/witness items on compact-size "
                  "boundaries, 64-bit amounts, full-range 32-bit fields, mixed/empty witness stacks; BTC and LTC): as_bin == reference "
                  "(BIP144 iff a witness stack is non-empty), from_bin round trip field by field, parse(ref).as_bin()==ref, hex forms, "
                  "id/w_id vs reference, id invariant under set_witness; non-trivial = crosses a compact-size boundary or carries a witness"),
    SubCheck("tx_boundary_grid", o_tx_wire, cases=cases_tx_grid, nontrivial=nt_tx, exhaustive=True,
             rule="enumeration: one of {#inputs, #outputs, input script length, output script length, witness item length, witness item "
                  "count} set to each of {0,1,2,0xfc,0xfd,0xfe,0xffff,0x10000,0x10001} (counts >= 0xffff in the thorough tier only), "
                  "with/without witness, BTC/LTC; same oracle as tx_wire"),
    SubCheck("spendable_text_dict", o_spendable_text_dict, strategy=s_spendable, budget=(1500, 60000),
             rule="spendables with boundary amounts / indices / script lengths: as_text exact, from_text/from_dict (also through JSON) "
                  "round trip, TxOut form, tx_in()"),
    SubCheck("spendable_binary", o_spendable_binary, strategy=s_spendable, budget=(1500, 60000),
             rule="same spendables: from_bin(reference record) field by field, as_bin(as_spendable=True) == reference, round trip"),
    SubCheck("tx_unspents_extension", o_unspents, strategy=s_unspents, budget=(1500, 60000),
             nontrivial=lambda c, l: "all-nonzero" in l,
             rule="transactions with one spent output per input (amounts mostly non-zero, boundary values 1, 2, 2^63, 2^64-1): "
                  "as_bin(include_unspents=True) == tx || txouts, from_bin restores transaction and unspents, re-serialises unchanged; "
                  "non-trivial = every amount non-zero"),
]
