"""C12 - Script integers, data pushes and script text encode canonically and losslessly."""
import itertools

from hypothesis import strategies as st

from oracles import refscriptnum as R
from vlib.core import SubCheck, Violation

from pycoin.coins.SolutionChecker import ScriptError
from pycoin.coins.bitcoin.ScriptTools import BitcoinScriptTools
from pycoin.networks.registry import network_for_netcode
from pycoin.satoshi.IntStreamer import IntStreamer

from gen import subproc

PROPERTY = "C12"
ASSUMPTIONS = [
    "oracles/refscriptnum.py: CScriptNum::serialize / set_vch / fRequireMinimal test, CheckMinimalPush, CScript::GetOp and the "
    "opcode name table written from Bitcoin Core's script.h / interpreter.cpp; calibrated on the scriptnum values quoted in "
    "Core's tests and on an internal serialize/decode/GetOp consistency sweep",
    "'a VM with MINIMALDATA accepts it' is observed at ScriptStreamer.get_opcode(verify_minimal_data=True), the only place "
    "pycoin's VM enforces the minimal-push rule (VM.eval_instruction passes the flag straight through)",
    "'reported as malformed' = get_opcode's is_ok flag is False (VM.eval_instruction turns that into BAD_OPCODE) and "
    "ScriptTools.get_opcodes yields data None for the instruction",
]
CONFIGURATIONS = ["BitcoinScriptTools / BitcoinScriptStreamer / IntStreamer (shared by every registered network: "
                  "no symbol file overrides script_tools); text round trip run through network.script of BTC, LTC, BCH, XTN"]
UNEXPLORED = ["pushes longer than 16 MiB + 1 byte", "integers of magnitude >= 2^71 other than the listed powers of two up to 2^127",
              "script text written by hand (lower-case names, names without OP_ prefix, quoted strings, decimal literals): "
              "only text produced by disassemble, and the bare opcode names, are compiled"]

ST = BitcoinScriptTools
STREAMER = ST.scriptStreamer
NETS = {code: network_for_netcode(code) for code in ("BTC", "LTC", "BCH", "XTN")}


def _bad(b, m):
    raise Violation(b, m)


# ------------------------------------------------------------------ integers


def _nbytes(v):
    return len(R.serialize(v))


def _is_int_boundary(v):
    a = abs(v)
    for k in range(1, 18):
        if abs(a - (1 << (8 * k - 1))) <= 1 or abs(a - (1 << (8 * k))) <= 1:
            return True
    return a <= 1


def o_int(case):
    v = case["v"]
    ref = R.serialize(v)
    got = IntStreamer.int_to_script_bytes(v)
    if got != ref:
        _bad("int:encode!=CScriptNum", "int_to_script_bytes(%d) = %s, CScriptNum::serialize gives %s" % (v, got.hex(), ref.hex()))
    try:
        back = IntStreamer.int_from_script_bytes(got, require_minimal=True)
    except ScriptError as ex:
        _bad("int:minimal-form-refused", "int_from_script_bytes(%s, require_minimal=True) raised %s for the encoding of %d" % (got.hex(), ex, v))
    if back != v:
        _bad("int:roundtrip", "strict decode of int_to_script_bytes(%d) = %d" % (v, back))
    if IntStreamer.int_from_script_bytes(got) != v:
        _bad("int:roundtrip", "lenient decode of int_to_script_bytes(%d) = %d" % (v, IntStreamer.int_from_script_bytes(got)))
    if ST.intStreamer.int_to_script_bytes(v) != ref:
        _bad("int:encode!=CScriptNum", "script_tools.intStreamer differs for %d" % v)
    n = len(ref)
    return ["bytes=%s" % (n if n < 5 else "5-8" if n <= 8 else "9+"), "neg" if v < 0 else "zero" if v == 0 else "pos",
            "boundary" if _is_int_boundary(v) else "interior"]


def nt_int(case, labels):
    return "boundary" in labels


def cases_int_small(tier):
    for v in range(-(1 << 17) + 1, 1 << 17):
        yield {"v": v}


def _boundary_values():
    vals = set()
    for bits in range(1, 128):
        for d in (-2, -1, 0, 1, 2):
            for sgn in (1, -1):
                vals.add(sgn * ((1 << bits) + d))
    return sorted(vals)


def cases_int_boundaries(tier):
    for v in _boundary_values():
        yield {"v": v}


def s_int():
    mag = st.one_of(st.integers(0, (1 << 71) - 1), st.integers(1, 9).flatmap(lambda k: st.integers(1 << (8 * k - 8), (1 << (8 * k)) - 1)),
                    st.builds(lambda k, d: max(0, (1 << (8 * k - 1)) + d), st.integers(1, 9), st.integers(-300, 300)),
                    st.builds(lambda k, d: max(0, (1 << (8 * k)) + d), st.integers(1, 8), st.integers(-300, 300)))
    return st.builds(lambda m, neg: {"v": -m if neg else m}, mag, st.booleans())


# ------------------------------------------------------------------ byte strings as candidate numbers


def o_numbytes(case):
    s = bytes.fromhex(case["s"])
    ref_v = R.decode(s)
    ref_min = R.is_minimal(s)
    got = IntStreamer.int_from_script_bytes(s)
    if got != ref_v:
        _bad("int:lenient-decode!=CScriptNum", "int_from_script_bytes(%s) = %d, CScriptNum value %d" % (case["s"], got, ref_v))
    try:
        strict = IntStreamer.int_from_script_bytes(s, require_minimal=True)
        ok = True
    except ScriptError:
        strict, ok = None, False
    if ok != ref_min:
        _bad("int:non-minimal-accepted" if ok else "int:minimal-refused",
             "int_from_script_bytes(%s, require_minimal=True) %s; Core's fRequireMinimal test says %s" % (
                 case["s"], "returned %r" % strict if ok else "raised", "minimal" if ref_min else "non-minimal"))
    if ok and strict != ref_v:
        _bad("int:strict-decode!=CScriptNum", "strict decode of %s = %d, CScriptNum value %d" % (case["s"], strict, ref_v))
    if ref_min:
        if IntStreamer.int_to_script_bytes(ref_v) != s:
            _bad("int:minimal-form-not-unique", "%s is minimal for %d but int_to_script_bytes gives %s" % (
                case["s"], ref_v, IntStreamer.int_to_script_bytes(ref_v).hex()))
    labels = ["minimal" if ref_min else "non-minimal", "len=%s" % (len(s) if len(s) < 3 else "3-5" if len(s) <= 5 else "6+")]
    if s and (s[-1] & 0x7f) == 0:
        labels.append("msb-zero:" + ("sign-byte-needed" if ref_min else "padding"))
    if ref_v == 0 and s:
        labels.append("zero-nonempty")
    return labels


def nt_numbytes(case, labels):
    return any(l.startswith("msb-zero") for l in labels)


def cases_numbytes_small(tier):
    yield {"s": ""}
    for n in (1, 2):
        for t in itertools.product(range(256), repeat=n):
            yield {"s": bytes(t).hex()}


def s_numbytes():
    last = st.one_of(st.sampled_from([0x00, 0x80]), st.sampled_from([0x00, 0x80, 0x01, 0x7f, 0x81, 0xff]), st.integers(0, 255))
    prev = st.one_of(st.sampled_from([0x00, 0x7f, 0x80, 0xff]), st.integers(0, 255))
    body = st.binary(max_size=7)
    structured = st.builds(lambda b, p, l, n: (b + bytes([p, l]))[-n:] if n else b"", body, prev, last, st.sampled_from([1, 2, 2, 3, 4, 5, 6, 7, 8, 9]))
    return st.one_of(structured, structured, st.binary(max_size=9)).map(lambda b: {"s": b.hex()})


# ------------------------------------------------------------------ pushes


_COUNTER = bytes((i * 7 + 3) & 0xff for i in range(256))


def _data(case):
    if "data" in case:
        return bytes.fromhex(case["data"])
    n, f = case["len"], case["fill"]
    if f == "counter":
        return (_COUNTER * (n // 256 + 1))[:n]
    return bytes([f]) * n


def _pyc_get(script, pc, minimal=False):
    """-> (opcode, data, new_pc, is_ok) or 'MINIMALDATA' when the decoder objects to a non-minimal push"""
    try:
        return STREAMER.get_opcode(script, pc, verify_minimal_data=minimal)
    except ScriptError:
        if not minimal:
            raise
        return "MINIMALDATA"


def _refusal_bucket(n, op):
    """a minimal push refused under verify_minimal_data; the smallest size that needs PUSHDATA2 / PUSHDATA4 gets its own bucket"""
    if (n, op) in ((256, R.OP_PUSHDATA2), (65536, R.OP_PUSHDATA4)):
        return "push:minimaldata-refuses-smallest-pushdata2/4-size"
    return "push:minimaldata-refuses-minimal"


def _prefix_cuts(n):
    if n <= 90:
        return list(range(1, n))
    cuts = set(range(1, 12)) | {n - 1, n - 2, n - 3, n // 2, n // 3, 76, 77, 78, 256, 257, 258, 259}
    return sorted(c for c in cuts if 1 <= c < n)


def _check_truncated(script, pc, what):
    """script[pc:] is a push instruction that runs off the end of the script"""
    ok_ref, op_ref, _d, _p = R.get_op(script, pc)
    assert ok_ref is False
    w = {R.OP_PUSHDATA1: 1, R.OP_PUSHDATA2: 2, R.OP_PUSHDATA4: 4}.get(op_ref, 0)
    short_len_field = len(script) - pc - 1 < w
    opcode, data, new_pc, is_ok = STREAMER.get_opcode(script, pc)
    if is_ok or data is not None:
        if short_len_field:
            _bad("push:short-length-field-read-as-empty-push",
                 "%s: get_opcode(%s, pc=%d) = (opcode %#x, data %r, pc %d, is_ok %r); the %d-byte length field of opcode %#x is "
                 "cut short, Core's GetOp fails" % (what, script.hex()[:80], pc, opcode, bytes(data).hex() if data is not None else None,
                                                    new_pc, is_ok, w, op_ref))
        _bad("push:truncated-data-accepted", "%s: get_opcode(%s.., pc=%d) reports is_ok=%r data=%r for a push that runs off the end" % (
            what, script.hex()[:80], pc, is_ok, None if data is None else bytes(data).hex()[:40]))
    if new_pc <= pc:
        _bad("push:truncated-no-progress", "%s: get_opcode returned pc %d <= %d for a truncated push" % (what, new_pc, pc))
    # the iterator used by disassemble / annotate must show it as an instruction without data, and terminate
    seen = None
    for op2, d2, pc2, npc2 in ST.get_opcodes(script, pc=pc):
        seen = (op2, d2)
        break
    if seen is None or seen[1] is not None:
        _bad("push:short-length-field-read-as-empty-push" if short_len_field else "push:truncated-data-accepted",
             "%s: script_tools.get_opcodes yields %r for truncated push %s" % (what, seen, script.hex()[:80]))
    # ... also when minimal pushes are demanded: a push that runs off the end is malformed before its encoding can be
    # judged (Core's GetOp fails before CheckMinimalPush is consulted), whatever its declared length
    try:
        seen_min = None
        for op2, d2, pc2, npc2 in ST.get_opcodes(script, pc=pc, verify_minimal_data=True):
            seen_min = (op2, d2)
            break
    except ScriptError as ex:
        _bad("push:truncated-reported-as-non-minimal", "%s: get_opcodes(verify_minimal_data=True) raises %s for the truncated push %s; "
             "without the flag it is reported as an instruction without data" % (what, ex, script.hex()[:80]))
    if seen_min is None or seen_min[1] is not None:
        _bad("push:truncated-data-accepted", "%s: get_opcodes(verify_minimal_data=True) yields %r for truncated push %s" % (
            what, seen_min, script.hex()[:80]))
    return "cut-in-length-field" if short_len_field else "cut-in-data" if len(script) - pc - 1 > w or w == 0 else "cut-after-length-field"


class _Deviations:
    """collects every deviation seen in one case, so that a listed known finding does not hide a second, different one:
    the case is raised with the tuple of all buckets, and the runner excludes it only if *all* of them are listed"""

    def __init__(self):
        self.items = []

    def add(self, bucket, msg):
        self.items.append((bucket, msg))

    def run(self, f, *args):
        try:
            return f(*args)
        except Violation as v:
            for bk in v.bucket:
                self.items.append((bk, v.msg))
            return None

    def finish(self):
        if self.items:
            buckets = []
            for bk, _m in self.items:
                if bk not in buckets:
                    buckets.append(bk)
            firsts = [next(m for b2, m in self.items if b2 == bk) for bk in buckets]
            raise Violation(tuple(sorted(buckets)), " || ".join(firsts)[:1500])


def _push_label(first_byte):
    return ("OP_0" if first_byte == 0 else "OP_n/1NEGATE" if first_byte >= 0x4f else "direct" if first_byte <= 75 else
            {0x4c: "PUSHDATA1", 0x4d: "PUSHDATA2", 0x4e: "PUSHDATA4"}[first_byte])


def o_push(case):
    d = _data(case)
    n = len(d)
    dev = _Deviations()
    ref = R.minimal_push(d)
    got = STREAMER.compile_push_data(d)
    if got != ref:
        dev.add("push:encoding-not-minimal", "compile_push_data(%d bytes %s..) starts %s, minimal encoding starts %s" % (
            n, d[:8].hex(), got[:6].hex(), ref[:6].hex()))
    if ST.compile_push_data_list([d]) != ref:
        dev.add("push:encoding-not-minimal", "compile_push_data_list([%d bytes]) differs from the minimal encoding" % n)
    # the item inside a list, after and before companions of the same and of other lengths (one-byte values with and without
    # an opcode of their own, an empty item, a neighbour of equal length): each item is pushed as if it stood alone
    mates = [b"\x00", b"\x05", b"\x11", b"\x81", b"", bytes(n), (d[::-1] if n else b"\x7f"), b"\x10"]
    for k in range(3):
        lst = [mates[(n + k) % 8], mates[(n + 2 * k + 3) % 8], d, mates[(n + k + 5) % 8]][k % 2:]
        want = b"".join(R.minimal_push(x) for x in lst)
        if ST.compile_push_data_list(lst) != want:
            dev.add("push:list-encoding-depends-on-neighbours", "compile_push_data_list(%s) = %s, the items pushed one by one give %s" % (
                [x.hex()[:20] for x in lst], ST.compile_push_data_list(lst).hex()[:80], want.hex()[:80]))
            break
    labels = ["op=" + _push_label(ref[0])]
    if n in (0, 1, 75, 76, 255, 256, 65535, 65536):
        labels.append("len-boundary")
    # read back pycoin's own encoding, without and with the MINIMALDATA rule
    for minimal in (False, True):
        r = _pyc_get(got, 0, minimal)
        if r == "MINIMALDATA":
            dev.add(_refusal_bucket(n, got[0]), "get_opcode(verify_minimal_data=True) refuses compile_push_data(%d bytes %s..), the "
                    "shortest encoding (opcode %#x), as non-minimal" % (n, d[:8].hex(), got[0]))
            continue
        opcode, data, new_pc, is_ok = r
        if not is_ok or data is None or bytes(data) != d or new_pc != len(got) or opcode != got[0]:
            dev.add("push:readback", "get_opcode(compile_push_data(%d bytes %s..)) = (%#x, %s.., %d, %r)" % (
                n, d[:8].hex(), opcode, None if data is None else bytes(data)[:8].hex(), new_pc, is_ok))
    ops = list(ST.get_opcodes(got))
    if len(ops) != 1 or ops[0][1] is None or bytes(ops[0][1]) != d or ops[0][3] != len(got):
        dev.add("push:readback", "script_tools.get_opcodes(compile_push_data(%d bytes)) = %r" % (
            n, [(o, None if x is None else len(x), a, b) for o, x, a, b in ops]))
    # every explicit push form: reads back the same data; MINIMALDATA verdict = CheckMinimalPush
    pre = case.get("pre", 0)
    for op, enc in R.push_forms(d):
        script = b"\x61" * pre + enc
        opcode, data, new_pc, is_ok = STREAMER.get_opcode(script, pre)
        if not is_ok or data is None or bytes(data) != d or new_pc != len(script) or opcode != op:
            dev.add("push:readback-form-" + _push_label(op), "get_opcode of %d bytes pushed with opcode %#x = (%#x, %s.., %d, %r)" % (
                n, op, opcode, None if data is None else bytes(data)[:8].hex(), new_pc, is_ok))
        verdict = _pyc_get(script, pre, True)
        want_ok = R.check_minimal_push(d, op)
        if (verdict != "MINIMALDATA") != want_ok:
            dev.add("push:minimaldata-accepts-non-minimal" if not want_ok else _refusal_bucket(n, op),
                    "%d bytes (%s..) pushed with opcode %#x: verify_minimal_data %s, CheckMinimalPush says %s" % (
                        n, d[:4].hex(), op, "accepted" if verdict != "MINIMALDATA" else "refused", want_ok))
        labels.append("form=%s:%s" % (_push_label(op), "minimal" if want_ok else "non-minimal"))
    dev.finish()
    return sorted(set(labels))


def o_push_prefixes(case):
    """every strict prefix (sampled above 90 bytes) of every explicit push form of the data is a truncated push"""
    d = _data(case)
    pre = case.get("pre", 0)
    dev = _Deviations()
    labels = set()
    for op, enc in [(None, R.minimal_push(d))] + R.push_forms(d):
        if len(enc) < 2:
            continue
        for cut in _prefix_cuts(len(enc)):
            lab = dev.run(_check_truncated, b"\x61" * pre + enc[:cut], pre, "prefix %d/%d of %d-byte push with opcode %#x" % (
                cut, len(enc), len(d), enc[0]))
            if lab:
                labels.add(lab)
                labels.add("opcode=" + _push_label(enc[0]))
    dev.finish()
    return sorted(labels)


def nt_push(case, labels):
    return "len-boundary" in labels


def cases_push_lengths(tier):
    for n in list(range(0, 601)) + [65534, 65535, 65536, 65537, 70000, 2**20, 2**21 + 1, 2**22 + 5, 2**24 + 1]:
        fills = [0x00, 0xa5, "counter"] if n <= 600 else ["counter"]
        for f in fills:
            yield {"len": n, "fill": f}
    for b in range(256):
        yield {"data": "%02x" % b}
        yield {"data": "%02x" % b, "pre": 3}
    for b in (0x00, 0x01, 0x10, 0x11, 0x80, 0x81):
        yield {"data": "%02x%02x" % (b, b)}


def cases_push_small_data(tier):
    """every 2-byte data string, and every 3- and 4-byte string over the bytes that have a dedicated push opcode
    (01..10, 81) or sit next to them: data that merely *contains* such bytes is pushed minimally by a direct push"""
    import itertools
    for a in range(256):
        for b in range(256):
            yield {"data": "%02x%02x" % (a, b)}
    special = [0x00, 0x01, 0x02, 0x03, 0x0f, 0x10, 0x11, 0x80, 0x81, 0x82]
    for n in (3, 4):
        for t in itertools.product(special, repeat=n):
            yield {"data": bytes(t).hex()}


def s_push():
    ln = st.one_of(st.sampled_from([0, 1, 2, 74, 75, 76, 77, 254, 255, 256, 257, 520, 521]), st.integers(0, 80), st.integers(0, 700))
    small = st.one_of(st.binary(max_size=3), st.sampled_from([bytes([b]) for b in (0, 1, 2, 15, 16, 17, 0x7f, 0x80, 0x81, 0x82, 0xff)]))
    return st.one_of(
        st.builds(lambda n, f, pre: {"len": n, "fill": f, "pre": pre}, ln, st.one_of(st.just("counter"), st.integers(0, 255)), st.integers(0, 4)),
        st.builds(lambda b, pre: {"data": b.hex(), "pre": pre}, small, st.integers(0, 4)),
        st.builds(lambda b, pre: {"data": b.hex(), "pre": pre}, st.binary(max_size=90), st.integers(0, 4)),
    )


# ------------------------------------------------------------------ truncated pushes, generated directly


def o_truncated(case):
    """opcode, a length field (possibly cut short) declaring `declared` bytes, then only `have` < declared bytes"""
    op = case["opcode"]
    w = {R.OP_PUSHDATA1: 1, R.OP_PUSHDATA2: 2, R.OP_PUSHDATA4: 4}.get(op, 0)
    declared = case["declared"] % (1 << (8 * w)) if w else op
    field = declared.to_bytes(w, "little")[:case["field_bytes"]] if w else b""
    if len(field) < w:
        body = b""
    else:
        have = case["have"] % declared if declared else None
        if have is None:
            return ["skip-empty-push-not-truncatable"]
        body = bytes((i * 5 + 1) & 0xff for i in range(have))
    script = bytes(case["before"]) + bytes([op]) + field + body
    pc = len(case["before"])
    return [_check_truncated(script, pc, "generated"), "opcode=%s" % ("direct" if op <= 75 else {0x4c: "PUSHDATA1", 0x4d: "PUSHDATA2", 0x4e: "PUSHDATA4"}[op])]


def cases_truncated_small(tier):
    for op in (R.OP_PUSHDATA1, R.OP_PUSHDATA2, R.OP_PUSHDATA4):
        w = {R.OP_PUSHDATA1: 1, R.OP_PUSHDATA2: 2, R.OP_PUSHDATA4: 4}[op]
        for fb in range(0, w + 1):
            for declared in (1, 2, 0x4c, 0xff, 0x100, 0xffff):
                for have in (0, 1, declared - 1):
                    for before in ([], [0x61], [0x00, 0x51]):
                        yield {"opcode": op, "declared": declared, "field_bytes": fb, "have": have, "before": before}
    for op in range(1, 76):
        for have in sorted({0, 1, op - 1}):
            yield {"opcode": op, "declared": op, "field_bytes": 0, "have": have, "before": []}


def s_truncated():
    op = st.one_of(st.sampled_from([0x4c, 0x4d, 0x4e]), st.integers(1, 0x4e))
    return st.fixed_dictionaries({
        "opcode": op, "declared": st.one_of(st.integers(1, 300), st.integers(1, 0xffffffff)),
        "field_bytes": st.integers(0, 4), "have": st.integers(0, 400),
        "before": st.lists(st.sampled_from([0x00, 0x51, 0x61, 0x76, 0xac]), max_size=3)})


def nt_truncated(case, labels):
    return "cut-in-length-field" in labels or "cut-after-length-field" in labels


# ------------------------------------------------------------------ script text


_PATTERN = bytes((i * 3) & 0xff for i in range(256))


def _element_bytes(el):
    if el[0] == "op":
        return bytes([R.KNOWN_NONPUSH_BYTES[el[1] % len(R.KNOWN_NONPUSH_BYTES)]])
    if el[0] == "opb":
        return bytes([el[1]])
    if el[0] == "push":
        return R.minimal_push(bytes.fromhex(el[1]))
    if el[0] == "pushn":
        return R.minimal_push((_PATTERN[el[2] % 256:] + _PATTERN * (el[1] // 256 + 1))[:el[1]])
    raise ValueError(el)


def o_text(case):
    parts = [_element_bytes(el) for el in case["elements"]]
    script = b"".join(parts)
    net = NETS[case["net"]]
    text = net.script.disassemble(script)
    # a compile that fails part-way (good tokens, then one that is not a token) happens in between: it must leave nothing behind
    for junk in ("OP_DUP OP_HASH160 [0011] not-a-token", "OP_1 OP_2 op_add", "[00"):
        try:
            net.script.compile(junk)
        except Exception:      # noqa - how bad text is refused is not under test here
            pass
    try:
        back = net.script.compile(text)
    except (SyntaxError, ValueError, KeyError) as ex:
        _bad("text:disassembly-does-not-compile", "compile(disassemble(%s..)) raised %r; text %r" % (script.hex()[:80], ex, text[:200]))
    if back != script:
        k = next((i for i in range(min(len(back), len(script))) if back[i] != script[i]), min(len(back), len(script)))
        _bad("text:roundtrip", "compile(disassemble(s)) != s at byte %d: s=%s.. text=%r back=%s.." % (
            k, script[max(0, k - 4):k + 8].hex(), text[:160], back[max(0, k - 4):k + 8].hex()))
    toks = text.split()
    if len(toks) != len(case["elements"]):
        _bad("text:token-count", "disassemble gives %d tokens for %d instructions: %r" % (len(toks), len(case["elements"]), text[:200]))
    if ST.disassemble(script) != text or ST.opcode_list(script) != toks:
        _bad("text:network-script-differs", "network.script and BitcoinScriptTools disagree on %s" % script.hex()[:80])
    # the caller owns what it is given: editing a returned token list (to build a longer script text, say) must not
    # change what the next disassembly of the same bytes says
    mine = net.script.opcode_list(script)
    mine.append("OP_CHECKSIG")
    mine.reverse()
    if net.script.opcode_list(script) != toks or net.script.disassemble(script) != text:
        _bad("text:disassembly-depends-on-edits-to-an-earlier-result", "after a caller edited the list opcode_list(%s..) had returned, the "
             "next disassembly of the same bytes is %r" % (script.hex()[:80], net.script.disassemble(script)[:200]))
    labels = set()
    for el, b in zip(case["elements"], parts):
        labels.add("el=op" if el[0] in ("op", "opb") else "el=push:" + ("OP_0" if b[0] == 0 else "OP_n/1NEGATE" if b[0] >= 0x4f else "direct" if b[0] <= 75
                                                                else {0x4c: "PUSHDATA1", 0x4d: "PUSHDATA2", 0x4e: "PUSHDATA4"}[b[0]]))
    labels.add("n=%s" % ("0" if not toks else "1-3" if len(toks) <= 3 else "4+"))
    return sorted(labels)


def s_text():
    pushlen = st.one_of(st.sampled_from([0, 1, 2, 20, 32, 33, 65, 71, 72, 73, 75, 76, 77, 255, 256, 520]), st.integers(0, 80),
                        st.sampled_from([65535, 65536]))
    el = st.one_of(
        st.integers(0, 200).map(lambda i: ["op", i]),
        st.integers(0, 200).map(lambda i: ["op", i]),
        st.binary(max_size=40).map(lambda b: ["push", b.hex()]),
        st.sampled_from([bytes([b]) for b in (0, 1, 2, 16, 17, 0x80, 0x81, 0x82)]).map(lambda b: ["push", b.hex()]),
        st.builds(lambda n, f: ["pushn", n, f], pushlen, st.integers(0, 255)),
    )
    return st.fixed_dictionaries({"net": st.sampled_from(sorted(NETS)), "elements": st.lists(el, max_size=12)})


# the fixed bytes and the total length of the standard output scripts; what lies between is one push in the real thing
_FRAMES = {"p2pkh": ([0x76, 0xa9], 21, [0x88, 0xac]), "p2sh": ([0xa9], 21, [0x87]), "p2wpkh": ([0x00], 21, []), "p2wsh": ([0x00], 33, []),
           "p2tr": ([0x51], 33, []), "p2pk": ([], 34, [0xac]), "p2pk-u": ([], 66, [0xac]), "nulldata": ([0x6a], 21, []),
           "msig-1of1": ([0x51], 34, [0x51, 0xae]), "msig-1of2": ([0x51], 68, [0x52, 0xae])}


def s_near_templates():
    """scripts with the frame and the exact length of a standard output script whose interior is some OTHER well-formed
    instruction sequence of the same size (a shorter push and an opcode, two pushes, opcodes only), and the real thing"""
    fill_ops = [0x61, 0x75, 0x76, 0x87, 0x88, 0xac, 0x51, 0x00, 0x6a, 0xa9]

    def mk(net, frame, shape, a, f, opi):
        head, L, tail = _FRAMES[frame]
        op = ["opb", fill_ops[opi % len(fill_ops)]]
        a = 2 + a % max(1, L - 6)
        mid = {"exact": [["pushn", L - 1, f]],
               "push+op": [["pushn", L - 2, f], op],
               "op+push": [op, ["pushn", L - 2, f]],
               "push+push": [["pushn", a, f], ["pushn", L - 2 - a, f + 1]] if L - 2 - a >= 2 else [["pushn", L - 2, f], op],
               "push+op+op": [["pushn", L - 3, f], op, op],
               "op+push+op": [op, ["pushn", L - 3, f], op],
               "ops": [["opb", fill_ops[(opi + j) % len(fill_ops)]] for j in range(L)],
               "first-byte-kept": [["pushn", L - 1, f]]}[shape]
        if shape == "first-byte-kept" and L - 1 <= 75:
            # the interior starts with the byte a push of L-1 bytes starts with, but as the first byte of pushed data
            mid = [["push", (bytes([L - 1]) + bytes([f or 1]) * (a - 1)).hex()], ["pushn", L - 2 - a, f + 1]] if L - 2 - a >= 2 else mid
        return {"net": net, "elements": [["opb", b] for b in head] + mid + [["opb", b] for b in tail], "frame": frame, "shape": shape}
    return st.builds(mk, st.sampled_from(sorted(NETS)), st.sampled_from(sorted(_FRAMES)),
                     st.sampled_from(["exact", "push+op", "op+push", "push+push", "push+op+op", "op+push+op", "ops", "first-byte-kept"]),
                     st.integers(0, 60), st.integers(0, 254), st.integers(0, 9))


def nt_text(case, labels):
    return any(l.startswith("el=push:PUSHDATA") or l == "el=push:OP_n/1NEGATE" for l in labels)


def o_single_opcode(case):
    """one byte as a whole script, and every reference opcode name for that byte"""
    b = case["byte"]
    script = bytes([b])
    text = ST.disassemble(script)          # must not raise for any byte
    names = sorted(n for n, v in R.OPCODE_NAMES.items() if v == b)
    labels = []
    if b in R.KNOWN_NONPUSH_BYTES:
        try:
            back = ST.compile(text)
        except (SyntaxError, ValueError, KeyError) as ex:
            _bad("text:disassembly-does-not-compile", "compile(%r) raised %r (disassembly of opcode %#x)" % (text, ex, b))
        if back != script:
            _bad("text:roundtrip", "compile(disassemble(%#x)) = %s via %r" % (b, back.hex(), text))
        labels.append("known")
    elif 1 <= b <= R.OP_PUSHDATA4:
        labels.append("push-opcode-alone")
    else:
        labels.append("unassigned")
    for name in names:
        try:
            comp = ST.compile(name)
        except (SyntaxError, ValueError, KeyError) as ex:
            _bad("text:opcode-name-unknown", "compile(%r) raised %r; script.h names opcode %#x so" % (name, ex, b))
        if comp != script:
            _bad("text:opcode-name-wrong-byte", "compile(%r) = %s, script.h says %#x" % (name, comp.hex(), b))
        if ST.int_for_opcode(name) != b:
            _bad("text:opcode-name-wrong-byte", "int_for_opcode(%r) = %r, script.h says %#x" % (name, ST.int_for_opcode(name), b))
    if len(names) > 1:
        labels.append("aliased")
    return labels


def cases_single_opcode(tier):
    for b in range(256):
        yield {"byte": b}


def with_fresh_tools(oracle):
    """the same oracle on a ScriptTools object built here from the public factory (what an integration for another coin
    does), not on the one created when the library was imported: two objects from one factory encode alike"""
    def f(case):
        global ST, STREAMER
        from pycoin.coins.bitcoin.ScriptStreamer import make_script_streamer
        from pycoin.satoshi import opcodes as _opcodes
        from pycoin.satoshi.IntStreamer import IntStreamer as _IntStreamer
        from pycoin.vm.ScriptTools import ScriptTools as _ScriptTools
        old = (ST, STREAMER)
        ST = _ScriptTools(_opcodes.OPCODE_LIST, _IntStreamer, make_script_streamer())
        STREAMER = ST.scriptStreamer
        try:
            return list(oracle(case)) + ["tools-built-from-the-factory"]
        finally:
            ST, STREAMER = old
    return f


SUBCHECKS = [
    SubCheck("ints_small_exhaustive", o_int, cases=cases_int_small, exhaustive=True, nontrivial=nt_int,
             rule="every integer |v| < 2^17: int_to_script_bytes == CScriptNum::serialize, strict and lenient decode return v; "
                  "non-trivial = within 1 of +-2^(8k-1) or +-2^(8k)"),
    SubCheck("ints_power_boundaries", o_int, cases=cases_int_boundaries, exhaustive=True, nontrivial=nt_int,
             rule="+-(2^b + d) for every b in 1..127, d in -2..2 (covers every byte-length boundary to 2^127)"),
    SubCheck("ints_generated", o_int, strategy=s_int, budget=(6000, 600000), nontrivial=nt_int,
             rule="uniform magnitudes below 2^71, per byte length 1..9, and within 300 of 2^(8k-1) / 2^(8k); both signs"),
    SubCheck("numbytes_exhaustive", o_numbytes, cases=cases_numbytes_small, exhaustive=True, nontrivial=nt_numbytes,
             rule="every byte string of length <= 2 as a candidate number: strict decode accepts iff Core's fRequireMinimal test "
                  "passes, lenient value == CScriptNum value, minimal strings are exactly the encoder's output; non-trivial = "
                  "top byte 0x00/0x80"),
    SubCheck("numbytes_generated", o_numbytes, strategy=s_numbytes, budget=(6000, 400000), nontrivial=nt_numbytes,
             rule="byte strings of length 0..9 with the last two bytes drawn from {00,7f,80,ff,...}; same oracle"),
    SubCheck("pushes_lengths", o_push, cases=cases_push_lengths, exhaustive=True, nontrivial=nt_push,
             rule="data of every length 0..600 (3 contents) and 65534..65537, 70000, 2^20, 2^21+1, 2^22+5, 2^24+1; every single byte value (also at pc=3): "
                  "compile_push_data == unique CheckMinimalPush-accepted encoding, get_opcode/get_opcodes read it back with and "
                  "without verify_minimal_data; every explicit push form (direct/PUSHDATA1/2/4) reads back and its MINIMALDATA "
                  "verdict equals CheckMinimalPush; non-trivial = length in {0,1,75,76,255,256,65535,65536}"),
    SubCheck("pushes_small_data_exhaustive", o_push, cases=cases_push_small_data, exhaustive=True, nontrivial=lambda c, l: True,
             rule="all 65536 two-byte data strings and all 3- and 4-byte strings over {00,01,02,03,0f,10,11,80,81,82}: shortest encoding, read-back, and the MINIMALDATA verdict of every push form equals CheckMinimalPush"),
    SubCheck("pushes_generated", o_push, strategy=s_push, budget=(1500, 60000), nontrivial=nt_push,
             rule="generated data (0..700 bytes, 1-3 byte specials) preceded by 0..4 OP_NOPs; same oracle"),
    SubCheck("push_prefixes_lengths", o_push_prefixes, cases=cases_push_lengths, exhaustive=True,
             rule="same data set: every strict prefix (all of them up to 90 bytes, ~25 sampled cut points above) of the minimal "
                  "encoding and of every explicit push form must be reported malformed by get_opcode and get_opcodes; all "
                  "deviations of a case are raised together so a listed finding cannot hide another one"),
    SubCheck("push_prefixes_generated", o_push_prefixes, strategy=s_push, budget=(1500, 60000),
             rule="generated data as in pushes_generated; same prefix oracle"),
    SubCheck("push_prefixes_python_O", subproc.optimized_variant("checks.c12_scriptenc", "o_push_prefixes"), strategy=s_push, budget=(300, 10000),
             rule="the push_prefixes_generated cases evaluated in a child interpreter started with PYTHONOPTIMIZE=1 (python -O: assert statements are "
                  "compiled away, so validation written as an assert vanishes; the child asserts that mode)"),
    SubCheck("truncated_small", o_truncated, cases=cases_truncated_small, exhaustive=True, nontrivial=nt_truncated,
             rule="PUSHDATA1/2/4 with 0..w length bytes present, declared sizes {1,2,76,255,256,65535}, 0/1/size-1 data bytes, "
                  "after 0-2 other instructions; direct pushes 1..75 with 0/1/n-1 bytes: must be reported malformed; "
                  "non-trivial = cut in or right after the length field"),
    SubCheck("truncated_generated", o_truncated, strategy=s_truncated, budget=(4000, 300000), nontrivial=nt_truncated,
             rule="generated (push opcode, declared size up to 2^32-1, length-field bytes present, data bytes present < declared)"),
    SubCheck("text_roundtrip", o_text, strategy=s_text, budget=(5000, 120000), nontrivial=nt_text,
             rule="scripts of 0..12 instructions drawn from the 110 single-byte opcodes of script.h and minimal pushes (lengths "
                  "0..80, 255, 256, 520, 65535, 65536, OP_n specials): compile(disassemble(s)) == s on BTC/LTC/BCH/XTN; "
                  "non-trivial = contains a PUSHDATA or OP_n-form push"),
    SubCheck("pushes_fresh_tools", with_fresh_tools(o_push), strategy=s_push, budget=(400, 15000), nontrivial=nt_push,
             rule="the pushes_generated oracle on a ScriptTools object built per case from the public factory "
                  "(make_script_streamer + ScriptTools), as a second coin's integration would build one"),
    SubCheck("text_near_templates", o_text, strategy=s_near_templates, budget=(2000, 60000),
             nontrivial=lambda c, l: c.get("shape") != "exact",
             rule="scripts with the fixed bytes and the exact length of a standard output script (p2pkh, p2sh, p2wpkh, p2wsh, p2tr, p2pk, "
                  "null data, 1-of-1 / 1-of-2 multisig) whose interior is another well-formed instruction sequence of the same size (shorter "
                  "push + opcode, two pushes, opcodes only, a push whose data starts with the template's length byte): same oracle as "
                  "text_roundtrip (one token per instruction, compile(disassemble(s)) == s); non-trivial = not the template itself"),
    SubCheck("opcode_names", o_single_opcode, cases=cases_single_opcode, exhaustive=True, max_shards=4,
             nontrivial=lambda c, l: "known" in l,
             rule="all 256 one-byte scripts disassemble without error; known non-push opcodes recompile to themselves; every "
                  "script.h name (incl. OP_NOP2/OP_NOP3 aliases, excl. OP_FALSE/OP_TRUE) compiles to its byte"),
]

# thorough tier: coverage-guided campaigns (runs per worker, 4 workers each)
FUZZ = {"numbytes_generated": 40000, "truncated_generated": 40000, "text_roundtrip": 30000}
