"""C08 - Addresses and output scripts are in one-to-one correspondence on every network."""
import hashlib

from hypothesis import strategies as st

from gen import common
from gen.nets import (CODES, NETS, PFX, GRS, KINDS, NET_KIND, HRPS, ALL_B58_PREFIXES, PREFIX_BYTES, defines,
                      b58_usable, quiet, mk_hash, hash_parts)
from oracles import refenc, refaddr
from vlib.core import SubCheck, Violation

from gen import subproc

PROPERTY = "C08"
ASSUMPTIONS = [
    "oracles/refenc.py Base58Check / Bech32 / Bech32m and oracles/refaddr.py byte-level script templates, hash160, "
    "WIF/BIP32 layout (calibrated on Bitcoin-wiki, BIP173, BIP350, BIP49, BIP84, BIP32 vectors)",
    "oracles/refec.py secp256k1 arithmetic for key -> public key",
    "the version bytes / HRPs themselves are read from the network objects: a constant that is wrong but used "
    "consistently inside one symbol file has no offline ground truth and cannot be detected",
]
CONFIGURATIONS = ["%d registered networks: %s" % (len(CODES), " ".join(CODES)),
                  "Bech32 paths of GRS/TGRS/GRSRT via parse.p2pkh_segwit/p2sh_segwit/p2tr"]
UNEXPLORED = ["Base58 (groestl checksum) address paths of GRS, TGRS, GRSRT: groestlcoin_hash C module not installed",
              "parse.address on GRS, TGRS, GRSRT (the symbol files replace it by a parser returning None when the C "
              "module is missing); the kind-specific segwit parsers are used instead",
              "libsecp256k1 backend"]

LEN_BUCKET = "p2pkh-p2sh:payload-length-not-checked"
SHARED_VERSION_BYTE = "cross:version-byte-shared-by-p2pkh-and-foreign-p2sh"


def _bad(b, m):
    raise Violation(b, m)


def parse_addr(code, s):
    p = NETS[code].parse
    if code in GRS:
        with quiet():
            return p.p2pkh_segwit(s) or p.p2sh_segwit(s) or p.p2tr(s)
    return p.address(s)


def _builders(n):
    return {"p2pkh": (n.contract.for_p2pkh, n.address.for_p2pkh, n.parse.p2pkh),
            "p2sh": (n.contract.for_p2sh, n.address.for_p2sh, n.parse.p2sh),
            "p2wpkh": (n.contract.for_p2pkh_wit, n.address.for_p2pkh_wit, n.parse.p2pkh_segwit),
            "p2wsh": (n.contract.for_p2sh_wit, n.address.for_p2sh_wit, n.parse.p2sh_segwit),
            "p2tr": (n.contract.for_p2tr, n.address.for_p2tr, n.parse.p2tr)}


INFO_KIND = {"p2pkh": "p2pkh", "p2sh": "p2sh", "p2pkh_wit": "p2wpkh", "p2sh_wit": "p2wsh", "p2tr": "p2tr"}


# ------------------------------------------------------------------ (a) script <-> address per network and kind


def o_encode(case):
    code, kind, h = case["net"], case["kind"], bytes.fromhex(case["h"])
    n = NETS[code]
    pf = PFX[code]
    script = refaddr.script_for(kind, h)
    exp = refaddr.address_for(kind, h, pf)
    mk_script, mk_addr, leaf = _builders(n)[kind]
    if n.address._address_prefix != pf["address"] or n.address._pay_to_script_prefix != pf["p2sh"] or \
            n.address._bech32_hrp != pf["hrp"]:
        _bad("network:address-and-parse-prefixes-differ", "%s: AddressAPI and ParseAPI hold different prefixes" % code)
    built = mk_script(h)
    if built != script:
        _bad("contract:builder!=template", "%s contract builder for %s(%s) = %s, template %s" % (
            code, kind, case["h"], built.hex(), script.hex()))
    got = n.address.for_script(script)
    if got != exp:
        _bad("address:encode!=ref", "%s address.for_script(%s) = %r, reference %r" % (code, script.hex(), got, exp))
    if mk_addr(h) != exp:
        _bad("address:encode!=ref", "%s address builder for %s(%s) = %r, reference %r" % (code, kind, case["h"], mk_addr(h), exp))
    c = parse_addr(code, exp)
    if c is None:
        _bad("address:own-address-refused", "%s parse.address(%r) is None (%s %s)" % (code, exp, kind, case["h"]))
    back = c.script()
    if back != script:
        _bad("address:roundtrip-script", "%s parse.address(%r).script() = %s, expected %s" % (code, exp, back.hex(), script.hex()))
    if c.address() != exp:
        _bad("address:roundtrip-text", "%s parse.address(%r).address() = %r" % (code, exp, c.address()))
    c2 = leaf(exp)
    if c2 is None or c2.script() != script:
        _bad("address:leaf-parser-disagrees", "%s parse.%s(%r) -> %r" % (code, leaf.__name__, exp, c2))
    if code not in GRS:
        fa = n.contract.for_address(exp)
        if fa != script:
            _bad("address:roundtrip-script", "%s contract.for_address(%r) = %r" % (code, exp, fa))
    info = n.contract.info_for_script(script)
    if INFO_KIND.get(info.get("type")) != kind:
        _bad("classify:template-not-recognised", "%s info_for_script(%s) = %r" % (code, script.hex(), info.get("type")))
    return ["kind=" + kind, "net=" + code]


_SHAPED = {}
_B58 = "123456789ABCDEFGHJKLMNPQRSTUVWXYZabcdefghijkmnopqrstuvwxyz"


def shaped_hash(version, style, seed):
    """a 20-byte hash whose Base58Check address under `version` is written in a single letter case and contains exactly
    one '1' (it looks like a Bech32 string), or None when the version's leading characters rule that out.  The leading
    digits are chosen freely from the style's alphabet, the low two bytes of the hash are searched so that the remaining
    digits and the checksum digits fit."""
    key = (bytes(version), style, seed % 8)
    if key in _SHAPED:
        return _SHAPED[key]
    letters = "abcdefghijkmnopqrstuvwxyz" if style == "lower" else "ABCDEFGHJKLMNPQRSTUVWXYZ"
    allowed = "23456789" + letters
    probe = refenc.b58check_encode(bytes(version) + b"\x80" * 20)
    L = len(probe)
    found = None

    def ok(a):
        ls = [ch for ch in a if ch.isalpha()]
        return ls and all(ch in letters for ch in ls) and a.count("1") == 1
    # the first character(s) follow from the version: addresses of this version can only have the shape if those fit
    lead = {refenc.b58check_encode(bytes(version) + bytes([b]) * 20)[0] for b in (0, 0x40, 0x80, 0xc0, 0xff)}
    if any(ch.isalpha() and ch not in letters for ch in lead) or len(lead) > 1:
        _SHAPED[key] = None
        return None
    for attempt in range(6):
        head = probe[:2 if len(version) > 1 else 1]
        body = "".join(allowed[(seed * 131 + attempt * 31 + j * 17 + (j * j) % 7) % len(allowed)] for j in range(L - len(head) - 9))
        if "1" not in head:
            body = body[:3] + "1" + body[4:]
        tmpl = head + body + "2" * 9
        raw = refenc.b58decode(tmpl)
        if raw is None or len(raw) != len(version) + 24 or raw[:len(version)] != bytes(version):
            continue
        h0 = raw[len(version):len(version) + 20]
        for ctr in range(65536):
            h = h0[:18] + ctr.to_bytes(2, "big")
            if ok(refenc.b58check_encode(bytes(version) + h)):
                found = h
                break
        if found:
            break
    _SHAPED[key] = found
    return found


def s_encode():
    plain = st.builds(lambda nk, hp: {"net": nk[0], "kind": nk[1], "h": mk_hash(refaddr.HASHLEN[nk[1]], *hp).hex()},
                      st.sampled_from(NET_KIND), hash_parts())

    def shaped(nk, style, seed, fb):
        code, kind = nk
        ver = PFX[code]["address" if kind == "p2pkh" else "p2sh"]
        h = shaped_hash(ver, style, seed) if ver is not None and code not in GRS else None
        return {"net": code, "kind": kind, "h": h.hex()} if h is not None else fb
    b58_kinds = [nk for nk in NET_KIND if nk[1] in ("p2pkh", "p2sh")]
    main = [nk for nk in b58_kinds if nk[0] in ("BTC", "XTN", "LTC", "DOGE", "DASH", "BCH")]
    looks_like_bech32 = st.builds(shaped, st.one_of(st.sampled_from(main), st.sampled_from(b58_kinds)), st.sampled_from(["lower", "upper"]),
                                  st.integers(0, 7), plain)
    # hashes whose address has a run of one digit at an aligned group of positions (ten '1's ten from the end, ...)
    def with_run(nk, run, fb):
        code, kind = nk
        ver = PFX[code]["address" if kind == "p2pkh" else "p2sh"]
        data = common.b58_digit_run_data(ver, 20, b"", *run) if ver is not None and code not in GRS else None
        return {"net": code, "kind": kind, "h": data[len(ver):].hex()} if data is not None else fb
    runs = st.tuples(st.sampled_from([10, 10, 10, 8, 9, 11, 12, 4, 5, 16]), st.integers(0, 2), st.sampled_from([0, 0, 0, 57, 1, 33]),
                     st.integers(0, 10**6))
    digit_runs = st.builds(with_run, st.one_of(st.sampled_from(main), st.sampled_from(b58_kinds)), runs, plain)
    from gen.common import weighted
    return weighted((15, plain), (1, looks_like_bech32), (1, digit_runs))


BOUNDARY_FILL = [0x00, 0xff, 0x11, 0x99, 0x10, 0x01]


def cases_encode_boundary(tier):
    for code, kind in NET_KIND:
        n = refaddr.HASHLEN[kind]
        for b in BOUNDARY_FILL:
            yield {"net": code, "kind": kind, "h": (bytes([b]) * n).hex()}
        yield {"net": code, "kind": kind, "h": (b"\0" * (n - 1) + b"\1").hex()}
        yield {"net": code, "kind": kind, "h": (b"\1" + b"\0" * (n - 1)).hex()}
        yield {"net": code, "kind": kind, "h": hashlib.sha256((code + kind).encode()).digest()[:n].hex()}


# ------------------------------------------------------------------ (a) key -> address


def o_key_address(case):
    code, secret = case["net"], case["secret"]
    n = NETS[code]
    pf = PFX[code]
    pt = refaddr.pubkey(secret)
    labels = ["net=" + code]
    hs = {}
    for comp in (True, False):
        hs[comp] = refaddr.hash160(refaddr.sec(pt, comp))
    if defines(code, "p2pkh"):
        for comp in (True, False):
            exp = refaddr.address_for("p2pkh", hs[comp], pf)
            k = n.keys.private(secret, is_compressed=comp)
            pub = n.keys.public(refaddr.sec(pt, comp))
            pub2 = n.keys.public((pt[0], pt[1]), is_compressed=comp)
            for name, key in (("private", k), ("public-from-sec", pub), ("public-from-pair", pub2)):
                got = key.address()
                if got != exp:
                    _bad("key:address!=script-address", "%s %s key (secret %d, compressed=%s).address() = %r, p2pkh address of its hash160 %r" % (
                        code, name, secret, comp, got, exp))
                other = key.address(is_compressed=not comp)
                exp_o = refaddr.address_for("p2pkh", hs[not comp], pf)
                if other != exp_o:
                    _bad("key:address!=script-address", "%s %s key (secret %d, compressed=%s).address(is_compressed=%s) = %r, expected %r" % (
                        code, name, secret, comp, not comp, other, exp_o))
                if key.hash160() != hs[comp]:
                    _bad("key:hash160", "%s hash160 of key %d" % (code, secret))
                # the public copy of a key that has already been asked for its addresses: both forms again
                pc = key.public_copy()
                for c2 in (True, False):
                    e2 = refaddr.address_for("p2pkh", hs[c2], pf)
                    g2 = pc.address(is_compressed=c2)
                    if g2 != e2 or pc.hash160(is_compressed=c2) != hs[c2]:
                        _bad("key:address!=script-address", "%s public_copy() of the %s key (secret %d, compressed=%s): address(is_compressed=%s) "
                             "= %r, p2pkh address of that form's hash160 %r" % (code, name, secret, comp, c2, g2, e2))
            c = parse_addr(code, exp)
            if c is None or c.script() != refaddr.p2pkh_script(hs[comp]):
                _bad("address:roundtrip-script", "%s key address %r does not parse to the p2pkh script of the key hash" % (code, exp))
        labels.append("p2pkh")
    body = refaddr.bip32_body(case["depth"], bytes.fromhex(case["fp"]), case["index"], bytes.fromhex(case["chain"]),
                              secret=secret if case["private"] else None, pub=pt)
    blob = b"\0\0\0\0" + body
    hc = hs[True]
    if defines(code, "p2pkh"):
        node = n.keys.bip32_deserialize(blob)
        exp = refaddr.address_for("p2pkh", hc, pf)
        if node.address() != exp:
            _bad("key:bip32-address", "%s BIP32 node address %r expected %r" % (code, node.address(), exp))
    node49 = n.keys.bip49_deserialize(blob)
    if b58_usable(code):
        exp49 = refaddr.address_for("p2sh", refaddr.hash160(refaddr.witness_script(0, hc)), pf)
        got49 = node49.address()
        if got49 != exp49:
            _bad("key:bip49-address", "%s BIP49 node address %r, expected p2sh(p2wpkh(key)) %r" % (code, got49, exp49))
        # the is_compressed argument every key's address() takes: the address pays to the hash of THAT form of the key
        for comp in (True, False):
            e = refaddr.address_for("p2sh", refaddr.hash160(refaddr.witness_script(0, hs[comp])), pf)
            g = node49.address(is_compressed=comp)
            if g != e:
                _bad("key:bip49-address", "%s BIP49 node address(is_compressed=%s) = %r, expected p2sh(p2wpkh(hash160 of that form)) %r" % (code, comp, g, e))
        if exp49 is not None:
            labels.append("bip49")
            c = parse_addr(code, exp49)
            if c is None or c.script() != refaddr.p2sh_script(refaddr.hash160(refaddr.witness_script(0, hc))):
                _bad("address:roundtrip-script", "%s BIP49 address %r does not parse to its script" % (code, exp49))
    node84 = n.keys.bip84_deserialize(blob)
    exp84 = refaddr.address_for("p2wpkh", hc, pf)
    got84 = node84.address()
    if got84 != exp84:
        _bad("key:bip84-address", "%s BIP84 node address %r, expected p2wpkh(key) %r" % (code, got84, exp84))
    for comp in (True, False):
        e = refaddr.address_for("p2wpkh", hs[comp], pf)
        g = node84.address(is_compressed=comp)
        if g != e:
            _bad("key:bip84-address", "%s BIP84 node address(is_compressed=%s) = %r, expected p2wpkh(hash160 of that form) %r" % (code, comp, g, e))
    if defines(code, "p2pkh"):
        for comp in (True, False):
            e = refaddr.address_for("p2pkh", hs[comp], pf)
            g = n.keys.bip32_deserialize(blob).address(is_compressed=comp)
            if g != e:
                _bad("key:bip32-address", "%s BIP32 node address(is_compressed=%s) = %r, expected %r" % (code, comp, g, e))
    if exp84 is not None:
        labels.append("bip84")
        c = parse_addr(code, exp84)
        if c is None or c.script() != refaddr.witness_script(0, hc):
            _bad("address:roundtrip-script", "%s BIP84 address %r does not parse to its script" % (code, exp84))
    labels.append("private-node" if case["private"] else "public-node")
    return labels


def s_key_address():
    return st.fixed_dictionaries({
        "net": st.sampled_from(CODES), "secret": common.scalars(), "private": st.booleans(),
        "depth": st.sampled_from([0, 1, 5, 255]), "fp": common.hexbytes(4, 4),
        "index": st.sampled_from([0, 1, 0x7fffffff, 0x80000000, 0xffffffff]), "chain": common.hexbytes(32, 32)})


# ------------------------------------------------------------------ (b) cross acceptance


def _load_collisions():
    import json
    import os
    p = os.path.join(os.path.dirname(os.path.dirname(os.path.abspath(__file__))), "known_findings", "data", "C08_version_byte_collisions.json")
    with open(p) as f:
        return frozenset(tuple(t) for t in json.load(f)["triples"])


KNOWN_COLLISIONS = _load_collisions()


def _cross_diag(a, b, kind, h, s, c):
    """name the reason network b accepted network a's string s with a different meaning"""
    if kind in ("p2pkh", "p2sh"):
        data = refenc.b58check_decode(s)
        exact = []
        for k2 in ("p2pkh", "p2sh"):
            p2 = PFX[b]["address" if k2 == "p2pkh" else "p2sh"]
            if p2 is not None and data.startswith(p2):
                if len(data) - len(p2) != 20:
                    return LEN_BUCKET
                exact.append(k2)
        if exact and kind not in exact:
            # the listed finding covers exactly the collisions that exist between the registered networks today;
            # any other pair is a new collision and gets its own bucket
            if (a, b, kind) in KNOWN_COLLISIONS:
                return SHARED_VERSION_BYTE
            return "cross:new-version-byte-collision:%s-%s-%s" % (a, b, kind)
    return "cross:foreign-address-accepted"


def o_cross(case):
    a, b, kind, h = case["a"], case["b"], case["kind"], bytes.fromhex(case["h"])
    script = refaddr.script_for(kind, h)
    s = refaddr.address_for(kind, h, PFX[a])
    c = parse_addr(b, s)
    lab = ["kind=" + kind, "same-net" if a == b else "other-net"]
    if a != b and a not in GRS and b not in GRS:
        # one text object shared by the two networks (what ku does when it tries an item on every network): each
        # network's answer for it is its own answer for the plain string, whichever network looked first
        for first, second in ((a, b), (b, a)):
            shared = NETS[first].parseable_str_type(s)
            for code in (first, second):
                want = NETS[code].parse.address(s)
                want = None if want is None else want.script()
                try:
                    got = NETS[code].contract.for_address(shared)
                except ValueError:
                    got = None
                if got != want:
                    _bad("address:shared-text:answer-depends-on-other-network", "%s.contract.for_address(<text object first shown to %s> %r) = %s, "
                         "for the plain string %s" % (code, first, s, None if got is None else got.hex(), None if want is None else want.hex()))
        lab.append("shared-text-object")
    if c is None:
        if a == b:
            _bad("address:own-address-refused", "%s refuses its own %s address %r" % (a, kind, s))
        return lab + ["rejected"]
    own_ref = refaddr.address_for(kind, h, PFX[b]) if defines(b, kind) else None
    own = NETS[b].address.for_script(script) if (b58_usable(b) or kind not in ("p2pkh", "p2sh")) else own_ref
    got = c.script()
    if got != script or own != s or own_ref != s:
        _bad(_cross_diag(a, b, kind, h, s, c),
             "%s accepts %s's %s address %r (hash %s) as script %s; %s's own address for the original script is %r" % (
                 b, a, kind, s, case["h"], got.hex(), b, own))
    return lab + ["accepted-identical"]


FIXED_HASHES = [b"\0" * 32, b"\xff" * 32] + [hashlib.sha256(b"c08-cross-%d" % i).digest() for i in range(3)]


def cases_cross(tier):
    hs = FIXED_HASHES if tier == "quick" else FIXED_HASHES + [hashlib.sha256(b"c08-cross-%d" % i).digest() for i in range(3, 23)]
    for kind in KINDS:
        n = refaddr.HASHLEN[kind]
        for a in CODES:
            if not defines(a, kind):
                continue
            for b in CODES:
                for h in hs:
                    yield {"a": a, "b": b, "kind": kind, "h": h[:n].hex()}


def s_cross():
    return st.builds(lambda nk, b, hp: {"a": nk[0], "b": b, "kind": nk[1], "h": mk_hash(refaddr.HASHLEN[nk[1]], *hp).hex()},
                     st.sampled_from(NET_KIND), st.sampled_from(CODES), hash_parts())


# ------------------------------------------------------------------ (c) acceptance implies well-formedness


def o_accept_b58(case):
    code = case["net"]
    data = bytes.fromhex(case["prefix"]) + bytes.fromhex(case["payload"])
    s = refenc.b58check_encode(data)
    pf = PFX[code]
    cands = []       # (kind, payload) for each of the network's address prefixes that the data starts with
    for kind, key in (("p2pkh", "address"), ("p2sh", "p2sh")):
        if pf[key] is not None and data.startswith(pf[key]):
            cands.append((kind, data[len(pf[key]):]))
    good = [refaddr.script_for(k, p) for k, p in cands if len(p) == 20]
    c = parse_addr(code, s)
    lab = ["len=%s" % (len(case["payload"]) // 2 if len(case["payload"]) // 2 in (0, 19, 20, 21) else "other"),
           "prefix-matches" if cands else "prefix-foreign"]
    if c is None:
        if good:
            _bad("address:valid-refused", "%s parse.address(%r) is None; data %s" % (code, s, data.hex()))
        return lab + ["rejected"]
    if not cands:
        _bad("address:accepted-without-prefix", "%s accepts %r (data %s) although it starts with none of its prefixes" % (code, s, data.hex()))
    if not good:
        _bad(LEN_BUCKET, "%s parse.address(%r) accepted: payload %s has %d bytes, not 20; info %r, address() %r" % (
            code, s, cands[0][1].hex(), len(cands[0][1]), c.info().get("type"), c.address()))
    sc = c.script()
    if sc not in good:
        _bad("address:wrong-script", "%s parse.address(%r).script() = %s, expected one of %s" % (code, s, sc.hex(), [g.hex() for g in good]))
    again = c.address()
    c2 = parse_addr(code, again) if isinstance(again, str) else None
    if c2 is None or c2.script() != sc:
        _bad("address:reencoding-differs", "%s %r -> script %s -> %r which parses to %r" % (code, s, sc.hex(), again, c2))
    if again != s:
        _bad("address:reencoding-differs", "%s %r re-encodes as %r" % (code, s, again))
    # texts that contain a character outside the alphabet but would carry the same number under a forgiving digit lookup
    n_alias = 0
    for how, alias in b58_aliases(s):
        n_alias += 1
        if parse_addr(code, alias) is not None:
            _bad("address:non-alphabet-alias-accepted", "%s parse.address(%r) accepted (%s of the valid address %r); it contains a character that "
                 "is not a Base58 digit" % (code, alias, how, s))
    return lab + ["accepted"] + (["aliases-refused"] if n_alias else [])


_B58 = "123456789ABCDEFGHJKLMNPQRSTUVWXYZabcdefghijkmnopqrstuvwxyz"


def b58_aliases(s, cap=3):
    """[(description, text)]: `s` with a non-alphabet character planted such that a careless digit lookup (not found = -1,
    not found = 0, look-alike folding) reads the same number"""
    out = []
    lead = len(s) - len(s.lstrip("1"))
    # digit pair X z == (X+1) <digit -1>
    k = 0
    for i in range(lead, len(s) - 1):
        if s[i + 1] == "z" and s[i] != "z" and k < cap:
            for bad in ("0", "O", "l", " "):
                out.append(("digit pair %r rewritten as next digit + %r (value -1)" % (s[i:i + 2], bad), s[:i] + _B58[_B58.index(s[i]) + 1] + bad + s[i + 2:]))
            k += 1
    # a digit written as the character whose CODE equals the digit's value (' ' .. '0' are codes 32..48)
    k = 0
    for i in range(lead, len(s)):
        v = _B58.index(s[i])
        if 32 <= v <= 48 and k < cap:
            out.append(("digit %r at %d written as the character with code %d" % (s[i], i, v), s[:i] + chr(v) + s[i + 1:]))
            k += 1
    # a zero digit replaced by a character that is not a digit at all (value 0)
    k = 0
    for i in range(lead, len(s)):
        if s[i] == "1" and k < cap:
            for bad in ("0", "I", "l", "_"):
                out.append(("zero digit at %d replaced by %r" % (i, bad), s[:i] + bad + s[i + 1:]))
            k += 1
    if lead:
        out.append(("leading zero digit replaced by 'l'", "l" + s[1:]))
        out.append(("leading zero digit replaced by 'I'", "I" + s[1:]))
    # look-alikes
    for a, bads in (("o", "0O"), ("L", "l"), ("i", "I"), ("1", "Il")):
        i = s.find(a, lead)
        if i >= 0:
            for bad in bads:
                out.append(("%r at %d replaced by the look-alike %r" % (a, i, bad), s[:i] + bad + s[i + 1:]))
    return out


_PLEN = [19, 20, 20, 20, 21, 0, 1, 32, 33]


def mk_accept_b58(code, pmode, psel, lmode, lsel, hp, rnd):
    """pure shaping: which prefix (own address/p2sh, any own prefix, any network's, truncated, random) and which payload"""
    pf = PFX[code]
    addr = [v for v in (pf["address"], pf["p2sh"]) if v is not None]
    own = sorted({v for v in pf.values() if isinstance(v, bytes)})
    pmode %= 8
    if pmode <= 2:
        prefix = addr[psel % len(addr)]
    elif pmode == 3:
        prefix = own[psel % len(own)]
    elif pmode in (4, 5):
        prefix = ALL_B58_PREFIXES[psel % len(ALL_B58_PREFIXES)]
    elif pmode == 6:
        prefix = addr[psel % len(addr)][:1]
    else:
        prefix = rnd[:1 + psel % 2]
    n = _PLEN[lsel % len(_PLEN)] if lmode % 3 else lsel % 41
    return {"net": code, "prefix": prefix.hex(), "payload": mk_hash(max(n, 1), *hp)[:n].hex()}


def s_accept_b58():
    usable = [c for c in CODES if b58_usable(c)]
    return st.builds(mk_accept_b58, st.sampled_from(usable), st.integers(0, 7), st.integers(0, 255), st.integers(0, 2),
                     st.integers(0, 255), hash_parts(), st.binary(min_size=2, max_size=2))


GOOD_WIT = {(0, 20, "b32"), (0, 32, "b32"), (1, 32, "b32m")}


def o_accept_bech32(case):
    code, hrp, ver, prog, const = case["net"], case["hrp"], case["ver"], bytes.fromhex(case["prog"]), case["const"]
    data5 = [ver] + refenc.to5(prog)
    form = case.get("form")          # non-canonical data parts: correctly checksummed, but not what an encoder emits
    if form == "surplus-zero-group":
        data5 = data5 + [0]
    elif form == "nonzero-padding" and (len(prog) * 8) % 5:
        data5[-1] |= 1
    elif form == "two-surplus-groups":
        data5 = data5 + [0, 0]
    s = refenc.bech32_encode_raw(hrp, data5, refenc.BECH32_CONST if const == "b32" else refenc.BECH32M_CONST)
    if case["upper"]:
        s = s.upper()
    if form == "mixed-case":
        idx = [i for i, ch in enumerate(s) if ch.isalpha()]
        if len(idx) >= 2:
            i = idx[len(prog) % len(idx)]
            s = s[:i] + s[i].swapcase() + s[i + 1:]
    own = PFX[code]["hrp"]
    # what the string really denotes is decided by the reference BIP173/BIP350 decoder (a surplus group can turn a
    # 19-byte program into a perfectly valid 20-byte one): well-formed = decodes under the network's own HRP to a
    # (version, length) the library supports
    dec = refenc.segwit_decode(own, s) if own is not None else None
    if dec is not None:
        ver, prog = dec
        const = "b32" if ver == 0 else "b32m"
    wf = dec is not None and (ver, len(prog), const) in GOOD_WIT
    c = parse_addr(code, s)
    lab = ["form=" + str(form), "ver=%s" % (ver if ver < 2 else "2-16" if ver <= 16 else "17+"), "const=" + const,
           "hrp-own" if hrp == own else "hrp-foreign", "len=%s" % (len(prog) if len(prog) in (20, 32) else "other")]
    if c is None:
        if wf and not case["upper"]:
            _bad("address:valid-refused", "%s parse.address(%r) is None (v%d, %d bytes, %s)" % (code, s, ver, len(prog), const))
        return lab + ["rejected"]
    if not wf:
        _bad("segwit:ill-formed-accepted", "%s accepts %r: hrp %r (own %r), version %d, %d-byte program, checksum %s" % (
            code, s, hrp, own, ver, len(prog), const))
    sc = c.script()
    if sc != refaddr.witness_script(ver, prog):
        _bad("address:wrong-script", "%s parse.address(%r).script() = %s" % (code, s, sc.hex()))
    again = c.address()
    c2 = parse_addr(code, again) if isinstance(again, str) else None
    if c2 is None or c2.script() != sc or again != s.lower():
        _bad("address:reencoding-differs", "%s %r re-encodes as %r -> %r" % (code, s, again, c2))
    return lab + ["accepted"]


def o_shared_text(case):
    """one parseable_str object (the type pycoin's own command-line tools wrap their argument in, so that decodings are
    cached) handed to several networks in turn: every network must give it the verdict it gives the same text as a fresh
    str - what an earlier network made of it must not leak"""
    a = case["net"]
    kind = case["kind"]
    pf = PFX[a]
    h = bytes.fromhex(case["h"])
    if kind in ("p2wpkh", "p2wsh", "p2tr"):
        if not pf["hrp"]:
            return ["skip-no-hrp"]
        ver, prog = {"p2wpkh": (0, h[:20]), "p2wsh": (0, h), "p2tr": (1, h)}[kind]
        text = refenc.segwit_encode(pf["hrp"], ver, prog)
    else:
        pre = pf.get("address" if kind == "p2pkh" else "p2sh")
        if pre is None or a in GRS:
            return ["skip-no-prefix"]
        text = refenc.b58check_encode(pre + h[:20])
    shared = NETS[a].parseable_str_type(text)
    order = [a] + [CODES[i % len(CODES)] for i in case["others"]]
    if case["first_own"] is False:
        order = order[1:] + [a]
    labels = ["kind=" + kind]
    for code in order:
        if code in GRS:
            continue
        got = NETS[code].parse.address(shared)
        want = NETS[code].parse.address(str(text))
        g = None if got is None else got.script()
        w = None if want is None else want.script()
        if g != w:
            _bad("address:verdict-depends-on-earlier-parses", "%r wrapped once in parseable_str and parsed by %s in turn: %s.parse.address gives %s, "
                 "on a fresh str it gives %s" % (text, order, code, None if g is None else g.hex(), None if w is None else w.hex()))
        if g is not None and code != a:
            labels.append("accepted-by-another-network")
    return labels


def s_shared_text():
    # the neighbours include the networks that share Base58 prefixes with others (BTC/BCH, the 6f/c4 test networks)
    near = [i for i, c in enumerate(CODES) if c in ("BTC", "BCH", "XTN", "XRT", "XCH", "XTG", "TBTX", "LTC", "XLT", "BTG")]
    others = st.lists(st.one_of(st.sampled_from(near), st.integers(0, len(CODES) - 1)), min_size=1, max_size=5)
    return st.fixed_dictionaries({"net": st.one_of(st.sampled_from(["BTC", "XTN", "XRT", "BCH", "LTC"]), st.sampled_from(CODES)),
                                  "kind": st.sampled_from(["p2pkh", "p2sh", "p2wpkh", "p2wsh", "p2tr", "p2wpkh"]),
                                  "h": st.binary(min_size=32, max_size=32).map(bytes.hex), "others": others,
                                  "first_own": st.sampled_from([True, True, False])})


def s_accept_bech32():
    with_hrp = [c for c in CODES if PFX[c]["hrp"]]
    without = [c for c in CODES if not PFX[c]["hrp"]]

    def mk(code, foreign, use_foreign, ver, n, body, const, good, upper):
        hrp = PFX[code]["hrp"]
        if use_foreign or hrp is None:
            hrp = foreign
        if good is not None:
            ver, n, const = good
        return {"net": code, "hrp": hrp, "ver": ver, "prog": (body * 3)[:n].hex(), "const": const, "upper": upper}

    def with_form(d, form):
        return dict(d, form=form) if form else d
    return st.builds(with_form, st.builds(mk, st.one_of(st.sampled_from(with_hrp), st.sampled_from(with_hrp), st.sampled_from(without)),
                     st.one_of(st.sampled_from(HRPS), st.sampled_from(["b", "bc1", "x", "tbb", "lt"])),
                     st.sampled_from([False, False, False, True]),
                     st.one_of(st.integers(0, 16), st.integers(0, 17), st.sampled_from([0, 1])),
                     st.one_of(st.integers(2, 40), st.sampled_from([20, 32, 20, 32, 0, 1, 19, 21, 31, 33, 40, 41])),
                     st.binary(min_size=14, max_size=14), st.sampled_from(["b32", "b32m"]),
                     st.one_of(st.none(), st.none(), st.none(), st.sampled_from(sorted(GOOD_WIT))),
                     st.sampled_from([False, False, False, True])),
                     st.sampled_from([None, None, None, "surplus-zero-group", "nonzero-padding", "two-surplus-groups", "mixed-case"]))


def cases_accept_bech32_grid(tier):
    """every network with an HRP x version 0-16 x length 2-40 x both checksum constants"""
    for code in CODES:
        hrp = PFX[code]["hrp"]
        if hrp is None:
            continue
        for ver in range(17):
            for n in range(2, 41):
                for const in ("b32", "b32m"):
                    yield {"net": code, "hrp": hrp, "ver": ver, "prog": hashlib.sha256(b"%d/%d" % (ver, n)).digest()[:n].hex() if n <= 32
                           else (hashlib.sha256(b"%d/%d" % (ver, n)).digest() * 2)[:n].hex(), "const": const, "upper": False}


def cases_accept_b58_grid(tier):
    """every usable network x (address, p2sh) prefix x payload length 0-40"""
    for code in CODES:
        if not b58_usable(code):
            continue
        for key in ("address", "p2sh"):
            p = PFX[code][key]
            if p is None:
                continue
            for n in range(41):
                yield {"net": code, "prefix": p.hex(), "payload": (hashlib.sha256(b"%s/%d" % (key.encode(), n)).digest() * 2)[:n].hex()}


# ------------------------------------------------------------------ (d) classification faithfulness

FIVE = {"p2pkh", "p2sh", "p2pkh_wit", "p2sh_wit", "p2tr"}


def _norm(script):
    """sequence of ('push', data) / ('op', opcode) ignoring how each push is encoded; None if malformed"""
    ps = refaddr.parse_script(script)
    if ps is None:
        return None
    return [("push", d) if d is not None else ("op", op) for op, d, _m in ps]


def o_classify(case):
    code, s = case["net"], bytes.fromhex(case["script"])
    n = NETS[code]
    info = n.contract.info_for_script(s)
    t = info.get("type")
    lab = ["shape=" + case.get("shape", "?"), "type=%s" % t]
    if t == "unknown":
        if info.get("script") != s:
            _bad("classify:unknown-loses-script", "info_for_script(%s) = unknown with script %r" % (case["script"], info.get("script")))
        if refaddr.strict_kind(s) is not None:
            _bad("classify:template-not-recognised", "exact %s template %s reported as unknown" % (refaddr.strict_kind(s)[0], case["script"]))
        return lab
    rebuilt = n.contract.for_info(info)
    if rebuilt != s:
        a, b = _norm(s), _norm(rebuilt)
        if a is not None and a == b:
            bucket = "classify:multisig-ignores-push-encoding" if t == "multisig" else "classify:match-ignores-push-encoding"
        elif t == "multisig" and len(info.get("sec_keys", ())) > 16:
            bucket = "classify:multisig-count-beyond-op16"
        else:
            bucket = "classify:rebuild-differs:%s" % t
        _bad(bucket, "info_for_script(%s) reports %s but for_info(info) = %s" % (case["script"], t, rebuilt.hex()))
    if t in FIVE:
        sk = refaddr.strict_kind(s)
        param = info.get("hash160") or info.get("hash256") or info.get("synthetic_key")
        if sk is None or sk[0] != INFO_KIND[t] or sk[1] != param:
            _bad("classify:reported-kind-not-template", "script %s reported as %s (parameter %s) is not the %s template" % (
                case["script"], t, param.hex() if param else None, INFO_KIND[t]))
        kind = sk[0]
        if defines(code, kind):
            addr = n.address.for_script(s)
            exp = refaddr.address_for(kind, sk[1], PFX[code])
            if addr != exp:
                _bad("address:encode!=ref", "%s address.for_script(%s) = %r, reference %r" % (code, case["script"], addr, exp))
            c = parse_addr(code, addr)
            if c is None or c.script() != s:
                _bad("address:roundtrip-script", "%s address %r of %s parses to %r" % (code, addr, case["script"], c))
            lab.append("address-roundtrip")
    return lab + ["standard"]


PUSH_FORMS = ["min", "min", "min", "pd1", "pd2", "pd4"]


def _push(d, form):
    if form == "min" or (form == "direct" and not 1 <= len(d) <= 75):
        return refaddr.push(d)
    if form == "pd1" and len(d) > 255:
        form = "pd2"
    return refaddr.push(d, form)


def s_scripts():
    blob = st.binary(min_size=130, max_size=130)
    hlen = st.sampled_from([20, 20, 20, 32, 32, 19, 21, 31, 33, 0, 1, 2, 40, 75, 76])
    form = st.sampled_from(PUSH_FORMS)
    tail = st.one_of(st.just(b""), st.just(b""), st.just(b""), st.just(b""), st.just(b""), st.sampled_from([b"\xac", b"\x61", b"\x00", b"\x87", b"\x75", b"\x51", b"\x01\x01", b"\x4c"]),
                     st.binary(min_size=1, max_size=3))
    head = st.one_of(st.just(b""), st.just(b""), st.just(b""), st.just(b""), st.just(b""), st.just(b""), st.just(b""), st.sampled_from([b"\x61", b"\x00", b"\x76", b"\x51"]))

    def tmpl(name, pre, post, good):
        ln = st.one_of(st.sampled_from(good), hlen)
        return st.builds(lambda hd, n, f, b, tl: {"shape": name, "script": (hd + pre + _push(b[:n], f) + post + tl).hex()},
                         head, ln, form, blob, tail)
    # the version as its opcode, or as some other push of the same (or a nearby) value: 4c00 / 4d0000 push the empty
    # string like OP_0 does, 0101 / 4c0101 push the byte 01 like OP_1 does
    alt_version = st.sampled_from([b"\x4c\x00", b"\x4d\x00\x00", b"\x4e\x00\x00\x00\x00", b"\x01\x01", b"\x4c\x01\x01",
                                   b"\x4d\x01\x00\x01", b"\x01\x00", b"\x01\x02", b"\x01\x10", b"\x01\x81", b"\x02\x01\x00"])
    witness = st.builds(lambda v, n, f, b, tl: {"shape": "witness", "script": ((bytes([v]) if isinstance(v, int) else v) + _push(b[:n], f) + tl).hex()},
                        st.one_of(st.sampled_from([0x00, 0x51]), st.sampled_from([0x00, 0x4f, 0x50] + list(range(0x51, 0x62))), alt_version),
                        st.one_of(hlen, st.integers(2, 40)), form, blob, tail)
    keylen = st.sampled_from([33, 33, 33, 65, 65, 32, 34, 64, 66, 76, 120, 121])

    def mk_multisig(m_op, nkeys, n_mode, n_delta, klens, kforms, b, tl, junk):
        keys = [(bytes([i + 2]) + b)[:klens[i % len(klens)]] for i in range(nkeys)]
        forms = {i: kforms[i % len(kforms)] for i in range(nkeys)}
        if n_mode == "opn":            # the byte 0x50 + count, an OP_n only while count <= 16
            n_enc = bytes([(0x50 + nkeys + n_delta) & 0xff])
        elif n_mode == "pushnum":      # count pushed as a script number
            cnt = max(0, nkeys + n_delta)
            n_enc = refaddr.push(bytes([cnt]), "direct") if cnt else b"\x00"
        else:
            n_enc = junk[:1]
        body = bytes([m_op])
        for i, k in enumerate(keys):
            body += _push(k, forms[i])
        return {"shape": "multisig", "script": (body + n_enc + b"\xae" + tl).hex()}
    multisig = st.builds(mk_multisig,
                         st.one_of(st.integers(0x51, 0x60), st.integers(0x51, 0x54), st.sampled_from([0x00, 0x4f, 0x50, 0x61, 0x62, 0x01])),
                         st.one_of(st.integers(1, 4), st.integers(0, 20), st.integers(15, 20)),
                         st.sampled_from(["opn", "opn", "opn", "opn", "pushnum", "junk"]),
                         st.sampled_from([0, 0, 0, 0, 1, -1]),
                         st.lists(keylen, min_size=1, max_size=3), st.lists(st.sampled_from(["min", "min", "min", "min", "pd1", "pd2"]), min_size=1, max_size=3),
                         blob, tail, st.binary(min_size=1, max_size=1))
    nulldata = st.builds(lambda b, n: {"shape": "nulldata", "script": (b"\x6a" + b[:n]).hex()}, blob, st.integers(0, 90))
    elem = st.one_of(st.integers(0, 255).map(lambda o: bytes([o])),
                     st.builds(lambda n, f, b: _push(b[:n], f), st.one_of(st.integers(0, 80), hlen), st.sampled_from(PUSH_FORMS + ["direct"]), blob),
                     st.sampled_from([b"\x76", b"\xa9", b"\x88", b"\xac", b"\x87", b"\xae", b"\x51", b"\x52", b"\x00", b"\x6a"]))
    grammar = st.lists(elem, max_size=8).map(lambda l: {"shape": "grammar", "script": b"".join(l).hex()})
    raw = st.binary(max_size=40).map(lambda b: {"shape": "raw", "script": b.hex()})
    trunc = st.builds(lambda d, cut: {"shape": "truncated", "script": bytes.fromhex(d["script"])[:max(0, len(d["script"]) // 2 - cut)].hex()},
                      st.one_of(tmpl("p2pkh", b"\x76\xa9", b"\x88\xac", [20]), multisig), st.integers(1, 30))
    # a bare length byte where a push should be: the byte b in 76..130 followed by exactly b bytes and the template's tail looks
    # like "<b-byte push>" to code that reads lengths by hand, but 76..78 are OP_PUSHDATA1/2/4 and 79.. are ordinary opcodes
    def fake_push(pre, post, b, blobv):
        return {"shape": "bare-length-byte", "script": (pre + bytes([b]) + (blobv * 3)[:b] + post).hex()}
    fake = st.builds(fake_push, st.sampled_from([b"", b"", b"\x76\xa9", b"\xa9", b"\x00", b"\x51"]),
                     st.sampled_from([b"\xac", b"\xac", b"\x88\xac", b"\x87", b""]), st.integers(76, 130), blob)
    shapes = st.one_of(fake, tmpl("p2pkh", b"\x76\xa9", b"\x88\xac", [20]), tmpl("p2sh", b"\xa9", b"\x87", [20]),
                       tmpl("p2pk", b"", b"\xac", [33, 65]), tmpl("p2wpkh-p2wsh", b"\x00", b"", [20, 32]), tmpl("p2tr", b"\x51", b"", [32]),
                       witness, multisig, multisig, nulldata, grammar, raw, trunc)
    return st.builds(lambda code, d: dict(d, net=code), st.sampled_from(CODES), shapes)


def nt_classify(case, labels):
    return "standard" in labels


# ------------------------------------------------------------------ network constants

# version bytes / HRPs / extended-key versions as published by the projects themselves (Bitcoin Core chainparams, BIP32/49/84,
# BIP173, Litecoin / Dogecoin / Dash chainparams).  Everything else is pinned by the snapshot (detects changes only).
PUBLISHED = {
    "BTC": {"address": "00", "p2sh": "05", "wif": "80", "hrp": "bc", "bip32_prv": "0488ade4", "bip32_pub": "0488b21e",
            "bip49_prv": "049d7878", "bip49_pub": "049d7cb2", "bip84_prv": "04b2430c", "bip84_pub": "04b24746"},
    "XTN": {"address": "6f", "p2sh": "c4", "wif": "ef", "hrp": "tb", "bip32_prv": "04358394", "bip32_pub": "043587cf",
            "bip49_prv": "044a4e28", "bip49_pub": "044a5262", "bip84_prv": "045f18bc", "bip84_pub": "045f1cf6"},
    "LTC": {"address": "30", "p2sh": "32", "wif": "b0", "hrp": "ltc", "bip32_prv": "019d9cfe", "bip32_pub": "019da462"},
    "DOGE": {"address": "1e", "p2sh": "16", "wif": "9e", "bip32_prv": "02fac398", "bip32_pub": "02facafd"},
    "DASH": {"address": "4c", "p2sh": "10", "wif": "cc"},
    "BCH": {"address": "00", "p2sh": "05", "wif": "80"},
}


def _load_snapshot():
    import json
    import os
    p = os.path.join(os.path.dirname(os.path.dirname(os.path.abspath(__file__))), "oracles", "data", "netconstants_snapshot.json")
    with open(p) as f:
        return json.load(f)["networks"]


SNAPSHOT = _load_snapshot()


def _hexed(v):
    return v.hex() if isinstance(v, (bytes, bytearray)) else v


def cases_constants(tier):
    for code in sorted(set(CODES) | set(SNAPSHOT)):
        yield {"net": code}


def o_constants(case):
    code = case["net"]
    if code not in SNAPSHOT:
        _bad("network:not-in-snapshot", "network %s is registered but absent from oracles/data/netconstants_snapshot.json (regenerate the snapshot after reviewing its constants)" % code)
    if code not in PFX:
        _bad("network:disappeared", "network %s of the snapshot is no longer registered" % code)
    got = {k: _hexed(v) for k, v in PFX[code].items()}
    got["network_name"] = NETS[code].network_name
    labels = ["published" if code in PUBLISHED else "snapshot-only"]
    for field, want in sorted(PUBLISHED.get(code, {}).items()):
        if got.get(field) != want:
            _bad("network:constant!=published:%s:%s" % (code, field), "%s %s is %r, published value %r" % (code, field, got.get(field), want))
    for field, want in sorted(SNAPSHOT[code].items()):
        if got.get(field) != want:
            _bad("network:constant!=snapshot:%s:%s" % (code, field), "%s %s is %r, snapshot value %r" % (code, field, got.get(field), want))
    # the address API must use the same constants as the parse API: encode one hash per kind and decode it with the reference
    h = hashlib.sha256(code.encode()).digest()
    for kind in KINDS:
        if not defines(code, kind):
            continue
        want_addr = refaddr.address_for(kind, h[:refaddr.HASHLEN[kind]], PFX[code])
        got_addr = NETS[code].address.for_script(refaddr.script_for(kind, h[:refaddr.HASHLEN[kind]]))
        if got_addr != want_addr:
            _bad("network:address-api-uses-other-constants:%s:%s" % (code, kind), "%s address.for_script(%s) = %r, the parse API's constants give %r" % (code, kind, got_addr, want_addr))
    return labels


SUBCHECKS = [
    SubCheck("network_constants", o_constants, cases=cases_constants, exhaustive=True, nontrivial=lambda c, l: True,
             rule="every registered network: address / P2SH / WIF version bytes, Bech32 HRP, BIP32/49/84 version bytes, SEC text prefix and message name equal the committed snapshot, and for BTC, XTN, LTC, DOGE, DASH, BCH equal the values published by those projects; the address API encodes with the same constants the parse API reads"),
    SubCheck("encode_roundtrip", o_encode, strategy=s_encode, budget=(5000, 200000),
             rule="(network, kind with a defined prefix, hash): contract builder == byte template, address.for_script == reference "
                  "Base58Check/Bech32(m) of the network's prefix/HRP, parse.address(addr).script() == script, re-encoding identical; "
                  "hashes random / constant / leading zeros / decimal-looking hex / starting with other networks' prefix bytes"),
    SubCheck("encode_boundary_all_pairs", o_encode, cases=cases_encode_boundary, exhaustive=True,
             rule="every (network, kind) pair that has a prefix x 9 boundary hashes (enumerated)"),
    SubCheck("key_addresses", o_key_address, strategy=s_key_address, budget=(1600, 40000),
             rule="(network, secret, BIP32 fields): Key (private / from SEC / from pair, compressed and not) .address() == p2pkh address "
                  "of hash160(SEC) by the reference; BIP32 / BIP49 / BIP84 node addresses == p2pkh / p2sh(p2wpkh) / p2wpkh address "
                  "(None where the network lacks the prefix); each parses back to the script"),
    SubCheck("cross_matrix", o_cross, cases=cases_cross, exhaustive=True,
             nontrivial=lambda c, l: "accepted-identical" in l or c["a"] != c["b"],
             rule="all ordered pairs (A, B) of the 51 networks x every kind A defines x 5 fixed hashes (25 in the thorough tier): if B accepts A's address then "
                  "B's own address for that script is the same string and the parsed script is that script"),
    SubCheck("cross_generated", o_cross, strategy=s_cross, budget=(6000, 200000),
             nontrivial=lambda c, l: c["a"] != c["b"],
             rule="random ordered pairs and kinds with generated hashes, including hashes whose leading bytes continue another network's multi-byte prefix"),
    SubCheck("accept_b58_grid", o_accept_b58, cases=cases_accept_b58_grid, exhaustive=True,
             rule="every network x its address and p2sh prefix x payload length 0..40 (valid checksum): accepted => 20-byte payload, script "
                  "is the template of that payload, re-encoding parses to the same script; 20-byte payloads must be accepted"),
    SubCheck("accept_b58_generated", o_accept_b58, strategy=s_accept_b58, budget=(6000, 200000),
             nontrivial=lambda c, l: "prefix-matches" in l,
             rule="checksummed strings with the network's own prefixes (address, p2sh, wif, bip32..), other networks' prefixes, truncated "
                  "and random prefixes, payload length 0..40 weighted to 19/20/21"),
    SubCheck("accept_b58_python_O", subproc.optimized_variant("checks.c08_addresses", "o_accept_b58"), strategy=s_accept_b58, budget=(600, 20000),
             rule="the accept_b58_generated cases evaluated in a child interpreter started with PYTHONOPTIMIZE=1 (python -O: assert statements are "
                  "compiled away, so validation written as an assert vanishes; the child asserts that mode)"),
    SubCheck("accept_bech32_grid", o_accept_bech32, cases=cases_accept_bech32_grid, exhaustive=True,
             rule="every network with an HRP x witness version 0..16 x program length 2..40 x Bech32 and Bech32m checksum: accepted => "
                  "(v0,20|32,Bech32) or (v1,32,Bech32m), script OP_n push, re-encoding identical; those three forms must be accepted"),
    SubCheck("shared_text_across_networks", o_shared_text, strategy=s_shared_text, budget=(1500, 60000),
             nontrivial=lambda c, l: "accepted-by-another-network" in l or True,
             rule="a valid address of one network (all five kinds) wrapped once in pycoin's caching parseable_str type and parsed by that network "
                  "and 1-5 others in turn (weighted to the networks that share Base58 prefixes): each verdict and script equals the one the "
                  "same network gives the text as a fresh str"),
    SubCheck("accept_bech32_generated", o_accept_bech32, strategy=s_accept_bech32, budget=(6000, 150000),
             nontrivial=lambda c, l: "hrp-own" in l or "accepted" in l,
             rule="own / foreign / near-miss HRPs, versions 0..17, lengths 0..41, both constants, upper case; on networks with and without an HRP"),
    SubCheck("accept_bech32_python_O", subproc.optimized_variant("checks.c08_addresses", "o_accept_bech32"), strategy=s_accept_bech32, budget=(600, 20000),
             rule="the accept_bech32_generated cases evaluated in a child interpreter started with PYTHONOPTIMIZE=1 (python -O: assert statements are "
                  "compiled away, so validation written as an assert vanishes; the child asserts that mode)"),
    SubCheck("classify_near_templates", o_classify, strategy=s_scripts, budget=(12000, 400000), nontrivial=nt_classify,
             rule="templates with hash length 0..76, every push encoding (direct, PUSHDATA1/2/4), leading / trailing opcodes, witness-like "
                  "OP_n pushes, multisig with m/n opcodes inside and outside OP_1..OP_16, 0..20 keys of 32..121 bytes, counts as OP_n / pushed "
                  "numbers / other opcodes, nulldata, random opcode/push sequences, truncations, raw bytes: a non-unknown report must rebuild "
                  "to the same bytes, one of the five address kinds must be the exact byte template and its address must parse back; "
                  "non-trivial = a standard kind was reported"),
]
