"""C11 - Base58, Base58Check and Bech32/Bech32m codecs are exact and detect corruption."""
import contextlib
import io
import itertools

from hypothesis import strategies as st

from gen.common import weighted

from oracles import refenc
from vlib.core import SubCheck, Violation

from pycoin.encoding.b58 import (a2b_base58, b2a_base58, a2b_hashed_base58, b2a_hashed_base58,
                                 is_hashed_base58_valid)
from pycoin.encoding.exceptions import EncodingError
from pycoin.contrib import bech32m
from pycoin.networks import parseable_str as ps

from gen import subproc

try:
    import groestlcoin_hash  # noqa: F401
    _GROESTL_PRESENT = True
except ImportError:
    _GROESTL_PRESENT = False

PROPERTY = "C11"
ASSUMPTIONS = ["oracles/refenc.py (Base58/Base58Check/Bech32/Bech32m written from the BIPs, calibrated on BIP173/BIP350 "
               "valid+invalid vectors and the Base58Check wiki example)", "hashlib SHA256"]
B58 = refenc.B58


def _bad(b, m):
    raise Violation(b, m)


# ------------------------------------------------------------------ base58


def _data_of(case):
    if "zeros" in case:
        return b"\0" * case["zeros"] + bytes.fromhex(case.get("data", ""))
    if "lead0chk" in case:
        # a payload, found by a short search over a counter suffix, whose four checksum bytes begin with 1-2 zero bytes
        seed, want = case["lead0chk"]
        base = bytes.fromhex(case.get("data", ""))
        for ctr in range(200000):
            d = base + ctr.to_bytes(3, "big")
            if refenc.sha256d(d)[:want] == b"\0" * want:
                return d
        return base
    return bytes.fromhex(case["data"])


def o_b58_bytes(case):
    data = _data_of(case)
    case = dict(case, data=data.hex() if len(data) <= 64 else data[:24].hex() + "..(%d bytes)" % len(data))
    enc = b2a_base58(data)
    ref = refenc.b58encode(data)
    if enc != ref:
        _bad("b58:encode!=ref", "b2a_base58(%s)=%r ref %r" % (case["data"], enc, ref))
    dec = a2b_base58(enc)
    if dec != data:
        _bad("b58:roundtrip", "a2b(b2a(%s)) = %s" % (case["data"], dec.hex()))
    h = b2a_hashed_base58(data)
    if h != refenc.b58check_encode(data):
        _bad("b58check:encode!=ref", "b2a_hashed_base58(%s)=%r" % (case["data"], h))
    if a2b_hashed_base58(h) != data or not is_hashed_base58_valid(h):
        _bad("b58check:roundtrip", "hashed round trip of %s" % case["data"])
    if ps.parse_b58_double_sha256(h) != (data if len(data) + 4 else None):
        _bad("b58check:parseable_str", "parse_b58_double_sha256 disagrees on %r" % h)
    # one shared text object (what ku and the network parsers pass around) decoded under the two checksum functions the
    # library knows, in both orders: each decoder answers for its own checksum whatever the other one did before
    from pycoin.coins.groestlcoin.parse import parse_b58_groestl
    for order in ("other-first", "sha-first"):
        shared = ps.parseable_str(h)
        with contextlib.redirect_stdout(io.StringIO()):
            if order == "other-first":
                parse_b58_groestl(shared)
            sha = ps.parse_b58_double_sha256(shared)
            other = parse_b58_groestl(shared)
        if sha != data:
            _bad("b58check:shared-text:double-sha256-answer-depends-on-earlier-decoders", "parse_b58_double_sha256(%r) on a shared parseable_str = %r "
                 "(%s), expected %s" % (h, sha, order, data.hex()))
        if other is not None and not _GROESTL_PRESENT:
            _bad("b58check:shared-text:other-checksum-accepted-without-checking", "parse_b58_groestl(%r) on a shared parseable_str = %r (%s) although "
                 "the groestl checksum cannot even be computed here" % (h, other, order))
    nz = len(data) - len(data.lstrip(b"\0"))
    return ["lead0=%d" % min(nz, 3), "len=%s" % ("0" if not data else "1-2" if len(data) < 3 else "3+")]


def o_b58_string(case):
    s = case["s"]
    ref = refenc.b58decode(s)
    try:
        got = a2b_base58(s)
    except EncodingError:
        got = None
    if got != ref:
        _bad("b58:decode!=ref", "a2b_base58(%r)=%r ref %r" % (s, got, ref))
    if ref is None:
        if ps.parse_b58(s) is not None:
            _bad("b58:parseable_str", "parse_b58(%r) not None" % s)
        return ["invalid-char"]
    back = b2a_base58(got)
    if back != s:
        _bad("b58:string-roundtrip", "b2a(a2b(%r)) = %r" % (s, back))
    if ps.parse_b58(s) != got:
        _bad("b58:parseable_str", "parse_b58(%r)" % s)
    # the same string offered to the Base58Check decoder: accepted only if its last four decoded bytes are the
    # checksum of what precedes them (a string decoding to fewer than four bytes carries no checksum at all)
    refc = refenc.b58check_decode(s)
    try:
        gotc = a2b_hashed_base58(s)
    except EncodingError:
        gotc = None
    validc = is_hashed_base58_valid(s)
    if gotc != refc or validc != (refc is not None):
        _bad("b58check:short-or-unchecked-accepted" if refc is None else "b58check:valid-refused",
             "string %r (decodes to %d bytes): a2b_hashed_base58 -> %r, is_hashed_base58_valid=%r, reference %r" % (s, len(got), gotc, validc, refc))
    return ["valid", "lead1=%d" % min(3, len(s) - len(s.lstrip("1"))), "decoded-bytes=%s" % (len(got) if len(got) < 4 else "4+")]


def cases_b58_bytes(tier):
    yield {"data": ""}
    for n in (1, 2):
        for t in itertools.product(range(256), repeat=n):
            yield {"data": bytes(t).hex()}


def cases_b58_strings(tier):
    for n in (0, 1, 2, 3):
        for t in itertools.product(B58, repeat=n):
            yield {"s": "".join(t)}
    # strings that decode to fewer than four bytes which happen to be a prefix of a checksum (of the empty payload, or of
    # the bytes before them), and the shortest well-formed Base58Check strings around them
    import hashlib
    for payload in (b"", b"\0", b"\x01", b"\xff", b"\0\0"):
        full = payload + hashlib.sha256(hashlib.sha256(payload).digest()).digest()[:4]
        for cut in range(len(full) + 1):
            yield {"s": refenc.b58encode(full[:cut])}
            yield {"s": refenc.b58encode(full[len(payload):len(payload) + cut])}


def s_b58_bytes():
    return st.builds(lambda z, body: {"data": (b"\0" * z + body).hex()},
                     st.one_of(st.just(0), st.integers(0, 12)), st.binary(max_size=108))


def s_b58_strings():
    alpha = st.sampled_from(B58)
    good = st.builds(lambda z, body: "1" * z + "".join(body), st.integers(0, 6), st.lists(alpha, max_size=60))
    outside = st.one_of(st.sampled_from(list("0OIl+/= \n\t_-")), st.characters())

    def inject(s, pos, ch):
        pos = pos % (len(s) + 1)
        return s[:pos] + ch + s[pos:]
    bad = st.builds(inject, good, st.integers(0, 100), outside)
    return st.one_of(good, bad).map(lambda s: {"s": s})


def s_b58_runs():
    """strings built from runs: segments of one repeated symbol (weighted to '1' = digit zero and 'z' = digit 57, run
    lengths 1-24 so that aligned blocks of 8 / 16 equal digits occur) interleaved with random symbols"""
    sym = st.sampled_from("1111zz2" + B58)
    run = st.builds(lambda c, n: c * n, sym, st.sampled_from([1, 2, 7, 8, 9, 15, 16, 17, 24, 3, 5]))
    rnd = st.lists(st.sampled_from(B58), max_size=9).map("".join)
    return st.lists(st.one_of(run, run, rnd), min_size=1, max_size=7).map(lambda segs: {"s": "".join(segs)})


def cases_b58_checksum_relations(tier):
    """the four checksum bytes are a second field that travels with the payload: all-zero payloads of every length (their
    checksum starts with 00 at 193, 1337, 1880, 2472 ... zero bytes) and payloads searched to have a checksum with one or
    two leading zero bytes, with and without leading zero bytes of their own"""
    for n in range(0, 2600 if tier == "quick" else 12000):
        yield {"zeros": n}
    for seed in range(24):
        for lead in (0, 1, 3):
            yield {"lead0chk": [seed, 1], "data": "00" * lead + "%02x" % (seed + 1) * (1 + seed % 7)}
    for seed in range(3 if tier == "quick" else 12):
        yield {"lead0chk": [seed, 2], "data": "%02x" % (0x30 + seed)}
        yield {"lead0chk": [seed, 2], "data": "0000%02x" % (0x30 + seed)}


def cases_b58_powers(tier):
    """values m * 58^k + d for small m, d: base-58 digit strings with long interior zero runs, and their byte forms"""
    for k in range(0, 41):
        for m in (1, 2, 57, 58, 59):
            for d in (0, 1, 57, 58):
                v = m * 58 ** k + d
                yield {"data": v.to_bytes(max(1, (v.bit_length() + 7) // 8), "big").hex()}


# ------------------------------------------------------------------ base58check corruption


def o_b58check_corrupt(case):
    payload = bytes.fromhex(case["payload"])
    if case["mode"] == "checksum":
        # wrong 4-byte checksum attached to the payload
        chk = bytearray(refenc.sha256d(payload)[:4])
        for pos, delta in case["edits"]:
            chk[pos % 4] ^= (delta % 255) + 1
        s = refenc.b58encode(payload + bytes(chk))
    else:
        s = list(refenc.b58check_encode(payload))
        for pos, delta in case["edits"]:
            if not s:
                break
            i = pos % len(s)
            s[i] = B58[(B58.index(s[i]) + 1 + delta % 57) % 58] if s[i] in B58 else s[i]
        s = "".join(s)
    ref = refenc.b58check_decode(s)        # exact expected verdict: checksum recomputed over the corrupted payload
    try:
        got = a2b_hashed_base58(s)
    except EncodingError:
        got = None
    valid = is_hashed_base58_valid(s)
    if got != ref or valid != (ref is not None):
        _bad("b58check:corruption-accepted" if ref is None else "b58check:valid-refused",
             "string %r: a2b_hashed_base58 -> %r, is_valid=%r, reference %r" % (s, got, valid, ref))
    cached = ps.parse_b58_double_sha256(s)
    if cached != (ref if s else None):
        _bad("b58check:parseable_str", "parse_b58_double_sha256(%r)=%r ref %r" % (s, cached, ref))
    return ["mode=" + case["mode"], "rejected" if ref is None else "still-valid", "nedits=%d" % len(case["edits"])]


def s_b58check_corrupt():
    edits = st.lists(st.tuples(st.integers(0, 200), st.integers(0, 1000)), min_size=1, max_size=4)
    return st.fixed_dictionaries({
        "payload": st.builds(lambda z, b: (b"\0" * z + b).hex(), st.integers(0, 3), st.binary(max_size=80)),
        "mode": st.sampled_from(["checksum", "chars"]),
        "edits": edits.map(lambda l: [list(t) for t in l]),
    })


# ------------------------------------------------------------------ bech32

HRP_CHARS = "".join(chr(c) for c in range(33, 127) if not ("A" <= chr(c) <= "Z"))
NET_HRPS = ["bc", "tb", "bcrt", "ltc", "tltc", "grs", "tgrs", "btg", "vtc", "mona", "dgb", "sys", "via", "fc"]


def hrps():
    return st.one_of(st.sampled_from(NET_HRPS), st.sampled_from(["a1b", "ltc1test", "1", "11", "a1", "1a", "bc1", "b1c1d"]),
                     st.text(alphabet=HRP_CHARS, min_size=1, max_size=8),
                     st.text(alphabet=HRP_CHARS, min_size=1, max_size=83))


_DIGIT_SYMBOLS = [i for i, ch in enumerate(refenc.CHARSET) if ch.isdigit()]
_CASELESS_CACHE = {}


def caseless_triple(hsel, vsel, g, start):
    """a valid (hrp, version, program) whose whole address contains no letter at all: digit / punctuation hrp, a version and
    program groups whose symbols are digits, and - found by search - a checksum made of digits too.  None if the bounded
    search finds none."""
    key = (hsel % 6, vsel % 4, g, start % 7)
    if key in _CASELESS_CACHE:
        return _CASELESS_CACHE[key]
    hrp = ["42", "2", "_", "2024", "+-", "7"][key[0]]
    ver = [5, 7, 10, 15][key[1]]
    nbytes = g * 5 // 8
    pad = g * 5 - nbytes * 8
    found = None
    if 2 <= nbytes <= 40 and pad < 5:
        for c in range(key[3] * 100003, key[3] * 100003 + 40000):
            groups, x = [], c
            for _ in range(g):
                groups.append(_DIGIT_SYMBOLS[x % 9])
                x //= 9
            if groups[-1] & ((1 << pad) - 1):
                continue
            prog = refenc.from5(groups)
            if prog is None or len(prog) != nbytes:
                continue
            addr = refenc.segwit_encode(hrp, ver, bytes(prog))
            if addr is not None and not any(ch.isalpha() for ch in addr):
                found = {"hrp": hrp, "ver": ver, "prog": bytes(prog).hex()}
                break
    _CASELESS_CACHE[key] = found
    return found


def triples():
    ver = st.one_of(st.integers(0, 16), st.integers(0, 17), st.just(0), st.just(1))
    ln = st.one_of(st.sampled_from([1, 2, 20, 32, 39, 40, 41]), st.integers(0, 42))
    plain = st.builds(lambda h, v, n, b: {"hrp": h, "ver": v, "prog": (b * 3)[:n].hex()},
                      hrps(), ver, ln, st.binary(min_size=14, max_size=14))
    # addresses without a single cased character (str.islower() / isupper() are both False for them)
    caseless = st.builds(lambda h, v, g, s, fb: caseless_triple(h, v, g, s) or fb, st.integers(0, 5), st.integers(0, 3),
                         st.sampled_from([4, 5, 8, 13, 16, 32]), st.integers(0, 6), plain)
    return weighted((24, plain), (1, caseless))


def _pyc_decode(hrp, s):
    v, prog = bech32m.decode(hrp, s)
    if v is None or prog is None:
        if not (v is None and prog is None):
            _bad("bech32:decode-shape", "decode(%r,%r) returned %r" % (hrp, s, (v, prog)))
        return None
    return v, bytes(prog)


def o_bech32_triple(case):
    hrp, ver, prog = case["hrp"], case["ver"], bytes.fromhex(case["prog"])
    ref = refenc.segwit_encode(hrp, ver, prog)
    got = bech32m.encode(hrp, ver, prog)
    if got != ref:
        _bad("bech32:encode!=ref" if ref is not None else "bech32:encode-accepts-invalid",
             "encode(%r,%d,%s) = %r, reference %r" % (hrp, ver, case["prog"], got, ref))
    if ref is None:
        return ["refused", "ver=%s" % ("0" if ver == 0 else "17+" if ver > 16 else "1-16")]
    dec = _pyc_decode(hrp, got)
    if dec != (ver, prog):
        _bad("bech32:roundtrip", "decode(encode(%r,%d,%s)) = %r" % (hrp, ver, case["prog"], dec))
    up = _pyc_decode(hrp, got.upper()) if got.upper() != got or True else None
    ref_up = refenc.segwit_decode(hrp, got.upper())
    if up != ref_up:
        _bad("bech32:uppercase", "decode of upper-case form %r -> %r, reference %r" % (got.upper(), up, ref_up))
    # decoding under a *related* human-readable part - the part before one of its '1's, a prefix, an extension, the other
    # case - must be refused: the separator is the LAST '1' of the string and the parts must be equal, not similar
    related = {hrp[:-1], hrp + "1", hrp + "1" + hrp, hrp + "x", hrp[1:], "", hrp.upper()}
    related |= {hrp[:i] for i, ch in enumerate(hrp) if ch == "1"}
    for h2 in sorted(related):
        if h2 == hrp:
            continue
        want2 = refenc.segwit_decode(h2, got)
        got2 = _pyc_decode(h2, got)
        if got2 != want2:
            _bad("bech32:decoded-under-a-related-hrp", "decode(%r, %r) = %r, reference %r (the address was encoded for hrp %r)" % (
                h2, got, got2, want2, hrp))
    t = ps.parse_bech32(got)
    h3, d3, spec3 = bech32m.bech32_decode(got)
    if t is None or t[0] != h3 or t[1] != ver or t[2] != prog or t[3] != spec3:
        _bad("bech32:parseable_str", "parse_bech32(%r) = %r" % (got, t))
    return ["encoded", "ver=%s" % ("0" if ver == 0 else "1-16"), "len%d" % len(prog) if len(prog) in (2, 20, 32, 40) else "len-other",
            "hrp-long" if len(hrp) > 8 else "hrp-short"]


def nt_triple(case, labels):
    return "encoded" in labels


def _valid_string(case):
    return refenc.segwit_encode(case["hrp"], case["ver"], bytes.fromhex(case["prog"]))


def valid_triples():
    ver = st.one_of(st.integers(0, 16), st.just(0), st.just(1))

    def mk(h, v, n, b):
        if v == 0:
            n = 20 if n % 2 else 32
        h = h[:max(1, 90 - 7 - 1 - (n * 8 + 4) // 5)]
        return {"hrp": h, "ver": v, "prog": (b * 3)[:n].hex()}
    return st.builds(mk, hrps(), ver, st.integers(2, 40), st.binary(min_size=14, max_size=14))


def o_bech32_corrupt(case):
    """up to four substituted character positions anywhere in a valid string"""
    hrp = case["hrp"]
    s = _valid_string(case)
    if s is None:
        return ["skip-invalid-triple"]
    chars = list(s)
    sep = s.rfind("1")
    touched = set()
    for where, pos, delta in case["edits"]:
        if where == "data":
            i = sep + 1 + pos % (len(s) - sep - 1)
            c = refenc.CHARSET[(refenc.CHARSET.index(s[i]) + 1 + delta % 31) % 32]
        else:
            i = pos % len(s)
            c = chr(33 + (ord(s[i]) - 33 + 1 + delta % 93) % 94)
        if i in touched:
            continue
        touched.add(i)
        chars[i] = c
    t = "".join(chars)
    if t.lower() == s.lower() and not (t.lower() != t and t.upper() != t):
        return ["skip-case-variant"]
    dec = bech32m.decode(hrp, t)
    if dec != (None, None):
        _bad("bech32:corruption-accepted", "decode(%r, %r) = %r; original %r, %d positions changed" % (hrp, t, dec, s, len(touched)))
    labels = ["npos=%d" % len(touched)]
    if all(e[0] == "data" for e in case["edits"]):
        raw = bech32m.bech32_decode(t)
        if raw != (None, None, None):
            _bad("bech32:corruption-accepted", "bech32_decode(%r) = %r; original %r" % (t, raw, s))
        if ps.parse_bech32(t) is not None:
            _bad("bech32:parseable_str", "parse_bech32(%r) not None" % t)
        labels.append("data-only")
    else:
        labels.append("anywhere")
    return labels


def s_bech32_corrupt():
    edit = st.tuples(st.sampled_from(["data", "data", "any"]), st.integers(0, 200), st.integers(0, 1000))
    return st.builds(lambda tr, e: dict(tr, edits=[list(x) for x in e]), valid_triples(),
                     st.lists(edit, min_size=1, max_size=4))


def o_bech32_all_single(case):
    """every single-character substitution in the data part of one valid string (exhaustive per string)"""
    hrp = case["hrp"]
    s = _valid_string(case)
    if s is None:
        return ["skip-invalid-triple"]
    sep = s.rfind("1")
    n = 0
    for i in range(sep + 1, len(s)):
        for c in refenc.CHARSET:
            if c == s[i]:
                continue
            t = s[:i] + c + s[i + 1:]
            n += 1
            if bech32m.decode(hrp, t) != (None, None) or bech32m.bech32_decode(t) != (None, None, None):
                _bad("bech32:corruption-accepted", "single substitution accepted: %r (original %r)" % (t, s))
    # pairs of adjacent positions in the last seven symbols (the checksum and the symbol before it): the first becomes any
    # other alphabet symbol, the second a character OUTSIDE the alphabet (the four letters Bech32 leaves out, a digit-like
    # '1', punctuation, or the same letter in the other case).  A string holding a foreign character is never valid,
    # whatever else changes with it.
    foreign = ["b", "i", "o", "1", "-", "_", " "]
    for i in range(max(sep + 1, len(s) - 7), len(s) - 1):
        for c in refenc.CHARSET:
            for f in foreign + [s[i + 1].upper() if s[i + 1].isalpha() else "B"]:
                t = s[:i] + c + f + s[i + 2:]
                n += 1
                if bech32m.decode(hrp, t) != (None, None) or bech32m.bech32_decode(t) != (None, None, None):
                    _bad("bech32:foreign-character-accepted", "%r accepted (original %r: symbol %d replaced by %r, symbol %d by the foreign %r)" % (
                        t, s, i - sep, c, i + 1 - sep, f))
    return ["strings", "substitutions=%d" % (n // 500 * 500)]


def o_bech32_invalid(case):
    """well-checksummed strings that BIP173/BIP350 still forbid"""
    hrp, kind = case["hrp"], case["kind"]
    prog = bytes.fromhex(case["prog"])
    ver = case["ver"]
    good_const = refenc.BECH32_CONST if ver == 0 else refenc.BECH32M_CONST
    data = [ver] + refenc.to5(prog)
    const = good_const
    if kind == "wrong-const":
        const = refenc.BECH32M_CONST if ver == 0 else refenc.BECH32_CONST
    elif kind == "pad-nonzero":
        if (len(prog) * 8) % 5 == 0:
            return ["skip-no-padding"]
        data[-1] |= 1
    elif kind == "pad-extra-group":
        data.append(0)
    elif kind == "mixed-case":
        pass
    elif kind in ("bad-length", "bad-version", "empty-data"):
        pass
    s = refenc.bech32_encode_raw(hrp, data if kind != "empty-data" else [], const)
    if kind == "mixed-case":
        idx = [i for i, ch in enumerate(s) if ch.isalpha()]
        if len(idx) < 2:
            return ["skip-no-letters"]
        i = idx[case["pos"] % len(idx)]
        s = s[:i] + s[i].upper() + s[i + 1:]
        if s.upper() == s:
            return ["skip-no-letters"]
    expect = refenc.segwit_decode(hrp, s)
    if expect is not None:
        return ["skip-actually-valid"]
    got = bech32m.decode(hrp, s)
    if got != (None, None):
        _bad("bech32:invalid-accepted:" + kind, "decode(%r,%r) = %r" % (hrp, s, got))
    return ["kind=" + kind]


def s_bech32_invalid():
    def mk(tr, kind, pos, badlen, badver, b):
        tr = dict(tr, kind=kind, pos=pos)
        if kind == "bad-length":
            if tr["ver"] == 0:
                n = badlen if badlen not in (20, 32) else badlen + 1
            else:
                n = [0, 1, 41, 42, 45][badlen % 5]
            tr["prog"] = (b * 4)[:n].hex()
        if kind == "bad-version":
            tr["ver"] = 17 + badver
        return tr
    kinds = st.sampled_from(["wrong-const", "pad-nonzero", "pad-extra-group", "mixed-case", "bad-length",
                             "bad-version", "empty-data"])
    short = valid_triples().map(lambda t: dict(t, hrp=t["hrp"][:10]))
    return st.builds(mk, short, kinds, st.integers(0, 100), st.integers(0, 44), st.integers(0, 14),
                     st.binary(min_size=14, max_size=14))


def o_bech32_arbitrary(case):
    """decode of arbitrary (mostly correctly checksummed) symbol strings agrees with the reference decoder"""
    hrp = case["hrp"]
    if case["const"] == "none":
        s = hrp + "1" + "".join(refenc.CHARSET[d] for d in case["data5"])
    else:
        s = refenc.bech32_encode_raw(hrp, case["data5"], {"b32": 1, "b32m": refenc.BECH32M_CONST, "other": 0x3fffffff}[case["const"]])
    if case["upper"]:
        s = s.upper()
    ref = refenc.segwit_decode(hrp, s)
    got = _pyc_decode(hrp, s)
    if got != ref:
        _bad("bech32:decode!=ref", "decode(%r, %r) = %r, reference %r" % (hrp, s, got, ref))
    return ["accept" if ref else "reject", "const=" + case["const"]]


def s_bech32_arbitrary():
    d5 = st.one_of(st.lists(st.integers(0, 31), max_size=70),
                   st.builds(lambda v, n, fill: [v] + [fill] * n, st.integers(0, 18), st.integers(0, 66), st.sampled_from([0, 0, 31, 5])))
    return st.fixed_dictionaries({"hrp": st.sampled_from(["bc", "tb", "a", "1x", "ltc"]), "data5": d5,
                                  "const": st.sampled_from(["b32", "b32m", "b32", "b32m", "other", "none"]),
                                  "upper": st.booleans()})


# characters whose case mappings land in (or expand to) ASCII: U+212A KELVIN -> 'k', U+0130 -> 'i' + U+0307, U+017F -> 'S',
# U+0131 dotless i -> 'I', fullwidth forms, plus arbitrary code points
_TRICKY = ["\u212a", "\u0130", "\u0131", "\u017f", "\u00df", "\uff51", "\uff11", "\u0261", "\u1e9e", "\u00b5", "\u03bc",
           "\u0000", "\u007f", "\u0080", " ", "\u00e9"]


def o_bech32_unicode(case):
    """a valid address (lower or upper case) with 1-4 positions replaced by non-ASCII / case-mapping characters"""
    hrp = case["hrp"]
    s = _valid_string(case)
    if s is None:
        return ["skip-invalid-triple"]
    if case["upper"]:
        s = s.upper()
    chars = list(s)
    sep = s.rfind("1")
    for pos, ch, where in case["edits"]:
        i = (sep + 1 + pos % (len(s) - sep - 1)) if where == "data" else pos % len(s)
        chars[i] = ch
    t = "".join(chars)
    if all(33 <= ord(c) <= 126 for c in t):
        return ["skip-ascii"]
    labels = ["upper" if case["upper"] else "lower"]
    if any(c in _TRICKY[:11] for c in t):
        labels.append("case-mapping-char")
    ref = refenc.segwit_decode(hrp, t)
    assert ref is None
    for h in (hrp, hrp.upper()):
        got = bech32m.decode(h, t)
        if got != (None, None):
            _bad("bech32:non-ascii-accepted", "decode(%r, %r) = %r (valid original %r)" % (h, t, got, s))
    raw = bech32m.bech32_decode(t)
    if raw != (None, None, None):
        _bad("bech32:non-ascii-accepted", "bech32_decode(%r) = %r (valid original %r)" % (t, raw, s))
    if ps.parse_bech32(t) is not None:
        _bad("bech32:non-ascii-accepted", "parse_bech32(%r) not None" % t)
    return labels


def s_bech32_unicode():
    ch = st.one_of(st.sampled_from(_TRICKY), st.sampled_from(_TRICKY[:6]), st.characters(min_codepoint=127))
    edit = st.tuples(st.integers(0, 200), ch, st.sampled_from(["data", "data", "any"])).map(list)
    return st.builds(lambda tr, up, e: dict(tr, upper=up, edits=e), valid_triples(), st.booleans(),
                     st.lists(edit, min_size=1, max_size=4))


# ------------------------------------------------------------------ call histories


def _ref_bech32_raw(s, max_length=90):
    """(hrp, data5 without checksum, "b32" | "b32m") or None: BIP173 / BIP350 string validation with a length limit"""
    if any(ord(c) < 33 or ord(c) > 126 for c in s) or (s.lower() != s and s.upper() != s):
        return None
    s = s.lower()
    pos = s.rfind("1")
    if pos < 1 or pos + 7 > len(s) or len(s) > max_length:
        return None
    if any(c not in refenc.CHARSET for c in s[pos + 1:]):
        return None
    data = [refenc.CHARSET.find(c) for c in s[pos + 1:]]
    const = refenc.polymod(refenc.hrp_expand(s[:pos]) + data)
    if const not in (refenc.BECH32_CONST, refenc.BECH32M_CONST):
        return None
    return s[:pos], data[:-6], "b32" if const == refenc.BECH32_CONST else "b32m"


def _hist_text(t):
    hrp = t["hrp"] * t.get("hrp_rep", 1)
    if t["const"] == "none":
        s = hrp + "1" + "".join(refenc.CHARSET[d] for d in t["data5"])
    else:
        s = refenc.bech32_encode_raw(hrp, t["data5"], {"b32": 1, "b32m": refenc.BECH32M_CONST, "other": 0x3fffffff}[t["const"]])
    return hrp, (s.upper() if t["upper"] else s)


def o_bech32_history(case):
    """every call answers as if it were the first one in the process: decoding with the optional max_length argument,
    the default decoder, the segwit decoder and the encoder, interleaved on a small pool of texts"""
    texts = [_hist_text(t) for t in case["texts"]]
    labels = set()
    for step, (op, k, arg) in enumerate(case["ops"]):
        hrp, s = texts[k % len(texts)]
        where = "step %d of %s" % (step, [[o, kk % len(texts), a] for o, kk, a in case["ops"][:step + 1]])
        if op in ("raw", "raw_max"):
            ml = 90 if op == "raw" else [len(s), len(s) - 1, 200, 1000, 90, 20][arg % 6]
            got = bech32m.bech32_decode(s) if op == "raw" else bech32m.bech32_decode(s, max_length=ml) if arg % 2 else bech32m.bech32_decode(s, ml)
            ref = _ref_bech32_raw(s, ml)
            g = None if got[0] is None else (got[0], list(got[1]), {bech32m.Encoding.BECH32: "b32", bech32m.Encoding.BECH32M: "b32m"}.get(got[2]))
            if g != ref:
                _bad("bech32:history:raw-decode!=ref", "bech32_decode(%r, max_length=%d) = %r, reference %r (%s)" % (s, ml, got, ref, where))
            if ref and len(s) > 90:
                labels.add("over-long-text-decoded-with-raised-limit")
        elif op == "seg":
            ref = refenc.segwit_decode(hrp.lower(), s)
            got = _pyc_decode(hrp.lower(), s)
            if got != ref:
                _bad("bech32:history:decode!=ref", "decode(%r, %r) = %r, reference %r (%s)" % (hrp.lower(), s, got, ref, where))
            labels.add("seg-accept" if ref else "seg-reject-long" if len(s) > 90 else "seg-reject")
        else:
            d5 = case["texts"][k % len(texts)]["data5"]
            prog = refenc.from5(d5[1:]) if d5 else None
            if prog is None:
                continue
            ref = refenc.segwit_encode(hrp, d5[0], prog)
            got = bech32m.encode(hrp, d5[0], prog)
            if got != ref:
                _bad("bech32:history:encode!=ref", "encode(%r, %d, %s) = %r, reference %r (%s)" % (hrp, d5[0], prog.hex(), got, ref, where))
            labels.add("enc-ok" if ref else "enc-none")
    return sorted(labels)


def s_bech32_history():
    def program(ver, n, fill):
        return [ver] + refenc.to5(bytes([fill]) * n)
    d5 = st.one_of(st.builds(program, st.sampled_from([0, 1, 1, 2, 16, 17]), st.sampled_from([20, 32, 40, 2, 33, 41, 1]), st.sampled_from([0, 0x11, 0xff])),
                   st.lists(st.integers(0, 31), max_size=30))
    text = st.fixed_dictionaries({"hrp": st.sampled_from(["bc", "tb", "a", "ltc", "abcdefghijklmnopqrstuvwxyz234"]),
                                  "hrp_rep": st.sampled_from([1, 1, 1, 2, 10, 29]), "data5": d5,
                                  "const": st.sampled_from(["b32", "b32m", "b32m", "other", "none"]), "upper": st.sampled_from([False, False, True])})
    op = st.tuples(st.sampled_from(["raw", "raw_max", "raw_max", "seg", "seg", "enc"]), st.integers(0, 3), st.integers(0, 5)).map(list)
    return st.fixed_dictionaries({"texts": st.lists(text, min_size=1, max_size=3), "ops": st.lists(op, min_size=2, max_size=10)})


SUBCHECKS = [
    SubCheck("bech32_unicode", o_bech32_unicode, strategy=s_bech32_unicode, budget=(4000, 400000),
             nontrivial=lambda c, l: not any(x.startswith("skip") for x in l),
             rule="valid addresses in lower or upper case with 1-4 positions replaced by non-ASCII characters, weighted to code points whose lower()/upper() mapping is ASCII (KELVIN SIGN, dotted/dotless i, long s, fullwidth forms): must be refused by decode, bech32_decode and the cached parser"),
    SubCheck("b58_bytes_exhaustive", o_b58_bytes, cases=cases_b58_bytes, exhaustive=True,
             nontrivial=lambda c, l: c["data"].startswith("00"),
             rule="all byte strings of length <= 2: b2a == reference, a2b(b2a(x)) == x, hashed round trip; non-trivial = leading zero byte"),
    SubCheck("b58_strings_exhaustive", o_b58_string, cases=cases_b58_strings, exhaustive=True,
             nontrivial=lambda c, l: c["s"].startswith("1"),
             rule="all strings over the Base58 alphabet of length <= 3, plus every truncation of the Base58Check form of five tiny payloads: a2b == reference, b2a(a2b(s)) == s, and the Base58Check decoder / validity predicate agree with the reference (strings decoding to < 4 bytes are refused); non-trivial = leading '1'"),
    SubCheck("b58_bytes_generated", o_b58_bytes, strategy=s_b58_bytes, budget=(4000, 400000),
             nontrivial=lambda c, l: c["data"].startswith("00"),
             rule="byte strings 0-120 bytes with 0-12 leading zeros; non-trivial = leading zero byte"),
    SubCheck("b58_strings_generated", o_b58_string, strategy=s_b58_strings, budget=(4000, 400000),
             nontrivial=lambda c, l: "invalid-char" in l or c["s"].startswith("1"),
             rule="alphabet strings with leading 1s, and strings with one injected out-of-alphabet/unicode character (must raise EncodingError)"),
    SubCheck("b58_digit_runs", o_b58_string, strategy=s_b58_runs, budget=(4000, 300000),
             nontrivial=lambda c, l: len(c["s"]) >= 9,
             rule="alphabet strings made of runs of a repeated symbol (weighted to the zero digit '1' and the top digit 'z', run lengths around 8 / 16 / 24) mixed with random symbols: a2b == reference and b2a(a2b(s)) == s; non-trivial = at least 9 symbols"),
    SubCheck("b58check_checksum_relations", o_b58_bytes, cases=cases_b58_checksum_relations, exhaustive=True,
             nontrivial=lambda c, l: True,
             rule="all-zero payloads of every length 0..2599 (thorough: ..11999), and payloads found by search whose checksum begins with one or "
                  "two zero bytes (with 0 / 1 / 3 leading zero bytes of their own): plain and checksummed encodings equal the reference and round-trip"),
    SubCheck("b58_powers_of_58", o_b58_bytes, cases=cases_b58_powers, exhaustive=True,
             nontrivial=lambda c, l: True,
             rule="byte strings whose value is m*58^k + d, k = 0..40, m in {1,2,57,58,59}, d in {0,1,57,58}: encoder == reference and round trip"),
    SubCheck("b58check_corruption", o_b58check_corrupt, strategy=s_b58check_corrupt, budget=(4000, 400000),
             rule="valid Base58Check strings with 1-4 corrupted checksum bytes or characters; expected verdict = checksum recomputed by the reference over the corrupted string (exact)"),
    SubCheck("b58check_corruption_python_O", subproc.optimized_variant("checks.c11_codecs", "o_b58check_corrupt"), strategy=s_b58check_corrupt, budget=(400, 20000),
             rule="the b58check_corruption cases evaluated in a child interpreter started with PYTHONOPTIMIZE=1 (python -O: assert statements are "
                  "compiled away, so validation written as an assert vanishes; the child asserts that mode)"),
    SubCheck("bech32_triples", o_bech32_triple, strategy=triples, budget=(4000, 400000), nontrivial=nt_triple,
             rule="(hrp, version 0-17, program 0-42 bytes): encode == reference (None when BIP173/350 forbid), decode inverse, upper-case form, parseable_str cache; non-trivial = allowed triple"),
    SubCheck("bech32_corruptions", o_bech32_corrupt, strategy=s_bech32_corrupt, budget=(6000, 600000),
             nontrivial=lambda c, l: not any(x.startswith("skip") for x in l),
             rule="valid segwit addresses with 1-4 substituted positions (data part: other charset symbols; anywhere: any printable char); must be refused by decode(hrp,.) and, for data-only edits, by bech32_decode"),
    SubCheck("bech32_all_single_subst", o_bech32_all_single, strategy=valid_triples, budget=(160, 8000),
             rule="for a generated valid address, every single-symbol substitution in its data part, and every (alphabet symbol, foreign character) pair on adjacent positions of its last seven symbols (exhaustive per string)"),
    SubCheck("bech32_invalid_classes", o_bech32_invalid, strategy=s_bech32_invalid, budget=(4000, 200000),
             nontrivial=lambda c, l: not any(x.startswith("skip") for x in l),
             rule="correctly checksummed strings with wrong constant for the version, non-zero or >4-bit padding, mixed case, forbidden program length, version > 16, empty data"),
    SubCheck("bech32_invalid_classes_python_O", subproc.optimized_variant("checks.c11_codecs", "o_bech32_invalid"), strategy=s_bech32_invalid, budget=(400, 20000),
             rule="the bech32_invalid_classes cases evaluated in a child interpreter started with PYTHONOPTIMIZE=1 (python -O: assert statements are "
                  "compiled away, so validation written as an assert vanishes; the child asserts that mode)"),
    SubCheck("bech32_call_history", o_bech32_history, strategy=s_bech32_history, budget=(3000, 200000),
             nontrivial=lambda c, l: "over-long-text-decoded-with-raised-limit" in l or "seg-accept" in l,
             rule="2-10 calls on a pool of 1-3 texts (segwit-shaped or arbitrary symbols; hrp up to 83 characters so that checksum-correct "
                  "texts longer than 90 characters occur; either constant, a foreign one, none; upper case): bech32_decode with and without "
                  "the optional max_length argument (len, len-1, 200, 1000, 90, 20; positional / keyword), decode(hrp, text), "
                  "encode(hrp, version, program) - every call equals the reference for its own arguments, whatever was called before"),
    SubCheck("bech32_arbitrary", o_bech32_arbitrary, strategy=s_bech32_arbitrary, budget=(3000, 300000),
             rule="arbitrary 5-bit symbol strings under a known hrp, checksummed with the Bech32 / Bech32m / a foreign constant or not at all: accept <=> reference decoder accepts, and same (version, program)"),
]

# thorough tier: coverage-guided campaigns (runs per worker, 4 workers each)
FUZZ = {"bech32_arbitrary": 60000, "b58_strings_generated": 60000, "bech32_unicode": 40000, "b58check_corruption": 40000}
