#!/venv/bin/python
"""confirm_seed.py <Cxx> [suffix]: confirm a seeded change produced by a sub-agent in /tmp/seed-<id> with deliverables in
/tmp/seed-out/<id>: (1) patch applies to a clean checkout of /repo HEAD, (2) the repo test-suite result is the baseline
(1822 passed, the 4 known offline failures), (3) the demo exits non-zero with the change and 0 without.
On success copies patch.diff, demo.py, meta.json to /verif/seeded/<id>/ and records what was run."""
import json, os, shutil, subprocess, sys, tempfile

sid = sys.argv[1]
out = "/tmp/seed-out/%s" % sid
scratch = tempfile.mkdtemp(prefix="seedconfirm-")
try:
    subprocess.check_call(["git", "-C", "/repo", "worktree", "add", "-q", "-f", "--detach", scratch + "/wt", "HEAD"])
    wt = scratch + "/wt"
    env = dict(os.environ, PYTHONPATH=wt)
    ran = []
    def run(cmd, **kw):
        r = subprocess.run(cmd, cwd=wt, env=env, capture_output=True, text=True, **kw)
        return r
    r = run(["/venv/bin/python", out + "/demo.py"])
    ran.append("demo on clean tree: exit %d" % r.returncode)
    ok = r.returncode == 0
    r = run(["git", "apply", out + "/patch.diff"])
    ran.append("git apply: exit %d %s" % (r.returncode, r.stderr.strip()[:200]))
    ok = ok and r.returncode == 0
    r = run(["/venv/bin/python", out + "/demo.py"])
    ran.append("demo on changed tree: exit %d (%s)" % (r.returncode, (r.stderr.strip().splitlines() or [""])[-1][:200]))
    ok = ok and r.returncode != 0
    r = run(["/venv/bin/python", "-m", "pytest", "-q", "-p", "no:cacheprovider", "-n", "6", "--timeout=900"])
    tail = r.stdout.strip().splitlines()[-1]
    failed = sorted(l.split()[1] for l in r.stdout.splitlines() if l.startswith("FAILED"))
    ran.append("pytest on changed tree: %s; failed=%s" % (tail, [f.split("::")[-1] for f in failed]))
    ok = ok and "1822 passed" in tail and len(failed) == 4
    print("\n".join(ran))
    print("CONFIRMED" if ok else "NOT CONFIRMED")
    if ok:
        d = "/verif/seeded/%s" % sid
        os.makedirs(d, exist_ok=True)
        for f in ("patch.diff", "demo.py"):
            shutil.copy(os.path.join(out, f), d)
        meta = json.load(open(os.path.join(out, "meta.json")))
        meta["property"] = sid[:3]
        meta["confirmed_by_lead"] = ran
        meta["base_commit"] = subprocess.check_output(["git", "-C", "/repo", "rev-parse", "--short", "HEAD"]).decode().strip()
        json.dump(meta, open(os.path.join(d, "meta.json"), "w"), indent=1)
finally:
    subprocess.call(["git", "-C", "/repo", "worktree", "remove", "--force", scratch + "/wt"])
    shutil.rmtree(scratch, ignore_errors=True)
