#!/venv/bin/python
"""mkmutant.py Cxx name file 'old text' 'new text'  -> mutants/Cxx/name.patch (unified diff against /repo working tree)"""
import difflib
import os
import sys

HERE = os.path.dirname(os.path.dirname(os.path.abspath(__file__)))


def make(prop, name, relfile, old, new, repo="/repo"):
    src = open(os.path.join(repo, relfile)).read()
    assert src.count(old) == 1, "pattern occurs %d times in %s" % (src.count(old), relfile)
    dst = src.replace(old, new)
    diff = "".join(difflib.unified_diff(src.splitlines(True), dst.splitlines(True), "a/" + relfile, "b/" + relfile))
    d = os.path.join(HERE, "mutants", prop)
    os.makedirs(d, exist_ok=True)
    with open(os.path.join(d, name + ".patch"), "w") as f:
        f.write(diff)
    return os.path.join(d, name + ".patch")


if __name__ == "__main__":
    print(make(*sys.argv[1:6]))
