#!/bin/sh
# offline setup: hypothesis into /venv (if missing), atheris into /verif/.deps (optional; fuzz sub-checks skip without it)
cd "$(dirname "$0")/.."
/venv/bin/python -c 'import hypothesis' 2>/dev/null || \
  /venv/bin/pip install -q --no-index --find-links /opt/veriftools/wheels hypothesis || exit 1
if [ ! -d .deps/atheris ]; then
  /venv/bin/pip install -q --no-index --find-links /opt/veriftools/wheels --target .deps atheris 2>/dev/null || \
    echo "atheris not installed: fuzz sub-checks will be reported as skipped"
fi
/venv/bin/python -c 'import hypothesis; print("hypothesis", hypothesis.__version__)'
exit 0
