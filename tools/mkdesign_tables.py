#!/venv/bin/python
"""Rewrite the generated regions of DESIGN.md (between <!-- BEGIN:x --> / <!-- END:x --> markers) from
known_findings/*.json, seeded/*/meta.json + seeded/RESULTS.json and mutants/RESULTS.json."""
import glob
import json
import os
import re
import subprocess

HERE = os.path.dirname(os.path.dirname(os.path.abspath(__file__)))


def findings():
    rows = []
    for p in sorted(glob.glob(os.path.join(HERE, "known_findings", "C*.json"))):
        for e in json.load(open(p))["findings"]:
            rows.append(e)
    return rows


def tbl_fixed():
    seen = {}
    for e in findings():
        if e["status"] != "fixed":
            continue
        seen.setdefault(e.get("commit", "?"), {"props": set(), "what": [], "buckets": []})
        s = seen[e.get("commit", "?")]
        s["props"].add(e["property"])
        s["what"].append(e["what"])
        s["buckets"].append(e["bucket"])
    log = subprocess.check_output(["git", "-C", "/repo", "log", "--reverse", "--format=%h %s"]).decode().splitlines()
    out = ["| commit | subject | found by | pinned reproducers (buckets) |", "|---|---|---|---|"]
    for l in log:
        h, subj = l.split(" ", 1)
        if not subj.startswith("fix:"):
            continue
        s = seen.get(h)
        out.append("| %s | %s | %s | %s |" % (h, subj.replace("|", "/"), ", ".join(sorted(s["props"])) if s else "(no pin)",
                                             "; ".join("`%s`" % b for b in s["buckets"]) if s else ""))
    return "\n".join(out)


def tbl_known():
    out = ["| property | bucket | what fails | why not repaired |", "|---|---|---|---|"]
    for e in findings():
        if e["status"] == "known":
            out.append("| %s | `%s` | %s | %s |" % (e["property"], e["bucket"], e["what"].replace("|", "/"),
                                                   e.get("why_not_fixed", "see section 6 text").replace("|", "/")))
    return "\n".join(out)


def tbl_seeded():
    try:
        res = json.load(open(os.path.join(HERE, "seeded", "RESULTS.json")))
    except Exception:
        res = {}
    out = ["| id | property | change | needs to manifest | quick check | detected by |", "|---|---|---|---|---|---|"]
    for d in sorted(glob.glob(os.path.join(HERE, "seeded", "*", "meta.json"))):
        m = json.load(open(d))
        sid = os.path.basename(os.path.dirname(d))
        r = res.get("seeded/%s/patch.diff" % sid, {})
        out.append("| %s | %s | %s | %s | %s | %s |" % (sid, m["property"], m.get("summary", "").replace("|", "/"),
                                                      str(m.get("needs_to_manifest", "")).replace("|", "/").replace("\n", " ")[:400],
                                                      r.get("status", "not run"), r.get("detected_by", "").replace("|", "/")))
    return "\n".join(out)


def tbl_mutants():
    try:
        res = json.load(open(os.path.join(HERE, "mutants", "RESULTS.json")))
    except Exception:
        res = {}
    by = {}
    for p, r in sorted(res.items()):
        by.setdefault(r["property"], []).append((os.path.basename(p)[:-6], r))
    out = ["| property | mutants (quick tier) | detected | missed |", "|---|---|---|---|"]
    for prop in sorted(by):
        det = [n for n, r in by[prop] if r["status"] == "DETECTED"]
        mis = [n for n, r in by[prop] if r["status"] != "DETECTED"]
        out.append("| %s | %d | %s | %s |" % (prop, len(by[prop]), ", ".join(det), ", ".join(mis) or "-"))
    return "\n".join(out)


def main():
    path = os.path.join(HERE, "DESIGN.md")
    s = open(path).read()
    for name, fn in (("fixed", tbl_fixed), ("known", tbl_known), ("seeded", tbl_seeded), ("mutants", tbl_mutants)):
        pat = re.compile(r"(<!-- BEGIN:%s -->\n).*?(<!-- END:%s -->)" % (name, name), re.S)
        assert pat.search(s), name
        s = pat.sub(lambda m: m.group(1) + fn() + "\n" + m.group(2), s)
    open(path, "w").write(s)


main()
