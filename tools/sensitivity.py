#!/venv/bin/python
"""Apply each patch in /verif/mutants/<Cxx>/*.patch (or seeded/<id>/patch.diff) to a scratch copy of /repo
and run the quick check against it.  Prints detect/miss and time.  The scratch copy is removed afterwards.

usage: sensitivity.py [Cxx ...] [--seeded] [--tier quick]
"""
import glob
import json
import os
import shutil
import subprocess
import sys
import tempfile
import time

HERE = os.path.dirname(os.path.dirname(os.path.abspath(__file__)))


def run_one(prop, patch, tier="quick"):
    scratch = tempfile.mkdtemp(prefix="pycoin-mut-", dir=os.environ.get("VERIF_SCRATCH", "/tmp"))
    try:
        subprocess.check_call(["rsync", "-a", "--exclude", ".git", "--exclude", "__pycache__", "/repo/", scratch + "/"])
        r = subprocess.run(["patch", "-p1", "-s", "-d", scratch, "-i", patch], capture_output=True, text=True)
        if r.returncode != 0:
            return "PATCH-FAILED", 0.0, r.stdout + r.stderr
        env = dict(os.environ, VERIF_REPO=scratch, VERIF_EVIDENCE_DIR=os.path.join(scratch, "_ev"),
                   VERIF_REPLAY_DIR=os.path.join(scratch, "_replays"))
        t0 = time.time()
        r = subprocess.run([sys.executable, os.path.join(HERE, "run.py"), prop, "--tier", tier], env=env,
                           capture_output=True, text=True)
        dt = time.time() - t0
        out = r.stdout + r.stderr
        if r.returncode == 1 and "VIOLATION property=" + prop in r.stdout:
            first = [l for l in r.stdout.splitlines() if "subcheck=" in l][:1]
            return "DETECTED", dt, (first[0].strip() if first else "")
        if r.returncode == 0:
            return "MISSED", dt, ""
        return "HARNESS-ERROR(%d)" % r.returncode, dt, out[-1500:]
    finally:
        shutil.rmtree(scratch, ignore_errors=True)


def main():
    args = [a for a in sys.argv[1:] if not a.startswith("--")]
    tier = "thorough" if "--thorough" in sys.argv else "quick"
    jobs = []
    if "--seeded" in sys.argv:
        for d in sorted(glob.glob(os.path.join(HERE, "seeded", "*", ""))):
            d = d.rstrip("/")
            if not os.path.exists(os.path.join(d, "meta.json")):
                continue
            meta = json.load(open(os.path.join(d, "meta.json")))
            if args and meta["property"] not in args and os.path.basename(d) not in args:
                continue
            jobs.append((meta["property"], os.path.join(d, "patch.diff")))
    else:
        for d in sorted(glob.glob(os.path.join(HERE, "mutants", "C*"))):
            prop = os.path.basename(d)
            names = [a for a in args if not (len(a) == 3 and a[0] == "C" and a[1:].isdigit())]
            if args and prop not in args and not names:
                continue
            for p in sorted(glob.glob(os.path.join(d, "*.patch"))):
                if names and os.path.basename(p)[:-6] not in names:
                    continue
                jobs.append((prop, p))
    rows = []
    for prop, p in jobs:
        status, dt, info = run_one(prop, p, tier)
        rows.append((prop, os.path.relpath(p, HERE), status, dt, info))
        print("%-4s %-55s %-14s %6.1fs  %s" % (prop, os.path.relpath(p, HERE), status, dt, info), flush=True)
    if "--norecord" in sys.argv:
        missed = [r for r in rows if r[2] != "DETECTED"]
        print("%d/%d detected (not recorded)" % (len(rows) - len(missed), len(rows)))
        return 0
    # record (merge) results for the DESIGN tables
    rec_path = os.path.join(HERE, "seeded" if "--seeded" in sys.argv else "mutants", "RESULTS.json")
    try:
        rec = json.load(open(rec_path))
    except Exception:
        rec = {}
    for prop, p, status, dt, info in rows:
        rec[p] = {"property": prop, "tier": tier, "status": status, "seconds": round(dt, 1), "detected_by": info}
    with open(rec_path, "w") as f:
        json.dump(rec, f, indent=1, sort_keys=True)
    missed = [r for r in rows if r[2] != "DETECTED"]
    print("%d/%d detected" % (len(rows) - len(missed), len(rows)))
    return 0


if __name__ == "__main__":
    sys.exit(main())
