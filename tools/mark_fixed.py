#!/venv/bin/python
"""mark_fixed.py Cxx <bucket-substring> <commit-subject-prefix>: flip known -> fixed in known_findings/Cxx.json"""
import json, subprocess, sys
prop, bsub, prefix = sys.argv[1:4]
log = subprocess.check_output(["git", "-C", "/repo", "log", "--format=%h %s"]).decode().splitlines()
m = [l for l in log if l.split(" ", 1)[1].startswith(prefix)]
assert len(m) == 1, m
commit = m[0].split()[0]
p = "/verif/known_findings/%s.json" % prop
d = json.load(open(p))
n = 0
for e in d["findings"]:
    if bsub in e["bucket"] and e["status"] == "known":
        e["status"] = "fixed"; e["commit"] = commit; n += 1
json.dump(d, open(p, "w"), indent=1)
print(prop, bsub, commit, "flipped", n)
