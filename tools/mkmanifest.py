#!/venv/bin/python
"""Regenerate MANIFEST.json from the table below; a property is claimed iff its check module exists."""
import glob
import json
import os

HERE = os.path.dirname(os.path.dirname(os.path.abspath(__file__)))

T = {
 "C01": ("reference-model differential (RFC 6979 + verification equation) over generated scalars/hashes/signature classes; exhaustive on toy curves",
         "oracles/refec.py + refecdsa.py (spec transliterations calibrated on RFC 6979 / secp256k1 vectors); libsecp256k1 backend not installed (unexplored)"),
 "C02": ("exhaustive enumeration of toy prime-order curves + generated points/scalars on secp256k1/P-256/BLS12-381 against an independent affine/Jacobian reference and the group laws",
         "oracles/refec.py; python big-int arithmetic; libsecp256k1 unexplored"),
 "C03": ("grammar-based script generation, differential against a transliteration of Bitcoin Core's pre-taproot interpreter (tri-state verdict), named-deviation exclusion of known findings",
         "oracles/refvm.py calibrated on all script_tests.json / tx_valid / tx_invalid vectors; it is a model of Core, not Core"),
 "C04": ("generated transactions x all 256 hash types against reference legacy/BIP143/fork-id/single-SHA256 digests; non-modification snapshot",
         "oracles/refsighash.py calibrated on BIP143 examples and tx_valid signatures"),
 "C05": ("generated standard-puzzle transactions signed through each key-supply mechanism; validity under pycoin and the reference interpreter, canonical-signature predicate, frame snapshot; partial-multisig operation sequences",
         "reference interpreter + reference DER/low-S predicate"),
 "C06": ("signed transactions x single-field mutation catalogue against a commitment table cross-checked with the reference interpreter; mutate/re-validate operation sequences vs fresh objects",
         "commitment table derived from the sighash definitions; oracles/refvm.py"),
 "C07": ("boundary-sized generated transactions/spendables against a reference serialiser, round-trip and id metamorphic relations",
         "oracles/refser.py (struct-based, calibrated on BIP144 examples)"),
 "C08": ("hashes x all registered networks: reference address encoders, parse round-trip, full 51x51 cross-acceptance matrix, near-template classifier scripts with rebuild predicate",
         "oracles/refenc.py; a consistently wrong prefix constant has no offline oracle"),
 "C09": ("seeds x paths x spellings x networks against a reference BIP32; public/private commutation; derivation-order sequences vs fresh nodes",
         "oracles/refbip32.py calibrated on BIP32 vectors 1-3"),
 "C10": ("generated keys and candidate SEC/DER blobs against reference strict parsers; WIF/SEC/DER round-trips on every network",
         "oracles/refenc.py strict SEC + minimal DER"),
 "C11": ("exhaustive small domains + generated strings/corruptions against reference Base58/Base58Check/Bech32/Bech32m with exact checksum recomputation",
         "oracles/refenc.py calibrated on BIP173/BIP350 valid+invalid vectors"),
 "C12": ("exhaustive small integers / byte strings / push lengths + generated scripts against reference CScriptNum, minimal-push and round-trip oracles",
         "reference CScriptNum::serialize and CheckMinimalPush transliterations"),
 "C13": ("generated spendables/payables/fees against an exact arithmetic model; single-discrepancy source databases; exact-rational conversion round-trips",
         "python Fraction arithmetic"),
 "C14": ("generated headers/blocks against reference serialiser and merkle; exhaustive match subsets for small blocks through a reference BIP37 builder; proof corruptions",
         "oracles/refmerkle.py (Core's TraverseAndBuild/Extract transliteration)"),
 "C15": ("exhaustive forests x delivery permutations x batchings for small N, generated operation histories with locks beyond, against a heaviest-chain model (validity predicate) and op-list replay",
         "oracles/refchain.py; weights positive"),
 "C16": ("per-message field strategies against hand-written reference wire encoders; pack/parse round-trip for every message name in the tree",
         "oracles/refser.py message encoders written from the protocol documentation"),
 "C17": ("keys x networks x messages against reference magic-hash + RFC 6979; verifier totality over adversarial signature text",
         "oracles/refecdsa.py"),
 "C18": ("unicode text + by-construction checksummed adversarial text over every parse entry point and network: totality, re-parse equality, kind separation",
         "oracles/refenc.py for building checksummed inputs"),
 "C19": ("every length 0-300 + generated inputs against OpenSSL RIPEMD-160/SHA256 and a reference MurmurHash3/BIP37 bitmap, in both RIPEMD configurations",
         "hashlib (OpenSSL); oracles/refhash.py calibrated on Core murmur vectors"),
 "C20": ("boundary-directed generated transactions against a three-valued restatement of CheckTransaction; non-modification",
         "restated CheckTransaction; near-null outpoints are don't-care"),
}

NOT_YET = "check not built yet in this round (design in DESIGN.md section 3); no claim is made"


def main():
    import subprocess
    tracked = subprocess.check_output(["git", "-C", HERE, "ls-files", "checks"]).decode().split()
    checks, na = [], []
    for pid in sorted(T):
        tech, note = T[pid]
        if any(os.path.basename(t).startswith(pid.lower()) for t in tracked):
            checks.append({
                "property_id": pid,
                "quick_cmd": "/venv/bin/python run.py %s --tier quick" % pid,
                "thorough_cmd": "/venv/bin/python run.py %s --tier thorough" % pid,
                "evidence_file": "/verif/evidence/%s.json" % pid,
                "replay_cmd_template": "/venv/bin/python run.py %s --replay {path}" % pid,
                "engine": "pbt-runner",
                "level_claimed": {"category": "exploration",
                                  "text": "No counterexample among the generated / enumerated cases reported in the evidence; finite sub-domains marked exhaustive were enumerated completely. Not a proof.",
                                  "design_ref": "DESIGN.md section 3, %s" % pid},
                "level_note": note,
                "technique": "property-based testing: " + tech,
            })
        else:
            na.append({"property_id": pid, "reason": NOT_YET})
    m = {
        "version": 1,
        "setup_cmd": "sh tools/setup.sh",
        "hooks": {"guard": "PYCOIN_VERIF", "enable": "no hooks: every observation point is a public return value or exception",
                  "baseline_off_cmd": "cd /repo && /venv/bin/python -m pytest -ra -q -p no:cacheprovider --timeout=900 --continue-on-collection-errors",
                  "source_commits": [], "add_only": True},
        "engines": [{"name": "pbt-runner", "path": "/verif/run.py", "serves_properties": [c["property_id"] for c in checks],
                     "kind_free_text": "Hypothesis strategies + exhaustive enumerations + reference-model oracles, 16-way sharded; Atheris targets in the thorough tier"}],
        "checks": checks,
        "not_applicable": na,
        "notes": "All checks: /venv/bin/python run.py <Cxx> --tier quick|thorough; VERIF_SEED honoured; exit 2 = harness error. known_findings.json lists known/fixed findings.",
    }
    with open(os.path.join(HERE, "MANIFEST.json"), "w") as f:
        json.dump(m, f, indent=1)
    print("claimed:", [c["property_id"] for c in checks])


main()
