import json, hashlib, subprocess
ctx={"version":1,"locktime":0,"sequence":0xffffffff,"amount":1000,"n_in":0,"n_ins":1,"n_outs":1}
def ev(prog, flags, stack=(), sv=0):
    return dict(ctx, kind="eval", prog=prog, stack=list(stack), flags=flags, sigversion=sv)
def sp(shape, lock, unlock, flags, mut=()):
    return dict(ctx, kind="spend", shape=shape, lock=lock, unlock=unlock, flags=flags, mut=list(mut))
P2SH=1; STRICTENC=2; LOW_S=8; MINIMALDATA=64; CLEANSTACK=256; WITNESS=2048
h160=lambda b: hashlib.new('ripemd160',hashlib.sha256(b).digest()).hexdigest()
log=subprocess.check_output(['git','-C','/repo','log','--format=%h %s']).decode().splitlines()
def commit(prefix):
    m=[l for l in log if l.split(' ',1)[1].startswith(prefix)]
    assert len(m)==1,(prefix,m); return m[0].split()[0]
F=[]
def add(sub, case, what, cprefix):
    F.append({"property":"C03","status":"fixed","bucket":"fixed:"+cprefix[5:45].strip().replace(' ','-').replace('/','_'),"subcheck":sub,"case":case,"what":what,"commit":commit(cprefix)})
add("eval", ev([["d","00","direct"],["op",0x73]],0), "OP_IFDUP duplicated the non-empty false value 0x00", "fix: OP_IFDUP")
add("eval", ev([["n",1,"opn"],["op",0x92]],MINIMALDATA), "OP_0NOTEQUAL rejected every operand under MINIMALDATA", "fix: OP_0NOTEQUAL")
add("eval", ev([["n",0,"opn"],["n",0,"opn"],["d","0000000000","direct"],["op",0xa5]],0), "OP_WITHIN accepted a 5-byte operand (likewise PICK/ROLL/CHECKMULTISIG counts)", "fix: script numbers consumed")
add("eval", ev([["sig",0,1,"s-firsthigh",0],["key",0,"c"],["op",0xac],["op",0x91]],LOW_S), "LOW_S accepted S = (n+1)/2 because it compared with the field prime", "fix: LOW_S")
add("spend", sp("bare",[["raw","a913"+"00"*19+"7587"]],[["d",h160(b"\x00"),"min"],["d","00","direct"]],P2SH), "23-byte HASH160 <19 bytes> DROP EQUAL script was evaluated as P2SH", "fix: a pay-to-script-hash")
add("eval", ev([["n",1,"opn"],["raw","4d"]],0), "PUSHDATA2 with no length bytes decoded as an empty push", "fix: PUSHDATA1/2/4")
add("spend", sp("p2wpkh",[["key",0,"c"]],[["sig",0,1,"ok",0],["key",0,"c"]],P2SH|WITNESS,[["sig-append",[["n",1,"opn"],["op",0x75]]]]), "native witness input with scriptSig OP_1 OP_DROP was accepted", "fix: witness spends require")
add("spend", sp("p2wsh",[["d","aa"*300,"min"],["op",0x75],["d","bb"*300,"min"],["op",0x75],["n",1,"opn"]],[],P2SH|WITNESS), "a 611-byte P2WSH witness script was rejected by the 520-byte item limit", "fix: the 520-byte witness item limit")
add("spend", sp("bare",[["raw","5114"+"11"*20]],[],P2SH|WITNESS|CLEANSTACK), "witness v1 program failed CLEANSTACK", "fix: undefined witness versions")
add("eval", ev([["d","aa"*256,"p2"],["op",0x75],["n",1,"opn"]],MINIMALDATA), "a 256-byte PUSHDATA2 push was called non-minimal", "fix: MINIMALDATA accepts")
add("eval", ev([["sig",3,1,"ok",0],["key",3,"p05"],["op",0xac]],0), "a 33-byte key with prefix 05 verified a signature (also x >= p and wrong-parity hybrid keys)", "fix: SEC public keys")
add("eval", ev([["n",0,"opn"],["key",0,"short"],["op",0xac],["op",0x91]],STRICTENC), "an empty signature skipped the STRICTENC public-key encoding check", "fix: an empty or unparseable signature")
add("eval", ev([["sig",0,1,"seqlen-1",0],["key",0,"c"],["op",0xac]],0), "a signature with a wrong DER sequence length was refused without DERSIG (consensus parses leniently)", "fix: without BIP66 strictness")
CSV=1024; WPK=1<<15
add("eval", dict(ev([["d","0100000000","p1"],["op",0xb2]],CSV), version=2, sequence=5), "CHECKSEQUENCEVERIFY rewrote its non-minimal operand 0100000000 as 01 (likewise CHECKLOCKTIMEVERIFY)", "fix: CHECKLOCKTIMEVERIFY / CHECKSEQUENCEVERIFY leave")
add("spend", sp("p2wsh",[["n",0,"opn"],["key",0,"empty"],["op",0xac],["op",0x91]],[],P2SH|WITNESS|WPK), "an empty public key under WITNESS_PUBKEYTYPE escaped is_solution_ok as IndexError", "fix: an empty public key under WITNESS_PUBKEYTYPE")
json.dump({"findings":F}, open('/verif/known_findings/C03.json','w'), indent=1)
print(len(F))
