#!/venv/bin/python
"""add the textual record line to every entry of known_findings/*.json:
   fixed: property=<id> <commit> <what failed>   /   known: property=<id> <what fails>"""
import glob, json
for p in sorted(glob.glob("/verif/known_findings/C*.json")):
    d = json.load(open(p))
    for e in d["findings"]:
        if e["status"] == "fixed":
            e["record"] = "fixed: property=%s %s %s" % (e["property"], e.get("commit", "?"), e["what"])
        else:
            e["record"] = "known: property=%s %s" % (e["property"], e["what"])
    json.dump(d, open(p, "w"), indent=1)
