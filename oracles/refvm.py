"""Reference script interpreter: a transliteration of Bitcoin Core's pre-taproot script/interpreter.cpp
(EvalScript, VerifyScript, VerifyWitnessProgram v0, CheckSignatureEncoding, CheckPubKeyEncoding, CScriptNum,
CheckMinimalPush, CastToBool), pubkey.cpp (CPubKey validity, lax DER parse, low-S normalisation) and the
signature checker (CheckSig / CheckLockTime / CheckSequence).  Imports nothing from pycoin.

Verdicts: OK, FAIL, EITHER.  EITHER is returned when an executed branch's outcome differs between Core releases
and is policy-only: an executed CLTV/CSV opcode whose own flag is off while DISCOURAGE_UPGRADABLE_NOPS is on
(Core <= 0.15 fails, >= 0.16 treats it as a NOP).

Named deviations ("dev"): each is an exact statement of one confirmed pycoin defect.  With a deviation switched
on the model behaves like pycoin at that one point and records the name in `fired` when the branch actually
changed the behaviour.  They exist so that the differential search can continue past known findings; the pure
model (dev = empty) is the oracle.
"""
import hashlib

from . import refec, refsighash
from .refsighash import get_op, push_encoding, find_and_delete

# flags (Core numbering; pycoin uses the same)
P2SH = 1 << 0
STRICTENC = 1 << 1
DERSIG = 1 << 2
LOW_S = 1 << 3
NULLDUMMY = 1 << 4
SIGPUSHONLY = 1 << 5
MINIMALDATA = 1 << 6
DISCOURAGE_UPGRADABLE_NOPS = 1 << 7
CLEANSTACK = 1 << 8
CHECKLOCKTIMEVERIFY = 1 << 9
CHECKSEQUENCEVERIFY = 1 << 10
WITNESS = 1 << 11
DISCOURAGE_UPGRADABLE_WITNESS_PROGRAM = 1 << 12
MINIMALIF = 1 << 13
NULLFAIL = 1 << 14
WITNESS_PUBKEYTYPE = 1 << 15
ALL_FLAGS = (1 << 16) - 1

BASE, WITNESS_V0 = 0, 1

MAX_SCRIPT_ELEMENT_SIZE = 520
MAX_OPS_PER_SCRIPT = 201
MAX_PUBKEYS_PER_MULTISIG = 20
MAX_SCRIPT_SIZE = 10000
MAX_STACK_SIZE = 1000
LOCKTIME_THRESHOLD = 500000000
SEQUENCE_FINAL = 0xffffffff
SEQUENCE_LOCKTIME_DISABLE_FLAG = 1 << 31
SEQUENCE_LOCKTIME_TYPE_FLAG = 1 << 22
SEQUENCE_LOCKTIME_MASK = 0x0000ffff

# opcodes
OP_0 = 0x00
OP_PUSHDATA1, OP_PUSHDATA2, OP_PUSHDATA4 = 0x4c, 0x4d, 0x4e
OP_1NEGATE = 0x4f
OP_RESERVED = 0x50
OP_1 = 0x51
OP_16 = 0x60
OP_NOP, OP_VER, OP_IF, OP_NOTIF, OP_VERIF, OP_VERNOTIF, OP_ELSE, OP_ENDIF, OP_VERIFY, OP_RETURN = range(0x61, 0x6b)
OP_TOALTSTACK, OP_FROMALTSTACK, OP_2DROP, OP_2DUP, OP_3DUP, OP_2OVER, OP_2ROT, OP_2SWAP, OP_IFDUP, OP_DEPTH, \
    OP_DROP, OP_DUP, OP_NIP, OP_OVER, OP_PICK, OP_ROLL, OP_ROT, OP_SWAP, OP_TUCK = range(0x6b, 0x7e)
OP_CAT, OP_SUBSTR, OP_LEFT, OP_RIGHT, OP_SIZE = range(0x7e, 0x83)
OP_INVERT, OP_AND, OP_OR, OP_XOR, OP_EQUAL, OP_EQUALVERIFY, OP_RESERVED1, OP_RESERVED2 = range(0x83, 0x8b)
OP_1ADD, OP_1SUB, OP_2MUL, OP_2DIV, OP_NEGATE, OP_ABS, OP_NOT, OP_0NOTEQUAL = range(0x8b, 0x93)
OP_ADD, OP_SUB, OP_MUL, OP_DIV, OP_MOD, OP_LSHIFT, OP_RSHIFT = range(0x93, 0x9a)
OP_BOOLAND, OP_BOOLOR, OP_NUMEQUAL, OP_NUMEQUALVERIFY, OP_NUMNOTEQUAL, OP_LESSTHAN, OP_GREATERTHAN, \
    OP_LESSTHANOREQUAL, OP_GREATERTHANOREQUAL, OP_MIN, OP_MAX, OP_WITHIN = range(0x9a, 0xa6)
OP_RIPEMD160, OP_SHA1, OP_SHA256, OP_HASH160, OP_HASH256, OP_CODESEPARATOR, OP_CHECKSIG, OP_CHECKSIGVERIFY, \
    OP_CHECKMULTISIG, OP_CHECKMULTISIGVERIFY = range(0xa6, 0xb0)
OP_NOP1, OP_CHECKLOCKTIMEVERIFY, OP_CHECKSEQUENCEVERIFY, OP_NOP4, OP_NOP5, OP_NOP6, OP_NOP7, OP_NOP8, OP_NOP9, \
    OP_NOP10 = range(0xb0, 0xba)

DISABLED = frozenset([OP_CAT, OP_SUBSTR, OP_LEFT, OP_RIGHT, OP_INVERT, OP_AND, OP_OR, OP_XOR, OP_2MUL, OP_2DIV,
                      OP_MUL, OP_DIV, OP_MOD, OP_LSHIFT, OP_RSHIFT])

OK, FAIL, EITHER = "OK", "FAIL", "EITHER"


class ScriptFail(Exception):
    def __init__(self, err):
        self.err = err
        super().__init__(err)


class Ctx:
    """evaluation context shared by one VerifyScript / EvalScript run"""

    def __init__(self, dev=frozenset()):
        self.dev = dev
        self.fired = set()
        self.either = False
        self.executed = []       # opcodes executed (non-push), for coverage labels

    def on(self, name):
        return name in self.dev

    def fire(self, name):
        self.fired.add(name)


def ripemd160(b):
    return hashlib.new("ripemd160", b).digest()


def cast_to_bool(v):
    for i, c in enumerate(v):
        if c != 0:
            if i == len(v) - 1 and c == 0x80:
                return False
            return True
    return False


def scriptnum_decode(v, require_minimal, max_size=4):
    if len(v) > max_size:
        raise ScriptFail("SCRIPTNUM_OVERFLOW")
    if require_minimal and len(v) > 0:
        if (v[-1] & 0x7f) == 0:
            if len(v) <= 1 or (v[-2] & 0x80) == 0:
                raise ScriptFail("SCRIPTNUM_NONMINIMAL")
    if not v:
        return 0
    r = int.from_bytes(v, "little")
    if v[-1] & 0x80:
        return -(r & ~(0x80 << (8 * (len(v) - 1))))
    return r


def scriptnum_encode(n):
    if n == 0:
        return b""
    neg = n < 0
    a = -n if neg else n
    out = bytearray()
    while a:
        out.append(a & 0xff)
        a >>= 8
    if out[-1] & 0x80:
        out.append(0x80 if neg else 0)
    elif neg:
        out[-1] |= 0x80
    return bytes(out)


def getint(n):
    if n > 0x7fffffff:
        return 0x7fffffff
    if n < -0x80000000:
        return -0x80000000
    return n


def check_minimal_push(data, opcode):
    n = len(data)
    if n == 0:
        return opcode == OP_0
    if n == 1 and 1 <= data[0] <= 16:
        return False
    if n == 1 and data[0] == 0x81:
        return False
    if n <= 75:
        return opcode == n
    if n <= 255:
        return opcode == OP_PUSHDATA1
    if n <= 65535:
        return opcode == OP_PUSHDATA2
    return True


# --------------------------------------------------------------------------------- signatures and keys

def is_valid_signature_encoding(sig):
    n = len(sig)
    if n < 9 or n > 73:
        return False
    if sig[0] != 0x30:
        return False
    if sig[1] != n - 3:
        return False
    len_r = sig[3]
    if 5 + len_r >= n:
        return False
    len_s = sig[5 + len_r]
    if len_r + len_s + 7 != n:
        return False
    if sig[2] != 0x02:
        return False
    if len_r == 0:
        return False
    if sig[4] & 0x80:
        return False
    if len_r > 1 and sig[4] == 0 and not (sig[5] & 0x80):
        return False
    if sig[len_r + 4] != 0x02:
        return False
    if len_s == 0:
        return False
    if sig[len_r + 6] & 0x80:
        return False
    if len_s > 1 and sig[len_r + 6] == 0 and not (sig[len_r + 7] & 0x80):
        return False
    return True


N = refec.SECP256K1.n
P = refec.SECP256K1.p


def parse_der_lax(inp):
    """ecdsa_signature_parse_der_lax: returns (r, s) (possibly zeroed on overflow) or None"""
    n = len(inp)
    pos = 0
    if pos == n or inp[pos] != 0x30:
        return None
    pos += 1
    if pos == n:
        return None
    lenbyte = inp[pos]
    pos += 1
    if lenbyte & 0x80:
        lenbyte -= 0x80
        if lenbyte > n - pos:
            return None
        pos += lenbyte

    def read_int(pos):
        if pos == n or inp[pos] != 0x02:
            return None
        pos += 1
        if pos == n:
            return None
        lenbyte = inp[pos]
        pos += 1
        if lenbyte & 0x80:
            lenbyte -= 0x80
            if lenbyte > n - pos:
                return None
            while lenbyte > 0 and inp[pos] == 0:
                pos += 1
                lenbyte -= 1
            if lenbyte >= 4:
                return None
            ln = 0
            while lenbyte > 0:
                ln = (ln << 8) + inp[pos]
                pos += 1
                lenbyte -= 1
        else:
            ln = lenbyte
        if ln > n - pos:
            return None
        return pos, ln

    t = read_int(pos)
    if t is None:
        return None
    rpos, rlen = t
    t = read_int(rpos + rlen)
    if t is None:
        return None
    spos, slen = t
    while rlen > 0 and inp[rpos] == 0:
        rlen -= 1
        rpos += 1
    overflow = rlen > 32
    r = int.from_bytes(inp[rpos:rpos + rlen], "big") if not overflow else 0
    while slen > 0 and inp[spos] == 0:
        slen -= 1
        spos += 1
    if slen > 32:
        overflow = True
    s = int.from_bytes(inp[spos:spos + slen], "big") if not overflow else 0
    if not overflow and (r >= N or s >= N):
        overflow = True
    if overflow:
        return 0, 0
    return r, s


def is_low_der_signature(sig):
    """CPubKey::CheckLowS on sig without hash type byte (the caller already checked strict DER)"""
    rs = parse_der_lax(sig[:-1])
    if rs is None:
        return False
    return rs[1] <= N // 2


def check_signature_encoding(sig, flags):
    if len(sig) == 0:
        return
    if flags & (DERSIG | LOW_S | STRICTENC) and not is_valid_signature_encoding(sig):
        raise ScriptFail("SIG_DER")
    if flags & LOW_S and not is_low_der_signature(sig):
        raise ScriptFail("SIG_HIGH_S")
    if flags & STRICTENC:
        ht = sig[-1] & ~0x80
        if ht < 1 or ht > 3:
            raise ScriptFail("SIG_HASHTYPE")


def is_compressed_or_uncompressed_pubkey(k):
    if len(k) < 33:
        return False
    if k[0] == 0x04:
        return len(k) == 65
    if k[0] in (2, 3):
        return len(k) == 33
    return False


def is_compressed_pubkey(k):
    return len(k) == 33 and k[0] in (2, 3)


def check_pubkey_encoding(k, flags, sigversion):
    if flags & STRICTENC and not is_compressed_or_uncompressed_pubkey(k):
        raise ScriptFail("PUBKEYTYPE")
    if flags & WITNESS_PUBKEYTYPE and sigversion == WITNESS_V0 and not is_compressed_pubkey(k):
        raise ScriptFail("WITNESS_PUBKEYTYPE")


_PK_CACHE = {}


def parse_pubkey(k):
    """CPubKey(k).IsValid() and secp256k1_ec_pubkey_parse: returns point or None"""
    k = bytes(k)
    if k in _PK_CACHE:
        return _PK_CACHE[k]
    c = refec.SECP256K1
    pt = None
    if len(k) == 33 and k[0] in (2, 3):
        x = int.from_bytes(k[1:], "big")
        if x < P:
            ys = c.ys_for_x(x)
            if ys:
                y = [v for v in ys if (v & 1) == (k[0] & 1)]
                if y:
                    pt = (x, y[0])
    elif len(k) == 65 and k[0] in (4, 6, 7):
        x = int.from_bytes(k[1:33], "big")
        y = int.from_bytes(k[33:], "big")
        if x < P and y < P and c.on_curve((x, y)):
            if k[0] == 4 or (y & 1) == (k[0] & 1):
                pt = (x, y)
    if len(_PK_CACHE) < 4096:
        _PK_CACHE[k] = pt
    return pt


def ecdsa_verify(pt, z, r, s):
    """textbook verification on secp256k1; z is the 256-bit digest as a big-endian integer"""
    if not (1 <= r < N and 1 <= s < N):
        return False
    c = refec.SECP256K1
    si = pow(s, -1, N)
    R = c.add(c.mul_fast(z * si % N, c.G), c.mul_fast(r * si % N, pt))
    if R is None:
        return False
    return R[0] % N == r


class TxChecker:
    """TransactionSignatureChecker over a refsighash-style tx dict.

    sighash_mode: "btc" | ("forkid", id) | "grs".  For fork-id coins the fork-id digest is used for both
    sigversions and hash types without SIGHASH_FORKID can never verify."""

    def __init__(self, tx, n_in, amount, sighash_mode="btc"):
        self.tx, self.n_in, self.amount, self.mode = tx, n_in, amount, sighash_mode
        self.sighash_calls = []
        self.sig_checks = []         # (r, low s, hash type, digest) per signature whose digest was computed
        self.sig_results = []        # (hash type, digest, verified) per attempted verification, for coverage labels

    def sighash(self, script_code, hash_type, sigversion):
        m = self.mode
        if m == "btc":
            if sigversion == WITNESS_V0:
                return refsighash.bip143(self.tx, self.n_in, script_code, self.amount, hash_type)
            return refsighash.legacy(self.tx, self.n_in, script_code, hash_type)
        if m == "grs":
            if sigversion == WITNESS_V0:
                return refsighash.bip143(self.tx, self.n_in, script_code, self.amount, hash_type, refsighash.sha256)
            return refsighash.legacy(self.tx, self.n_in, script_code, hash_type, refsighash.sha256)
        if m[0] == "forkid":
            return refsighash.forkid(self.tx, self.n_in, script_code, self.amount, hash_type, m[1])
        raise AssertionError(m)

    def check_sig(self, sig, pubkey, script_code, sigversion, ctx):
        pt = parse_pubkey(pubkey)
        if pt is None:
            return False
        if not sig:
            return False
        hash_type = sig[-1]
        rs = parse_der_lax(sig[:-1])
        if rs is None:
            return False
        r, s = rs
        if s > N // 2:
            s = N - s
        z = self.sighash(script_code, hash_type, sigversion)
        self.sighash_calls.append((hash_type, z))
        self.sig_checks.append((r, s, hash_type, z))
        if z is None:
            return False
        ok = ecdsa_verify(pt, z, r, s)
        self.sig_results.append((hash_type, z, ok))
        return ok

    def check_locktime(self, n):
        lt = self.tx["locktime"]
        if not ((lt < LOCKTIME_THRESHOLD and n < LOCKTIME_THRESHOLD) or (lt >= LOCKTIME_THRESHOLD and n >= LOCKTIME_THRESHOLD)):
            return False
        if n > lt:
            return False
        if self.tx["ins"][self.n_in]["sequence"] == SEQUENCE_FINAL:
            return False
        return True

    def check_sequence(self, n):
        seq = self.tx["ins"][self.n_in]["sequence"]
        if (self.tx["version"] & 0xffffffff) < 2:
            return False
        if seq & SEQUENCE_LOCKTIME_DISABLE_FLAG:
            return False
        mask = SEQUENCE_LOCKTIME_TYPE_FLAG | SEQUENCE_LOCKTIME_MASK
        a, b = seq & mask, n & mask
        if not ((a < SEQUENCE_LOCKTIME_TYPE_FLAG and b < SEQUENCE_LOCKTIME_TYPE_FLAG) or
                (a >= SEQUENCE_LOCKTIME_TYPE_FLAG and b >= SEQUENCE_LOCKTIME_TYPE_FLAG)):
            return False
        if b > a:
            return False
        return True


class NullChecker:
    """BaseSignatureChecker: every check fails"""

    def check_sig(self, sig, pubkey, script_code, sigversion, ctx):
        return False

    def check_locktime(self, n):
        return False

    def check_sequence(self, n):
        return False


# --------------------------------------------------------------------------------- EvalScript


def eval_script(stack, script, flags, checker, sigversion, ctx):
    """mutates stack; raises ScriptFail"""
    if len(script) > MAX_SCRIPT_SIZE:
        raise ScriptFail("SCRIPT_SIZE")
    pc = 0
    pend = len(script)
    begincodehash = 0
    vf_exec = []
    altstack = []
    n_op = 0
    req_min = bool(flags & MINIMALDATA)

    def need(k):
        if len(stack) < k:
            raise ScriptFail("INVALID_STACK_OPERATION")

    def num(v, max_size=4):
        return scriptnum_decode(v, req_min, max_size)

    while pc < pend:
        f_exec = False not in vf_exec
        r = get_op(script, pc)
        if r is None:
            raise ScriptFail("BAD_OPCODE")
        opcode, data, pc = r
        if data is not None and len(data) > MAX_SCRIPT_ELEMENT_SIZE:
            raise ScriptFail("PUSH_SIZE")
        if opcode > OP_16:
            n_op += 1
            if n_op > MAX_OPS_PER_SCRIPT:
                raise ScriptFail("OP_COUNT")
        if opcode in DISABLED:
            raise ScriptFail("DISABLED_OPCODE")

        if f_exec and opcode <= OP_PUSHDATA4:
            if req_min and not check_minimal_push(data, opcode):
                raise ScriptFail("MINIMALDATA")
            stack.append(data)
        elif f_exec or (OP_IF <= opcode <= OP_ENDIF):
            if f_exec:
                ctx.executed.append(opcode)
            if opcode == OP_1NEGATE or OP_1 <= opcode <= OP_16:
                stack.append(scriptnum_encode(opcode - (OP_1 - 1)))
            elif opcode == OP_NOP:
                pass
            elif opcode == OP_CHECKLOCKTIMEVERIFY:
                if not flags & CHECKLOCKTIMEVERIFY:
                    if flags & DISCOURAGE_UPGRADABLE_NOPS:
                        ctx.either = True
                else:
                    need(1)
                    n = num(stack[-1], 5)
                    if n < 0:
                        raise ScriptFail("NEGATIVE_LOCKTIME")
                    if not checker.check_locktime(n):
                        raise ScriptFail("UNSATISFIED_LOCKTIME")
            elif opcode == OP_CHECKSEQUENCEVERIFY:
                if not flags & CHECKSEQUENCEVERIFY:
                    if flags & DISCOURAGE_UPGRADABLE_NOPS:
                        ctx.either = True
                else:
                    need(1)
                    n = num(stack[-1], 5)
                    if n < 0:
                        raise ScriptFail("NEGATIVE_LOCKTIME")
                    if n & SEQUENCE_LOCKTIME_DISABLE_FLAG == 0:
                        if not checker.check_sequence(n):
                            raise ScriptFail("UNSATISFIED_LOCKTIME")
            elif opcode in (OP_NOP1, OP_NOP4, OP_NOP5, OP_NOP6, OP_NOP7, OP_NOP8, OP_NOP9, OP_NOP10):
                if flags & DISCOURAGE_UPGRADABLE_NOPS:
                    raise ScriptFail("DISCOURAGE_UPGRADABLE_NOPS")
            elif opcode in (OP_IF, OP_NOTIF):
                value = False
                if f_exec:
                    if len(stack) < 1:
                        raise ScriptFail("UNBALANCED_CONDITIONAL")
                    v = stack[-1]
                    if sigversion == WITNESS_V0 and flags & MINIMALIF:
                        if len(v) > 1:
                            raise ScriptFail("MINIMALIF")
                        if len(v) == 1 and v[0] != 1:
                            raise ScriptFail("MINIMALIF")
                    value = cast_to_bool(v)
                    if opcode == OP_NOTIF:
                        value = not value
                    stack.pop()
                vf_exec.append(value)
            elif opcode == OP_ELSE:
                if not vf_exec:
                    raise ScriptFail("UNBALANCED_CONDITIONAL")
                vf_exec[-1] = not vf_exec[-1]
            elif opcode == OP_ENDIF:
                if not vf_exec:
                    raise ScriptFail("UNBALANCED_CONDITIONAL")
                vf_exec.pop()
            elif opcode == OP_VERIFY:
                need(1)
                if cast_to_bool(stack[-1]):
                    stack.pop()
                else:
                    raise ScriptFail("VERIFY")
            elif opcode == OP_RETURN:
                raise ScriptFail("OP_RETURN")
            elif opcode == OP_TOALTSTACK:
                need(1)
                altstack.append(stack.pop())
            elif opcode == OP_FROMALTSTACK:
                if len(altstack) < 1:
                    raise ScriptFail("INVALID_ALTSTACK_OPERATION")
                stack.append(altstack.pop())
            elif opcode == OP_2DROP:
                need(2)
                stack.pop()
                stack.pop()
            elif opcode == OP_2DUP:
                need(2)
                stack.extend([stack[-2], stack[-1]])
            elif opcode == OP_3DUP:
                need(3)
                stack.extend([stack[-3], stack[-2], stack[-1]])
            elif opcode == OP_2OVER:
                need(4)
                stack.extend([stack[-4], stack[-3]])
            elif opcode == OP_2ROT:
                need(6)
                a, b = stack[-6], stack[-5]
                del stack[-6:-4]
                stack.extend([a, b])
            elif opcode == OP_2SWAP:
                need(4)
                stack[-4], stack[-2] = stack[-2], stack[-4]
                stack[-3], stack[-1] = stack[-1], stack[-3]
            elif opcode == OP_IFDUP:
                need(1)
                v = stack[-1]
                dup = cast_to_bool(v)
                if ctx.on("ifdup-bytes-truthiness") and dup != bool(v):
                    ctx.fire("ifdup-bytes-truthiness")
                    dup = bool(v)
                if dup:
                    stack.append(v)
            elif opcode == OP_DEPTH:
                stack.append(scriptnum_encode(len(stack)))
            elif opcode == OP_DROP:
                need(1)
                stack.pop()
            elif opcode == OP_DUP:
                need(1)
                stack.append(stack[-1])
            elif opcode == OP_NIP:
                need(2)
                del stack[-2]
            elif opcode == OP_OVER:
                need(2)
                stack.append(stack[-2])
            elif opcode in (OP_PICK, OP_ROLL):
                need(2)
                n = getint(num(stack[-1]))
                stack.pop()
                if n < 0 or n >= len(stack):
                    raise ScriptFail("INVALID_STACK_OPERATION")
                v = stack[-n - 1]
                if opcode == OP_ROLL:
                    del stack[-n - 1]
                stack.append(v)
            elif opcode == OP_ROT:
                need(3)
                stack[-3], stack[-2] = stack[-2], stack[-3]
                stack[-2], stack[-1] = stack[-1], stack[-2]
            elif opcode == OP_SWAP:
                need(2)
                stack[-2], stack[-1] = stack[-1], stack[-2]
            elif opcode == OP_TUCK:
                need(2)
                stack.insert(len(stack) - 2, stack[-1])
            elif opcode == OP_SIZE:
                need(1)
                stack.append(scriptnum_encode(len(stack[-1])))
            elif opcode in (OP_EQUAL, OP_EQUALVERIFY):
                need(2)
                eq = stack[-2] == stack[-1]
                stack.pop()
                stack.pop()
                stack.append(b"\x01" if eq else b"")
                if opcode == OP_EQUALVERIFY:
                    if eq:
                        stack.pop()
                    else:
                        raise ScriptFail("EQUALVERIFY")
            elif opcode in (OP_1ADD, OP_1SUB, OP_NEGATE, OP_ABS, OP_NOT, OP_0NOTEQUAL):
                need(1)
                bn = num(stack[-1])
                if opcode == OP_1ADD:
                    bn += 1
                elif opcode == OP_1SUB:
                    bn -= 1
                elif opcode == OP_NEGATE:
                    bn = -bn
                elif opcode == OP_ABS:
                    bn = abs(bn)
                elif opcode == OP_NOT:
                    bn = int(bn == 0)
                else:
                    bn = int(bn != 0)
                stack.pop()
                stack.append(scriptnum_encode(bn))
            elif OP_ADD <= opcode <= OP_MAX and opcode not in DISABLED:
                need(2)
                a = num(stack[-2])
                b = num(stack[-1])
                if opcode == OP_ADD:
                    bn = a + b
                elif opcode == OP_SUB:
                    bn = a - b
                elif opcode == OP_BOOLAND:
                    bn = int(a != 0 and b != 0)
                elif opcode == OP_BOOLOR:
                    bn = int(a != 0 or b != 0)
                elif opcode in (OP_NUMEQUAL, OP_NUMEQUALVERIFY):
                    bn = int(a == b)
                elif opcode == OP_NUMNOTEQUAL:
                    bn = int(a != b)
                elif opcode == OP_LESSTHAN:
                    bn = int(a < b)
                elif opcode == OP_GREATERTHAN:
                    bn = int(a > b)
                elif opcode == OP_LESSTHANOREQUAL:
                    bn = int(a <= b)
                elif opcode == OP_GREATERTHANOREQUAL:
                    bn = int(a >= b)
                elif opcode == OP_MIN:
                    bn = min(a, b)
                elif opcode == OP_MAX:
                    bn = max(a, b)
                else:
                    raise AssertionError(opcode)
                stack.pop()
                stack.pop()
                stack.append(scriptnum_encode(bn))
                if opcode == OP_NUMEQUALVERIFY:
                    if cast_to_bool(stack[-1]):
                        stack.pop()
                    else:
                        raise ScriptFail("NUMEQUALVERIFY")
            elif opcode == OP_WITHIN:
                need(3)
                a = num(stack[-3])
                lo = num(stack[-2])
                hi = num(stack[-1])
                v = lo <= a < hi
                del stack[-3:]
                stack.append(b"\x01" if v else b"")
            elif opcode in (OP_RIPEMD160, OP_SHA1, OP_SHA256, OP_HASH160, OP_HASH256):
                need(1)
                v = stack.pop()
                if opcode == OP_RIPEMD160:
                    h = ripemd160(v)
                elif opcode == OP_SHA1:
                    h = hashlib.sha1(v).digest()
                elif opcode == OP_SHA256:
                    h = hashlib.sha256(v).digest()
                elif opcode == OP_HASH160:
                    h = ripemd160(hashlib.sha256(v).digest())
                else:
                    h = hashlib.sha256(hashlib.sha256(v).digest()).digest()
                stack.append(h)
            elif opcode == OP_CODESEPARATOR:
                begincodehash = pc
            elif opcode in (OP_CHECKSIG, OP_CHECKSIGVERIFY):
                need(2)
                sig, pubkey = stack[-2], stack[-1]
                script_code = script[begincodehash:pend]
                if sigversion == BASE:
                    script_code, _ = find_and_delete(script_code, push_encoding(sig))
                check_signature_encoding(sig, flags)
                check_pubkey_encoding(pubkey, flags, sigversion)
                ok = checker.check_sig(sig, pubkey, script_code, sigversion, ctx)
                if not ok and flags & NULLFAIL and len(sig):
                    raise ScriptFail("NULLFAIL")
                stack.pop()
                stack.pop()
                stack.append(b"\x01" if ok else b"")
                if opcode == OP_CHECKSIGVERIFY:
                    if ok:
                        stack.pop()
                    else:
                        raise ScriptFail("CHECKSIGVERIFY")
            elif opcode in (OP_CHECKMULTISIG, OP_CHECKMULTISIGVERIFY):
                i = 1
                need(i)
                n_keys = getint(num(stack[-i]))
                if n_keys < 0 or n_keys > MAX_PUBKEYS_PER_MULTISIG:
                    raise ScriptFail("PUBKEY_COUNT")
                n_op += n_keys
                if n_op > MAX_OPS_PER_SCRIPT:
                    raise ScriptFail("OP_COUNT")
                i += 1
                ikey = i
                ikey2 = n_keys + 2
                i += n_keys
                need(i)
                n_sigs = getint(num(stack[-i]))
                if n_sigs < 0 or n_sigs > n_keys:
                    raise ScriptFail("SIG_COUNT")
                i += 1
                isig = i
                i += n_sigs
                need(i)
                script_code = script[begincodehash:pend]
                for k in range(n_sigs):
                    if sigversion == BASE:
                        script_code, _ = find_and_delete(script_code, push_encoding(stack[-isig - k]))
                success = True
                while success and n_sigs > 0:
                    sig = stack[-isig]
                    pubkey = stack[-ikey]
                    check_signature_encoding(sig, flags)
                    check_pubkey_encoding(pubkey, flags, sigversion)
                    if checker.check_sig(sig, pubkey, script_code, sigversion, ctx):
                        isig += 1
                        n_sigs -= 1
                    ikey += 1
                    n_keys -= 1
                    if n_sigs > n_keys:
                        success = False
                while i > 1:
                    i -= 1
                    if not success and flags & NULLFAIL and not ikey2 and len(stack[-1]):
                        raise ScriptFail("NULLFAIL")
                    if ikey2 > 0:
                        ikey2 -= 1
                    stack.pop()
                need(1)
                if flags & NULLDUMMY and len(stack[-1]):
                    raise ScriptFail("SIG_NULLDUMMY")
                stack.pop()
                stack.append(b"\x01" if success else b"")
                if opcode == OP_CHECKMULTISIGVERIFY:
                    if success:
                        stack.pop()
                    else:
                        raise ScriptFail("CHECKMULTISIGVERIFY")
            else:
                raise ScriptFail("BAD_OPCODE")
        if len(stack) + len(altstack) > MAX_STACK_SIZE:
            raise ScriptFail("STACK_SIZE")
    if vf_exec:
        raise ScriptFail("UNBALANCED_CONDITIONAL")


# --------------------------------------------------------------------------------- VerifyScript


def is_push_only(script):
    pc = 0
    while pc < len(script):
        r = get_op(script, pc)
        if r is None:
            return False
        if r[0] > OP_16:
            return False
        pc = r[2]
    return True


def is_p2sh(script):
    return len(script) == 23 and script[0] == OP_HASH160 and script[1] == 0x14 and script[22] == OP_EQUAL


def witness_program(script):
    """(version, program) or None"""
    if len(script) < 4 or len(script) > 42:
        return None
    if script[0] != OP_0 and (script[0] < OP_1 or script[0] > OP_16):
        return None
    if script[1] + 2 == len(script):
        return (0 if script[0] == OP_0 else script[0] - OP_1 + 1), bytes(script[2:])
    return None


def verify_witness_program(witness, version, program, flags, checker, ctx):
    if version == 0:
        if len(program) == 32:
            if len(witness) == 0:
                raise ScriptFail("WITNESS_PROGRAM_WITNESS_EMPTY")
            script = witness[-1]
            stack = list(witness[:-1])
            if hashlib.sha256(script).digest() != program:
                raise ScriptFail("WITNESS_PROGRAM_MISMATCH")
        elif len(program) == 20:
            if len(witness) != 2:
                raise ScriptFail("WITNESS_PROGRAM_MISMATCH")
            script = bytes([OP_DUP, OP_HASH160, 20]) + program + bytes([OP_EQUALVERIFY, OP_CHECKSIG])
            stack = list(witness)
        else:
            raise ScriptFail("WITNESS_PROGRAM_WRONG_LENGTH")
    elif flags & DISCOURAGE_UPGRADABLE_WITNESS_PROGRAM:
        raise ScriptFail("DISCOURAGE_UPGRADABLE_WITNESS_PROGRAM")
    else:
        return
    for item in stack:
        if len(item) > MAX_SCRIPT_ELEMENT_SIZE:
            raise ScriptFail("PUSH_SIZE")
    eval_script(stack, script, flags, checker, WITNESS_V0, ctx)
    if len(stack) != 1:
        raise ScriptFail("EVAL_FALSE")
    if not cast_to_bool(stack[-1]):
        raise ScriptFail("EVAL_FALSE")


def verify_script(script_sig, script_pubkey, witness, flags, checker, ctx):
    """raises ScriptFail, returns None on success"""
    if flags & SIGPUSHONLY and not is_push_only(script_sig):
        raise ScriptFail("SIG_PUSHONLY")
    stack = []
    eval_script(stack, script_sig, flags, checker, BASE, ctx)
    stack_copy = list(stack) if flags & P2SH else None
    eval_script(stack, script_pubkey, flags, checker, BASE, ctx)
    if not stack:
        raise ScriptFail("EVAL_FALSE")
    if not cast_to_bool(stack[-1]):
        raise ScriptFail("EVAL_FALSE")
    had_witness = False
    if flags & WITNESS:
        wp = witness_program(script_pubkey)
        if wp is not None:
            had_witness = True
            if len(script_sig) != 0:
                raise ScriptFail("WITNESS_MALLEATED")
            verify_witness_program(witness, wp[0], wp[1], flags, checker, ctx)
            del stack[1:]
    if flags & P2SH and is_p2sh(script_pubkey):
        if not is_push_only(script_sig):
            raise ScriptFail("SIG_PUSHONLY")
        stack = stack_copy
        assert stack
        pubkey2 = stack.pop()
        eval_script(stack, pubkey2, flags, checker, BASE, ctx)
        if not stack:
            raise ScriptFail("EVAL_FALSE")
        if not cast_to_bool(stack[-1]):
            raise ScriptFail("EVAL_FALSE")
        if flags & WITNESS:
            wp = witness_program(pubkey2)
            if wp is not None:
                had_witness = True
                if script_sig != push_encoding(pubkey2):
                    raise ScriptFail("WITNESS_MALLEATED_P2SH")
                verify_witness_program(witness, wp[0], wp[1], flags, checker, ctx)
                del stack[1:]
    if flags & CLEANSTACK:
        # Core asserts P2SH and WITNESS here (its callers only pass allowed combinations); the repo's older
        # vectors use CLEANSTACK with P2SH alone, so the model evaluates the rule for whatever it is given
        if len(stack) != 1:
            raise ScriptFail("CLEANSTACK")
    if flags & WITNESS:
        if not had_witness and len(witness) > 0:
            raise ScriptFail("WITNESS_UNEXPECTED")


def run_verify(script_sig, script_pubkey, witness, flags, checker, dev=frozenset()):
    """returns (verdict, err, ctx)"""
    ctx = Ctx(dev)
    try:
        verify_script(script_sig, script_pubkey, witness, flags, checker, ctx)
    except ScriptFail as e:
        return (EITHER if ctx.either else FAIL), e.err, ctx
    return (EITHER if ctx.either else OK), None, ctx


def run_eval(script, flags, checker, initial_stack=(), sigversion=BASE, dev=frozenset()):
    """returns (verdict, err, stack, ctx)"""
    ctx = Ctx(dev)
    stack = list(initial_stack)
    try:
        eval_script(stack, script, flags, checker, sigversion, ctx)
    except ScriptFail as e:
        return (EITHER if ctx.either else FAIL), e.err, None, ctx
    return (EITHER if ctx.either else OK), None, stack, ctx
