"""Reference script-number and push-encoding rules, written from Bitcoin Core's script.h / interpreter.cpp.
Imports nothing from pycoin.

  CScriptNum::serialize          -> serialize(v)
  CScriptNum::set_vch            -> decode(vch)
  CScriptNum(vch, fRequireMinimal) minimality test -> is_minimal(vch)
  CScript::operator<<(vector)    -> the opcode the *writer* chooses by length          -> push_by_length(data)
  CheckMinimalPush(data, opcode) -> which encodings the MINIMALDATA rule accepts        -> check_minimal_push
  minimal_push(data)             -> the single encoding that CheckMinimalPush accepts
  CScript::GetOp                 -> get_op(script, pc)
"""

OP_0 = 0x00
OP_PUSHDATA1 = 0x4c
OP_PUSHDATA2 = 0x4d
OP_PUSHDATA4 = 0x4e
OP_1NEGATE = 0x4f
OP_1 = 0x51
OP_16 = 0x60


def serialize(v: int) -> bytes:
    """CScriptNum::serialize (script.h): little-endian magnitude, sign in bit 7 of the last byte"""
    if v == 0:
        return b""
    result = bytearray()
    neg = v < 0
    absvalue = -v if neg else v
    while absvalue:
        result.append(absvalue & 0xff)
        absvalue >>= 8
    # - If the most significant byte is >= 0x80 and the value is positive, push a new zero-byte
    # - If the most significant byte is >= 0x80 and the value is negative, push a new 0x80 byte
    # - Otherwise, if negative, set the sign bit of the most significant byte
    if result[-1] & 0x80:
        result.append(0x80 if neg else 0)
    elif neg:
        result[-1] |= 0x80
    return bytes(result)


def decode(vch: bytes) -> int:
    """CScriptNum::set_vch without the size limit (arbitrary precision)"""
    if len(vch) == 0:
        return 0
    result = 0
    for i, b in enumerate(vch):
        result |= b << (8 * i)
    if vch[-1] & 0x80:
        return -(result & ~(0x80 << (8 * (len(vch) - 1))))
    return result


def is_minimal(vch: bytes) -> bool:
    """the fRequireMinimal test in CScriptNum's constructor"""
    if len(vch) > 0:
        # the most-significant-byte, excluding the sign bit, must not be zero ...
        if (vch[-1] & 0x7f) == 0:
            # ... unless the second-most-significant byte has its high bit set (the sign byte is needed)
            if len(vch) <= 1 or (vch[-2] & 0x80) == 0:
                return False
    return True


def check_minimal_push(data: bytes, opcode: int) -> bool:
    """CheckMinimalPush (interpreter.cpp)"""
    assert 0 <= opcode <= OP_PUSHDATA4
    if len(data) == 0:
        return opcode == OP_0
    if len(data) == 1 and 1 <= data[0] <= 16:
        return False                      # should have used OP_1 .. OP_16
    if len(data) == 1 and data[0] == 0x81:
        return False                      # should have used OP_1NEGATE
    if len(data) <= 75:
        return opcode == len(data)
    if len(data) <= 255:
        return opcode == OP_PUSHDATA1
    if len(data) <= 65535:
        return opcode == OP_PUSHDATA2
    return True


def push_with(opcode: int, data: bytes) -> bytes:
    """encode `data` with the given push opcode (caller picks one that can hold it)"""
    n = len(data)
    if opcode == OP_0:
        assert n == 0
        return b"\x00"
    if 1 <= opcode <= 75:
        assert n == opcode
        return bytes([opcode]) + data
    if opcode == OP_PUSHDATA1:
        assert n <= 0xff
        return bytes([opcode, n]) + data
    if opcode == OP_PUSHDATA2:
        assert n <= 0xffff
        return bytes([opcode]) + n.to_bytes(2, "little") + data
    if opcode == OP_PUSHDATA4:
        assert n <= 0xffffffff
        return bytes([opcode]) + n.to_bytes(4, "little") + data
    raise AssertionError(opcode)


def minimal_push(data: bytes) -> bytes:
    """the unique script fragment that pushes `data` and satisfies the MINIMALDATA rule"""
    n = len(data)
    if n == 0:
        return bytes([OP_0])
    if n == 1 and 1 <= data[0] <= 16:
        return bytes([OP_1 + data[0] - 1])
    if n == 1 and data[0] == 0x81:
        return bytes([OP_1NEGATE])
    if n <= 75:
        return push_with(n, data)
    if n <= 0xff:
        return push_with(OP_PUSHDATA1, data)
    if n <= 0xffff:
        return push_with(OP_PUSHDATA2, data)
    return push_with(OP_PUSHDATA4, data)


def push_forms(data: bytes):
    """every explicit-push encoding (opcode <= OP_PUSHDATA4) able to carry `data`: [(opcode, bytes)]"""
    n = len(data)
    out = []
    if n == 0:
        out.append((OP_0, push_with(OP_0, data)))
    if 1 <= n <= 75:
        out.append((n, push_with(n, data)))
    if n <= 0xff:
        out.append((OP_PUSHDATA1, push_with(OP_PUSHDATA1, data)))
    if n <= 0xffff:
        out.append((OP_PUSHDATA2, push_with(OP_PUSHDATA2, data)))
    out.append((OP_PUSHDATA4, push_with(OP_PUSHDATA4, data)))
    return out


def get_op(script: bytes, pc: int):
    """CScript::GetOp: (ok, opcode, data_or_None, new_pc).  ok False = ran off the end (malformed)."""
    if pc >= len(script):
        return False, None, None, pc
    opcode = script[pc]
    pc += 1
    if opcode <= OP_PUSHDATA4:
        if opcode < OP_PUSHDATA1:
            size = opcode
        else:
            w = {OP_PUSHDATA1: 1, OP_PUSHDATA2: 2, OP_PUSHDATA4: 4}[opcode]
            if len(script) - pc < w:
                return False, opcode, None, pc
            size = int.from_bytes(script[pc:pc + w], "little")
            pc += w
        if len(script) - pc < size:
            return False, opcode, None, pc
        return True, opcode, script[pc:pc + size], pc + size
    return True, opcode, None, pc


# opcode names from script.h (enum opcodetype), without the OP_FALSE / OP_TRUE aliases of OP_0 / OP_1.
# name -> byte; aliases OP_NOP2 / OP_NOP3 are the pre-BIP65 / pre-BIP112 names of the same bytes.
OPCODE_NAMES = {
    "OP_0": 0x00, "OP_PUSHDATA1": 0x4c, "OP_PUSHDATA2": 0x4d, "OP_PUSHDATA4": 0x4e, "OP_1NEGATE": 0x4f,
    "OP_RESERVED": 0x50,
    "OP_1": 0x51, "OP_2": 0x52, "OP_3": 0x53, "OP_4": 0x54, "OP_5": 0x55, "OP_6": 0x56, "OP_7": 0x57, "OP_8": 0x58,
    "OP_9": 0x59, "OP_10": 0x5a, "OP_11": 0x5b, "OP_12": 0x5c, "OP_13": 0x5d, "OP_14": 0x5e, "OP_15": 0x5f,
    "OP_16": 0x60,
    "OP_NOP": 0x61, "OP_VER": 0x62, "OP_IF": 0x63, "OP_NOTIF": 0x64, "OP_VERIF": 0x65, "OP_VERNOTIF": 0x66,
    "OP_ELSE": 0x67, "OP_ENDIF": 0x68, "OP_VERIFY": 0x69, "OP_RETURN": 0x6a,
    "OP_TOALTSTACK": 0x6b, "OP_FROMALTSTACK": 0x6c, "OP_2DROP": 0x6d, "OP_2DUP": 0x6e, "OP_3DUP": 0x6f,
    "OP_2OVER": 0x70, "OP_2ROT": 0x71, "OP_2SWAP": 0x72, "OP_IFDUP": 0x73, "OP_DEPTH": 0x74, "OP_DROP": 0x75,
    "OP_DUP": 0x76, "OP_NIP": 0x77, "OP_OVER": 0x78, "OP_PICK": 0x79, "OP_ROLL": 0x7a, "OP_ROT": 0x7b,
    "OP_SWAP": 0x7c, "OP_TUCK": 0x7d,
    "OP_CAT": 0x7e, "OP_SUBSTR": 0x7f, "OP_LEFT": 0x80, "OP_RIGHT": 0x81, "OP_SIZE": 0x82,
    "OP_INVERT": 0x83, "OP_AND": 0x84, "OP_OR": 0x85, "OP_XOR": 0x86, "OP_EQUAL": 0x87, "OP_EQUALVERIFY": 0x88,
    "OP_RESERVED1": 0x89, "OP_RESERVED2": 0x8a,
    "OP_1ADD": 0x8b, "OP_1SUB": 0x8c, "OP_2MUL": 0x8d, "OP_2DIV": 0x8e, "OP_NEGATE": 0x8f, "OP_ABS": 0x90,
    "OP_NOT": 0x91, "OP_0NOTEQUAL": 0x92, "OP_ADD": 0x93, "OP_SUB": 0x94, "OP_MUL": 0x95, "OP_DIV": 0x96,
    "OP_MOD": 0x97, "OP_LSHIFT": 0x98, "OP_RSHIFT": 0x99, "OP_BOOLAND": 0x9a, "OP_BOOLOR": 0x9b,
    "OP_NUMEQUAL": 0x9c, "OP_NUMEQUALVERIFY": 0x9d, "OP_NUMNOTEQUAL": 0x9e, "OP_LESSTHAN": 0x9f,
    "OP_GREATERTHAN": 0xa0, "OP_LESSTHANOREQUAL": 0xa1, "OP_GREATERTHANOREQUAL": 0xa2, "OP_MIN": 0xa3,
    "OP_MAX": 0xa4, "OP_WITHIN": 0xa5,
    "OP_RIPEMD160": 0xa6, "OP_SHA1": 0xa7, "OP_SHA256": 0xa8, "OP_HASH160": 0xa9, "OP_HASH256": 0xaa,
    "OP_CODESEPARATOR": 0xab, "OP_CHECKSIG": 0xac, "OP_CHECKSIGVERIFY": 0xad, "OP_CHECKMULTISIG": 0xae,
    "OP_CHECKMULTISIGVERIFY": 0xaf,
    "OP_NOP1": 0xb0, "OP_CHECKLOCKTIMEVERIFY": 0xb1, "OP_NOP2": 0xb1, "OP_CHECKSEQUENCEVERIFY": 0xb2,
    "OP_NOP3": 0xb2, "OP_NOP4": 0xb3, "OP_NOP5": 0xb4, "OP_NOP6": 0xb5, "OP_NOP7": 0xb6, "OP_NOP8": 0xb7,
    "OP_NOP9": 0xb8, "OP_NOP10": 0xb9,
    "OP_INVALIDOPCODE": 0xff,
}
# single-byte instructions that are not pushes of following data (everything a "script of known opcodes" may hold)
KNOWN_NONPUSH_BYTES = sorted({b for b in OPCODE_NAMES.values() if b == 0 or b > OP_PUSHDATA4})


def _calibrate():
    # values quoted in Core's script_tests / scriptnum_tests and the BIP62 text
    vec = {0: "", 1: "01", -1: "81", 127: "7f", -127: "ff", 128: "8000", -128: "8080", 255: "ff00", -255: "ff80",
           256: "0001", -256: "0081", 32767: "ff7f", -32767: "ffff", 32768: "008000", -32768: "008080",
           2147483647: "ffffff7f", -2147483647: "ffffffff", 2147483648: "0000008000", -2147483648: "0000008080",
           0x7fffffffffffffff: "ffffffffffffff7f", -0x7fffffffffffffff: "ffffffffffffffff"}
    for v, h in vec.items():
        assert serialize(v).hex() == h, (v, serialize(v).hex())
        assert decode(bytes.fromhex(h)) == v and is_minimal(bytes.fromhex(h))
    # non-minimal forms from script_tests.json MINIMALDATA section
    for h in ("00", "80", "0000", "0100", "0180", "000080", "ff0000"):
        assert not is_minimal(bytes.fromhex(h)), h
    assert decode(b"\x80") == 0 and decode(b"\x00") == 0 and decode(bytes.fromhex("0100")) == 1
    assert decode(bytes.fromhex("0180")) == -1
    for v in range(-70000, 70000, 7):
        s = serialize(v)
        assert decode(s) == v and is_minimal(s)
    # pushes (script_tests.json: "0x4c 0x01 0x07" is non-minimal, "0x4d 0x0001 ..." for 256 bytes is minimal)
    assert minimal_push(b"") == b"\x00" and minimal_push(b"\x07") == b"\x57" and minimal_push(b"\x81") == b"\x4f"
    assert minimal_push(b"\x00") == b"\x01\x00" and minimal_push(b"\x11") == b"\x01\x11"
    assert minimal_push(b"a" * 75)[:1] == b"\x4b" and minimal_push(b"a" * 76)[:2] == b"\x4c\x4c"
    assert minimal_push(b"a" * 255)[:2] == b"\x4c\xff" and minimal_push(b"a" * 256)[:3] == b"\x4d\x00\x01"
    assert minimal_push(b"a" * 65535)[:3] == b"\x4d\xff\xff" and minimal_push(b"a" * 65536)[:5] == b"\x4e\x00\x00\x01\x00"
    assert not check_minimal_push(b"\x07", 1) and not check_minimal_push(b"\x07", OP_PUSHDATA1)
    assert not check_minimal_push(b"", OP_PUSHDATA1) and check_minimal_push(b"", OP_0)
    for n in (0, 1, 2, 75, 76, 255, 256, 300):
        for fill in (b"\x00", b"\x05", b"\x81", b"\xaa"):
            d = fill * n
            forms = push_forms(d)
            mins = [enc for op, enc in forms if check_minimal_push(d, op)]
            mp = minimal_push(d)
            if mp[0] in (OP_1NEGATE,) or OP_1 <= mp[0] <= OP_16:
                assert mins == []      # only the OP_n form is minimal, and it is not an explicit push
            else:
                assert mins == [mp], (n, fill)
            for op, enc in forms:
                assert get_op(enc, 0) == (True, op, d, len(enc))
                for cut in range(1, len(enc)):
                    assert get_op(enc[:cut], 0)[0] is False
    assert len(KNOWN_NONPUSH_BYTES) == 1 + (0xb9 - 0x4f + 1) + 1


_calibrate()
