"""Reference serialiser for the Bitcoin wire formats, written with `struct` from the protocol documentation
(developer reference "P2P network" / "Transactions" / "Block headers", BIP37, BIP141/144, BIP152 field types).
Imports nothing from pycoin.

Model objects are plain dicts with `bytes` and `int` members:

    tx     = {"version", "ins": [{"prev": 32 bytes as on the wire, "index", "script", "sequence", "witness": [bytes]}],
              "outs": [{"value", "script"}], "lock_time"}
    header = {"version", "prev", "merkle", "time", "bits", "nonce"}            (80 bytes)
    addr   = {"services", "ip": 16 bytes (4-byte IPv4 is mapped to ::ffff:a.b.c.d), "port"}

The message encoders take the *declared* field list of the library's layout table (the field names are the
library's, the encodings are the protocol's): see MESSAGE_ENCODERS.
"""
import hashlib
import struct


def sha256d(b):
    return hashlib.sha256(hashlib.sha256(b).digest()).digest()


# ------------------------------------------------------------------------------------------- primitives


def compact_size(n):
    """CompactSize unsigned integer (protocol documentation, 'Variable length integer')"""
    if n < 0 or n > 0xFFFFFFFFFFFFFFFF:
        raise ValueError("compact size out of range")
    if n < 0xFD:
        return struct.pack("<B", n)
    if n <= 0xFFFF:
        return b"\xfd" + struct.pack("<H", n)
    if n <= 0xFFFFFFFF:
        return b"\xfe" + struct.pack("<I", n)
    return b"\xff" + struct.pack("<Q", n)


def var_str(b):
    return compact_size(len(b)) + b


def u8(v):
    return struct.pack("<B", v)


def u16be(v):
    return struct.pack(">H", v)


def u32(v):
    return struct.pack("<I", v)


def u64(v):
    return struct.pack("<Q", v)


def u48(v):
    """6-byte little-endian unsigned integer (BIP152 short transaction id)"""
    if not 0 <= v < 1 << 48:
        raise ValueError("u48 out of range")
    return struct.pack("<Q", v)[:6]


def h32(b):
    if len(b) != 32:
        raise ValueError("hash must be 32 bytes")
    return bytes(b)


class Reader:
    def __init__(self, data, pos=0):
        self.data = data
        self.pos = pos

    def take(self, n):
        if self.pos + n > len(self.data):
            raise ValueError("truncated")
        b = self.data[self.pos:self.pos + n]
        self.pos += n
        return b

    def fmt(self, f):
        return struct.unpack(f, self.take(struct.calcsize(f)))[0]

    def compact(self):
        v = self.fmt("<B")
        if v == 0xFD:
            return self.fmt("<H")
        if v == 0xFE:
            return self.fmt("<I")
        if v == 0xFF:
            return self.fmt("<Q")
        return v

    def var_str(self):
        return self.take(self.compact())


# ------------------------------------------------------------------------------------------- transactions


def has_witness(tx):
    return any(len(i.get("witness", ())) > 0 for i in tx["ins"])


def ser_txin(i):
    return h32(i["prev"]) + u32(i["index"]) + var_str(i["script"]) + u32(i["sequence"])


def ser_txout(o):
    return u64(o["value"]) + var_str(o["script"])


def ser_tx(tx, witness=True):
    """BIP144 extended form iff `witness` and some input has a non-empty witness stack; legacy form otherwise"""
    ext = witness and has_witness(tx)
    out = [u32(tx["version"])]
    if ext:
        out.append(b"\x00\x01")
    out.append(compact_size(len(tx["ins"])))
    out.extend(ser_txin(i) for i in tx["ins"])
    out.append(compact_size(len(tx["outs"])))
    out.extend(ser_txout(o) for o in tx["outs"])
    if ext:
        for i in tx["ins"]:
            w = i.get("witness", ())
            out.append(compact_size(len(w)))
            out.extend(var_str(item) for item in w)
    out.append(u32(tx["lock_time"]))
    return b"".join(out)


def ser_tx_legacy(tx):
    return ser_tx(tx, witness=False)


def txid(tx):
    """hex, in the conventional (reversed) display order"""
    return sha256d(ser_tx_legacy(tx))[::-1].hex()


def wtxid(tx):
    return sha256d(ser_tx(tx))[::-1].hex()


def parse_tx(r):
    """reference parser (used for calibration and for building expectations from known hex)"""
    if not isinstance(r, Reader):
        r = Reader(r)
    version = r.fmt("<I")
    n = r.compact()
    ext = False
    if n == 0:
        flag = r.fmt("<B")
        if flag != 1:
            raise ValueError("unknown segwit flag")
        ext = True
        n = r.compact()
    ins = []
    for _ in range(n):
        prev = r.take(32)
        index = r.fmt("<I")
        script = r.var_str()
        seq = r.fmt("<I")
        ins.append({"prev": prev, "index": index, "script": script, "sequence": seq, "witness": []})
    outs = []
    for _ in range(r.compact()):
        value = r.fmt("<Q")
        outs.append({"value": value, "script": r.var_str()})
    if ext:
        for i in ins:
            i["witness"] = [r.var_str() for _ in range(r.compact())]
    lock_time = r.fmt("<I")
    return {"version": version, "ins": ins, "outs": outs, "lock_time": lock_time}


# ------------------------------------------------------------------------------------------- pycoin-specific records
# (these two are not Bitcoin wire formats; they are specified by the docstrings / format strings' field
#  *meaning*: a TxOut followed by the outpoint and three bookkeeping integers)


def ser_spendable(sp):
    """value u64 | script var_str | tx_hash 32 | tx_out_index u32 | block_index_available compact |
    does_seem_spent 1 byte | block_index_spent compact"""
    return (u64(sp["value"]) + var_str(sp["script"]) + h32(sp["tx_hash"]) + u32(sp["tx_out_index"])
            + compact_size(sp["block_index_available"]) + u8(1 if sp["does_seem_spent"] else 0)
            + compact_size(sp["block_index_spent"]))


def ser_tx_with_unspents(tx, unspents):
    return ser_tx(tx) + b"".join(ser_txout(o) for o in unspents)


# ------------------------------------------------------------------------------------------- blocks


def ser_header(h):
    b = (u32(h["version"]) + h32(h["prev"]) + h32(h["merkle"]) + u32(h["time"]) + u32(h["bits"]) + u32(h["nonce"]))
    assert len(b) == 80
    return b


def header_hash(h):
    return sha256d(ser_header(h))


def merkle_root(hashes):
    """Bitcoin merkle root over 32-byte hashes (last one duplicated on odd levels)"""
    if not hashes:
        raise ValueError("no hashes")
    level = list(hashes)
    while len(level) > 1:
        if len(level) & 1:
            level.append(level[-1])
        level = [sha256d(level[i] + level[i + 1]) for i in range(0, len(level), 2)]
    return level[0]


def tx_hash(tx):
    return sha256d(ser_tx_legacy(tx))


def ser_block(header, txs):
    return ser_header(header) + compact_size(len(txs)) + b"".join(ser_tx(t) for t in txs)


def parse_header(r):
    if not isinstance(r, Reader):
        r = Reader(r)
    return {"version": r.fmt("<I"), "prev": r.take(32), "merkle": r.take(32), "time": r.fmt("<I"),
            "bits": r.fmt("<I"), "nonce": r.fmt("<I")}


def parse_block(data):
    r = Reader(data)
    h = parse_header(r)
    txs = [parse_tx(r) for _ in range(r.compact())]
    if r.pos != len(data):
        raise ValueError("trailing bytes")
    return h, txs


# ------------------------------------------------------------------------------------------- BIP37 partial merkle tree


def partial_merkle_tree(txids, matches):
    """BIP37 'Constructing a partial merkle tree object'.  txids: list of 32-byte hashes, matches: list of bool.
    returns (hashes in depth-first order, flag bytes)"""
    n = len(txids)
    assert n >= 1 and len(matches) == n
    height = 0
    while (n + (1 << height) - 1) >> height > 1:
        height += 1

    def width(h):
        return (n + (1 << h) - 1) >> h

    def calc(h, pos):
        if h == 0:
            return txids[pos]
        left = calc(h - 1, pos * 2)
        right = calc(h - 1, pos * 2 + 1) if pos * 2 + 1 < width(h - 1) else left
        return sha256d(left + right)

    bits, hashes = [], []

    def build(h, pos):
        parent = any(matches[p] for p in range(pos << h, min((pos + 1) << h, n)))
        bits.append(parent)
        if h == 0 or not parent:
            hashes.append(calc(h, pos))
        else:
            build(h - 1, pos * 2)
            if pos * 2 + 1 < width(h - 1):
                build(h - 1, pos * 2 + 1)

    build(height, 0)
    flags = bytearray((len(bits) + 7) // 8)
    for i, b in enumerate(bits):
        if b:
            flags[i // 8] |= 1 << (i % 8)
    return hashes, bytes(flags)


def partial_merkle_tree_bits(n, matches):
    """number of flag bits the BIP37 traversal of an n-leaf tree with these matches emits"""
    height = 0
    while (n + (1 << height) - 1) >> height > 1:
        height += 1
    count = 0

    def build(h, pos):
        nonlocal count
        count += 1
        if h and any(matches[p] for p in range(pos << h, min((pos + 1) << h, n))):
            build(h - 1, pos * 2)
            if pos * 2 + 1 < (n + (1 << (h - 1)) - 1) >> (h - 1):
                build(h - 1, pos * 2 + 1)
    build(height, 0)
    return count


# ------------------------------------------------------------------------------------------- p2p messages


def net_ip(ip):
    if len(ip) == 4:
        return b"\0" * 10 + b"\xff\xff" + ip
    if len(ip) != 16:
        raise ValueError("ip must be 4 or 16 bytes")
    return bytes(ip)


def ser_netaddr(a):
    """network address without the time prefix: services u64 LE | 16-byte IPv6/IPv4-mapped | port u16 big-endian"""
    return u64(a["services"]) + net_ip(a["ip"]) + u16be(a["port"])


def ser_inv(item):
    return u32(item["type"]) + h32(item["hash"])


def _arr(items, enc):
    return compact_size(len(items)) + b"".join(enc(x) for x in items)


def ser_alert_body(a):
    return (u32(a["version"]) + u64(a["relayUntil"]) + u64(a["expiration"]) + u32(a["id"]) + u32(a["cancel"])
            + _arr(a["setCancel"], u32) + u32(a["minVer"]) + u32(a["maxVer"]) + _arr(a["setSubVer"], var_str)
            + u32(a["priority"]) + var_str(a["comment"]) + var_str(a["statusBar"]) + var_str(a["reserved"]))


def m_version(f):
    b = (u32(f["version"]) + u64(f["services"]) + u64(f["timestamp"]) + ser_netaddr(f["remote_address"])
         + ser_netaddr(f["local_address"]) + u64(f["nonce"]) + var_str(f["subversion"]) + u32(f["last_block_index"]))
    if f["relay"] is not None:      # optional trailing bool (BIP37)
        b += u8(1 if f["relay"] else 0)
    return b


def m_empty(f):
    return b""


def m_addr(f):
    return _arr(f["date_address_tuples"], lambda t: u32(t[0]) + ser_netaddr(t[1]))


def m_inv(f):
    return _arr(f["items"], ser_inv)


def m_reject(f):
    return var_str(f["message"]) + u8(f["code"]) + var_str(f["reason"]) + h32(f["data"])


def m_getblocks(f):
    return u32(f["version"]) + _arr(f["hashes"], h32) + h32(f["hash_stop"])


def m_tx(f):
    return ser_tx(f["tx"])


def m_block(f):
    return ser_block(f["block"]["header"], f["block"]["txs"])


def m_headers(f):
    return _arr(f["headers"], lambda t: ser_header(t[0]) + compact_size(t[1]))


def m_feefilter(f):
    return u64(f["fee_filter_value"])


def m_sendcmpct(f):
    return u8(1 if f["enabled"] else 0) + u64(f["version"])


def m_cmpctblock(f):
    return (h32(f["header_hash"]) + u64(f["nonce"]) + _arr(f["short_ids"], u48)
            + _arr(f["prefilled_txs"], lambda t: compact_size(t[0]) + ser_tx(t[1])))


def m_getblocktxn(f):
    return h32(f["header_hash"]) + _arr(f["indices"], compact_size)


def m_blocktxn(f):
    return h32(f["header_hash"]) + _arr(f["txs"], ser_tx)


def m_nonce(f):
    return u64(f["nonce"])


def m_filterload(f):
    return (_arr(f["filter"], u8) + u32(f["hash_function_count"]) + u32(f["tweak"]) + u8(1 if f["flags"] else 0))


def m_filteradd(f):
    return _arr(f["data"], u8)


def m_merkleblock(f):
    return (ser_header(f["header"]) + u32(f["total_transactions"]) + _arr(f["hashes"], h32) + _arr(f["flags"], u8))


def m_alert(f):
    return var_str(f["payload"]) + var_str(f["signature"])


MESSAGE_ENCODERS = {
    "version": m_version,
    "verack": m_empty,
    "addr": m_addr,
    "inv": m_inv,
    "getdata": m_inv,
    "notfound": m_inv,
    "reject": m_reject,
    "getblocks": m_getblocks,
    "getheaders": m_getblocks,
    "sendheaders": m_empty,
    "tx": m_tx,
    "block": m_block,
    "headers": m_headers,
    "getaddr": m_empty,
    "mempool": m_empty,
    "feefilter": m_feefilter,
    "sendcmpct": m_sendcmpct,
    "cmpctblock": m_cmpctblock,
    "getblocktxn": m_getblocktxn,
    "blocktxn": m_blocktxn,
    "sendaddrv2": m_empty,
    "ping": m_nonce,
    "pong": m_nonce,
    "filterload": m_filterload,
    "filteradd": m_filteradd,
    "filterclear": m_empty,
    "merkleblock": m_merkleblock,
    "alert": m_alert,
}


# ------------------------------------------------------------------------------------------- calibration

GENESIS_HEADER = ("0100000000000000000000000000000000000000000000000000000000000000000000003ba3edfd7a7b12b27ac72c3e"
                  "67768f617fc81bc3888a51323a9fb8aa4b1e5e4a29ab5f49ffff001d1dac2b7c")
GENESIS_TX = ("01000000010000000000000000000000000000000000000000000000000000000000000000ffffffff4d04ffff001d0104455468"
              "652054696d65732030332f4a616e2f32303039204368616e63656c6c6f72206f6e206272696e6b206f66207365636f6e64206261"
              "696c6f757420666f722062616e6b73ffffffff0100f2052a01000000434104678afdb0fe5548271967f1a67130b7105cd6a828e0"
              "3909a67962e0ea1f61deb649f6bc3f4cef38c4f35504e51ec112de5c384df7ba0b8d578a4c702b6bf11d5fac00000000")

# /repo/tests/tx_test.py
TX_E1A18B = (
    "0100000001a8f57056b016d7d243fc0fc2a73f9146e7e4c7766ec6033b5ac4cb89c64e19d0000000008a4730440220251acb534ba1b8a2"
    "69260ad3fa80e075cd150d3ffba76ad20cd2e8178dee98b702202284f9c7eae3adfcf0857a901cd34f0ea338d5744caab88afad5797be6"
    "43f7b7014104af8385da9dc85aa153f16341a4015bc95e7ff57876b9bde40bd8450a5723a05c1c89ff2d85230d2e62c0c7690b8272cf85"
    "868a0a0fc02f99a5b793f22d5c7092ffffffff02bb5b0700000000001976a9145b78716d137e386ae2befc4296d938372559f37888acdd"
    "3c71000000000017a914c6572ee1c85a1b9ce1921753871bda0b5ce889ac8700000000")

# /repo/tests/validation_test.py (main-chain block 80974, three transactions)
BLOCK_80974 = (
    "010000007480150b299a16bbce5ccdb1d1bbc65cfc5893b01e6619107c552000000000007900a2b203d24c69710ab6a94beb"
    "937e1b1add64c2327e268d8c3e5f8b41dbed8796974ced66471b204c32470301000000010000000000000000000000000000"
    "000000000000000000000000000000000000ffffffff0804ed66471b024001ffffffff0100f2052a010000004341045fee68"
    "bab9915c4edca4c680420ed28bbc369ed84d48ac178e1f5f7eeac455bbe270daba06802145854b5e29f0a7f816e2df906e0f"
    "e4f6d5b4c9b92940e4f0edac000000000100000001f7b30415d1a7bf6db91cb2a272767c6799d721a4178aa328e0d77c199c"
    "b3b57f010000008a4730440220556f61b84f16e637836d2e74b8cb784de40c28fe3ef93ccb7406504ee9c7caa5022043bd47"
    "49d4f3f7f831ac696748ad8d8e79aeb4a1c539e742aa3256910fc88e170141049a414d94345712893a828de57b4c2054e2f5"
    "96cdca9d0b4451ba1ca5f8847830b9be6e196450e6abb21c540ea31be310271aa00a49ed0ba930743d1ed465bad0ffffffff"
    "0200e1f505000000001976a914529a63393d63e980ace6fa885c5a89e4f27aa08988acc0ada41a000000001976a9145d1797"
    "6537f308865ed533cccfdd76558ca3c8f088ac00000000010000000165148d894d3922ef5ffda962be26016635c933d470c8"
    "b0ab7618e869e3f70e3c000000008b48304502207f5779ebf4834feaeff4d250898324eb5c0833b16d7af4c1cb0f66f50fcf"
    "6e85022100b78a65377fd018281e77285efc31e5b9ba7cb7e20e015cf6b7fa3e4a466dd195014104072ad79e0aa38c05fa33"
    "dd185f84c17f611e58a8658ce996d8b04395b99c7be36529cab7606900a0cd5a7aebc6b233ea8e0fe60943054c63620e05e5"
    "b85f0426ffffffff02404b4c00000000001976a914d4caa8447532ca8ee4c80a1ae1d230a01e22bfdb88ac8013a0de010000"
    "001976a9149661a79ae1f6d487af3420c13e649d6df3747fc288ac00000000"
)

# BIP143 worked examples ("Native P2WPKH", "P2SH-P2WPKH", "Native P2WSH" first example): unsigned / signed
BIP143_U0 = (
    "0100000002fff7f7881a8099afa6940d42d1e7f6362bec38171ea3edf433541db4e4ad969f0000000000eeffffffef51e1b8"
    "04cc89d182d279655c3aa89e815b1b309fe287d9b2b55d57b90ec68a0100000000ffffffff02202cb206000000001976a914"
    "8280b37df378db99f66f85c95a783a76ac7a6d5988ac9093510d000000001976a9143bde42dbee7e4dbe6a21b2d50ce2f016"
    "7faa815988ac11000000"
)
BIP143_S0 = (
    "01000000000102fff7f7881a8099afa6940d42d1e7f6362bec38171ea3edf433541db4e4ad969f0000000049483045022100"
    "8b9d1dc26ba6a9cb62127b02742fa9d754cd3bebf337f7a55d114c8e5cdd30be022040529b194ba3f9281a99f2b1c0a19c04"
    "89bc22ede944ccf4ecbab4cc618ef3ed01eeffffffef51e1b804cc89d182d279655c3aa89e815b1b309fe287d9b2b55d57b9"
    "0ec68a0100000000ffffffff02202cb206000000001976a9148280b37df378db99f66f85c95a783a76ac7a6d5988ac909351"
    "0d000000001976a9143bde42dbee7e4dbe6a21b2d50ce2f0167faa815988ac000247304402203609e17b84f6a7d30c80bfa6"
    "10b5b4542f32a8a0d5447a12fb1366d7f01cc44a0220573a954c4518331561406f90300e8f3358f51928d43c212a8caed02d"
    "e67eebee0121025476c2e83188368da1ff3e292e7acafcdb3566bb0ad253f62fc70f07aeee635711000000"
)
BIP143_U1 = (
    "0100000001db6b1b20aa0fd7b23880be2ecbd4a98130974cf4748fb66092ac4d3ceb1a54770100000000feffffff02b8b4eb"
    "0b000000001976a914a457b684d7f0d539a46a45bbc043f35b59d0d96388ac0008af2f000000001976a914fd270b1ee6abca"
    "ea97fea7ad0402e8bd8ad6d77c88ac92040000"
)
BIP143_S1 = (
    "01000000000101db6b1b20aa0fd7b23880be2ecbd4a98130974cf4748fb66092ac4d3ceb1a54770100000017160014790919"
    "72186c449eb1ded22b78e40d009bdf0089feffffff02b8b4eb0b000000001976a914a457b684d7f0d539a46a45bbc043f35b"
    "59d0d96388ac0008af2f000000001976a914fd270b1ee6abcaea97fea7ad0402e8bd8ad6d77c88ac02473044022047ac8e87"
    "8352d3ebbde1c94ce3a10d057c24175747116f8288e5d794d12d482f0220217f36a485cae903c713331d877c1f64677e3622"
    "ad4010726870540656fe9dcb012103ad1d8e89212f0b92c74d23bb710c00662ad1470198ac48c43f7d6f93a2a26873920400"
    "00"
)
BIP143_U2 = (
    "0100000002fe3dc9208094f3ffd12645477b3dc56f60ec4fa8e6f5d67c565d1c6b9216b36e0000000000ffffffff0815cf02"
    "0f013ed6cf91d29f4202e8a58726b1ac6c79da47c23d1bee0a6925f80000000000ffffffff0100f2052a010000001976a914"
    "a30741f8145e5acadf23f751864167f32e0963f788ac00000000"
)
BIP143_S2 = (
    "01000000000102fe3dc9208094f3ffd12645477b3dc56f60ec4fa8e6f5d67c565d1c6b9216b36e000000004847304402200a"
    "f4e47c9b9629dbecc21f73af989bdaa911f7e6f6c2e9394588a3aa68f81e9902204f3fcf6ade7e5abb1295b6774c8e0abd94"
    "ae62217367096bc02ee5e435b67da201ffffffff0815cf020f013ed6cf91d29f4202e8a58726b1ac6c79da47c23d1bee0a69"
    "25f80000000000ffffffff0100f2052a010000001976a914a30741f8145e5acadf23f751864167f32e0963f788ac00034730"
    "4402200de66acf4527789bfda55fc5459e214fa6083f936b430a762c629656216805ac0220396f550692cd347171cbc1ef1f"
    "51e15282e837bb2b30860dc77c8f78bc8501e503473044022027dc95ad6b740fe5129e7e62a75dd00f291a2aeb1200b84b09"
    "d9e3789406b6c002201a9ecd315dd6a0e632ab20bbb98948bc0c6fb204f2c286963bb48517a7058e27034721026dccc749ad"
    "c2a9d0d89497ac511f760f45c47dc5ed9cf352a58ac706453880aeadab210255a9626aebf5e29c0e6538428ba0d1dcf6ca98"
    "ffdf086aa8ced5e0d0215ea465ac00000000"
)


def _calibrate():
    # compact size: the four documented widths and their boundaries
    assert compact_size(0) == b"\x00" and compact_size(0xFC) == b"\xfc"
    assert compact_size(0xFD) == b"\xfd\xfd\x00" and compact_size(0xFFFF) == b"\xfd\xff\xff"
    assert compact_size(0x10000) == b"\xfe\x00\x00\x01\x00" and compact_size(0xFFFFFFFF) == b"\xfe\xff\xff\xff\xff"
    assert compact_size(0x100000000) == b"\xff\x00\x00\x00\x00\x01\x00\x00\x00"
    # developer-reference examples: 515 -> fd0302, 106 -> 6a
    assert compact_size(515) == bytes.fromhex("fd0302") and compact_size(106) == b"\x6a"
    for v in (0, 1, 0xFC, 0xFD, 0xFE, 0xFFFF, 0x10000, 0xFFFFFFFF, 0x100000000, 2**64 - 1):
        assert Reader(compact_size(v)).compact() == v

    # genesis block: header hash, coinbase txid == merkle root
    gh = bytes.fromhex(GENESIS_HEADER)
    h = parse_header(gh)
    assert ser_header(h) == gh
    assert header_hash(h)[::-1].hex() == "000000000019d6689c085ae165831e934ff763ae46a2a6c172b3f1b60a8ce26f"
    gtx = bytes.fromhex(GENESIS_TX)
    t = parse_tx(gtx)
    assert ser_tx(t) == gtx and ser_tx_legacy(t) == gtx
    assert txid(t) == "4a5e1e4baab89f3a32518a88c31bc87f618f76673e2cc77ab2127b7afdeda33b" == wtxid(t)
    assert tx_hash(t) == h["merkle"] == merkle_root([tx_hash(t)])
    assert ser_block(h, [t]) == gh + b"\x01" + gtx
    assert t["ins"][0]["prev"] == b"\0" * 32 and t["ins"][0]["index"] == 0xFFFFFFFF and t["outs"][0]["value"] == 50 * 10**8

    # a main-chain transaction with a known id (from the repo's tests)
    raw = bytes.fromhex(TX_E1A18B)
    t = parse_tx(raw)
    assert ser_tx(t) == raw
    assert txid(t) == "e1a18b843fc420734deeb68ff6df041a2585e1a0d7dbf3b82aab98291a6d9952"
    assert len(t["ins"]) == 1 and len(t["outs"]) == 2 and t["outs"][0]["value"] == 0x075bbb

    # block 80974: re-serialisation, merkle root over three txids (odd level), block id
    raw = bytes.fromhex(BLOCK_80974)
    h, txs = parse_block(raw)
    assert len(txs) == 3 and ser_block(h, txs) == raw
    assert merkle_root([tx_hash(t) for t in txs]) == h["merkle"]
    assert header_hash(h)[::-1].hex() == "0000000000089f7910f6755c10ea2795ec368a29b435d80770ad78493a6fecf1"

    # BIP143 examples: the signed (BIP144) forms re-serialise byte for byte; stripping the witness and
    # the signature scripts gives exactly the published unsigned transaction; txid ignores the witness
    for uh, sh, nin, wit_sizes in ((BIP143_U0, BIP143_S0, 2, [0, 2]), (BIP143_U1, BIP143_S1, 1, [2]),
                                   (BIP143_U2, BIP143_S2, 2, [0, 3])):
        u, s = bytes.fromhex(uh), bytes.fromhex(sh)
        tu, ts = parse_tx(u), parse_tx(s)
        assert ser_tx(tu) == u and ser_tx(ts) == s
        assert s[4:6] == b"\x00\x01" and u[4] == nin
        assert [len(i["witness"]) for i in ts["ins"]] == wit_sizes
        stripped = ser_tx_legacy(ts)
        assert stripped[4] == nin and len(stripped) < len(s)
        blank = {"version": ts["version"], "lock_time": ts["lock_time"], "outs": ts["outs"],
                 "ins": [dict(i, script=b"", witness=[]) for i in ts["ins"]]}
        assert ser_tx(blank) == u
        assert txid(ts) == sha256d(stripped)[::-1].hex() and wtxid(ts) == sha256d(s)[::-1].hex()
        assert txid(ts) != wtxid(ts) and txid(tu) == wtxid(tu)
    # a stack holding one empty item is a non-empty witness: extended form, "01 00"
    one = {"version": 2, "lock_time": 0, "outs": [], "ins": [{"prev": b"\x11" * 32, "index": 1, "script": b"", "sequence": 0,
                                                                  "witness": [b""]}]}
    assert ser_tx(one) == bytes.fromhex("02000000" "0001" "01" + "11" * 32 + "01000000" "00" "00000000" "00" "0100" "00000000")
    assert parse_tx(ser_tx(one)) == one

    # network address / inventory encodings (developer reference examples)
    a = {"services": 1, "ip": bytes([10, 0, 0, 1]), "port": 8333}
    assert ser_netaddr(a) == bytes.fromhex("0100000000000000" "00000000000000000000ffff0a000001" "208d")
    assert u48(0x0000010203040506 & (2**48 - 1)) == bytes.fromhex("060504030201")
    # developer reference "version" example (protocol 70002, /Satoshi:0.9.3/, height 329167, relay true)
    v = {"version": 70002, "services": 1, "timestamp": 0x545E8FBC, "nonce": 0x6517E68C5DB32E3B,
         "remote_address": {"services": 1, "ip": bytes([198, 27, 100, 9]), "port": 8333},
         "local_address": {"services": 1, "ip": bytes([203, 0, 113, 192]), "port": 8333},
         "subversion": b"/Satoshi:0.9.3/", "last_block_index": 329167, "relay": True}
    assert m_version(v) == bytes.fromhex(
        "72110100" "0100000000000000" "bc8f5e5400000000"
        "0100000000000000" "00000000000000000000ffffc61b6409" "208d"
        "0100000000000000" "00000000000000000000ffffcb0071c0" "208d"
        "3b2eb35d8ce61765" "0f2f5361746f7368693a302e392e332f" "cf050500" "01")
    assert m_version(dict(v, relay=None)) == m_version(v)[:-1] and m_version(dict(v, relay=False))[-1:] == b"\0"
    # developer reference "inv"-style entry and "getblocks"-shape
    assert m_inv({"items": [{"type": 1, "hash": b"\xaa" * 32}]}) == b"\x01" + b"\x01\0\0\0" + b"\xaa" * 32
    assert m_getblocks({"version": 70001, "hashes": [b"\x01" * 32, b"\x02" * 32], "hash_stop": b"\0" * 32}) == \
        bytes.fromhex("71110100" "02") + b"\x01" * 32 + b"\x02" * 32 + b"\0" * 32
    # BIP37 partial merkle tree: the builder must reproduce the merkle root when re-walked
    for n in (1, 2, 3, 4, 5, 7, 8, 9, 13):
        ids = [hashlib.sha256(b"leaf%d" % i).digest() for i in range(n)]
        for mask in (0, 1, (1 << n) - 1, 0b10110 & ((1 << n) - 1), 1 << (n - 1)):
            m = [bool(mask >> i & 1) for i in range(n)]
            hs, fl = partial_merkle_tree(ids, m)
            root, found = _pmt_extract(n, hs, fl)
            assert root == merkle_root(ids) and found == [ids[i] for i in range(n) if m[i]]
    # block 80974's tree as a filtered block matching the 2nd transaction
    ids = [tx_hash(t) for t in txs]
    hs, fl = partial_merkle_tree(ids, [False, True, False])
    assert _pmt_extract(3, hs, fl) == (h["merkle"], [ids[1]]) and fl == bytes([0b01011]) and len(hs) == 3


def _pmt_extract(n, hashes, flags):
    """BIP37 'Parsing a partial merkle tree object' (independent of the builder's recursion state)"""
    height = 0
    while (n + (1 << height) - 1) >> height > 1:
        height += 1
    bits = [(flags[i // 8] >> (i % 8)) & 1 for i in range(len(flags) * 8)]
    st = {"b": 0, "h": 0}
    found = []

    def walk(h, pos):
        parent = bits[st["b"]]
        st["b"] += 1
        if h == 0 or not parent:
            x = hashes[st["h"]]
            st["h"] += 1
            if h == 0 and parent:
                found.append(x)
            return x
        left = walk(h - 1, pos * 2)
        right = walk(h - 1, pos * 2 + 1) if pos * 2 + 1 < (n + (1 << (h - 1)) - 1) >> (h - 1) else left
        return sha256d(left + right)

    root = walk(height, 0)
    assert st["h"] == len(hashes) and (st["b"] + 7) // 8 == len(flags) and not any(bits[st["b"]:])
    return root, found


_calibrate()
