"""Bitcoin Core's test-vector script assembler (core_read.cpp ParseScript).  Imports nothing from pycoin."""
from .refvm import scriptnum_encode
from .refsighash import push_encoding

NAMES = {
    "0": 0x00, "FALSE": 0x00, "PUSHDATA1": 0x4c, "PUSHDATA2": 0x4d, "PUSHDATA4": 0x4e, "1NEGATE": 0x4f, "RESERVED": 0x50,
    "TRUE": 0x51, "NOP": 0x61, "VER": 0x62, "IF": 0x63, "NOTIF": 0x64, "VERIF": 0x65, "VERNOTIF": 0x66, "ELSE": 0x67,
    "ENDIF": 0x68, "VERIFY": 0x69, "RETURN": 0x6a, "TOALTSTACK": 0x6b, "FROMALTSTACK": 0x6c, "2DROP": 0x6d, "2DUP": 0x6e,
    "3DUP": 0x6f, "2OVER": 0x70, "2ROT": 0x71, "2SWAP": 0x72, "IFDUP": 0x73, "DEPTH": 0x74, "DROP": 0x75, "DUP": 0x76,
    "NIP": 0x77, "OVER": 0x78, "PICK": 0x79, "ROLL": 0x7a, "ROT": 0x7b, "SWAP": 0x7c, "TUCK": 0x7d, "CAT": 0x7e,
    "SUBSTR": 0x7f, "LEFT": 0x80, "RIGHT": 0x81, "SIZE": 0x82, "INVERT": 0x83, "AND": 0x84, "OR": 0x85, "XOR": 0x86,
    "EQUAL": 0x87, "EQUALVERIFY": 0x88, "RESERVED1": 0x89, "RESERVED2": 0x8a, "1ADD": 0x8b, "1SUB": 0x8c, "2MUL": 0x8d,
    "2DIV": 0x8e, "NEGATE": 0x8f, "ABS": 0x90, "NOT": 0x91, "0NOTEQUAL": 0x92, "ADD": 0x93, "SUB": 0x94, "MUL": 0x95,
    "DIV": 0x96, "MOD": 0x97, "LSHIFT": 0x98, "RSHIFT": 0x99, "BOOLAND": 0x9a, "BOOLOR": 0x9b, "NUMEQUAL": 0x9c,
    "NUMEQUALVERIFY": 0x9d, "NUMNOTEQUAL": 0x9e, "LESSTHAN": 0x9f, "GREATERTHAN": 0xa0, "LESSTHANOREQUAL": 0xa1,
    "GREATERTHANOREQUAL": 0xa2, "MIN": 0xa3, "MAX": 0xa4, "WITHIN": 0xa5, "RIPEMD160": 0xa6, "SHA1": 0xa7, "SHA256": 0xa8,
    "HASH160": 0xa9, "HASH256": 0xaa, "CODESEPARATOR": 0xab, "CHECKSIG": 0xac, "CHECKSIGVERIFY": 0xad,
    "CHECKMULTISIG": 0xae, "CHECKMULTISIGVERIFY": 0xaf, "NOP1": 0xb0, "CHECKLOCKTIMEVERIFY": 0xb1, "NOP2": 0xb1,
    "CHECKSEQUENCEVERIFY": 0xb2, "NOP3": 0xb2, "NOP4": 0xb3, "NOP5": 0xb4, "NOP6": 0xb5, "NOP7": 0xb6, "NOP8": 0xb7,
    "NOP9": 0xb8, "NOP10": 0xb9, "INVALIDOPCODE": 0xff,
}
for _i in range(1, 17):
    NAMES[str(_i)] = 0x50 + _i


def push_int(n):
    if n == -1 or 1 <= n <= 16:
        return bytes([n + 0x50])
    if n == 0:
        return b"\x00"
    return push_encoding(scriptnum_encode(n))


def parse_script(s):
    out = bytearray()
    for w in s.replace("\t", " ").replace("\n", " ").split(" "):
        if not w:
            continue
        if w.isdigit() or (w.startswith("-") and len(w) > 1 and w[1:].isdigit()):
            out += push_int(int(w))
        elif w.startswith("0x") and len(w) > 2 and all(c in "0123456789abcdefABCDEF" for c in w[2:]):
            out += bytes.fromhex(w[2:])
        elif len(w) >= 2 and w[0] == "'" and w[-1] == "'":
            out += push_encoding(w[1:-1].encode())
        else:
            name = w[3:] if w.startswith("OP_") else w
            if name not in NAMES or name.isdigit() and not w.startswith("OP_") :
                raise ValueError("script parse error: %r" % w)
            out.append(NAMES[name])
    return bytes(out)
