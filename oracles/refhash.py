"""Reference hash primitives.  Imports nothing from pycoin.

* MurmurHash3 x86_32 written from Austin Appleby's MurmurHash3.cpp (every intermediate masked to 32 bits)
* BIP37 Bloom filter bit addressing (CBloomFilter::Hash / insert / contains)
* RIPEMD-160, SHA-256 compositions: hashlib (OpenSSL), checked against the RIPEMD-160 paper vectors
"""
import hashlib

M32 = 0xFFFFFFFF
BIP37_MULT = 0xFBA4C795


def _rotl32(x, r):
    return ((x << r) | (x >> (32 - r))) & M32


def murmur3_x86_32(data: bytes, seed: int) -> int:
    """seed is a uint32_t in the C code: callers with a wider value get it truncated"""
    c1 = 0xcc9e2d51
    c2 = 0x1b873593
    h1 = seed & M32
    nblocks = len(data) // 4
    for i in range(nblocks):
        k1 = int.from_bytes(data[4 * i:4 * i + 4], "little")
        k1 = (k1 * c1) & M32
        k1 = _rotl32(k1, 15)
        k1 = (k1 * c2) & M32
        h1 ^= k1
        h1 = _rotl32(h1, 13)
        h1 = (h1 * 5 + 0xe6546b64) & M32
    tail = data[4 * nblocks:]
    k1 = 0
    if len(tail) >= 3:
        k1 ^= tail[2] << 16
    if len(tail) >= 2:
        k1 ^= tail[1] << 8
    if len(tail) >= 1:
        k1 ^= tail[0]
        k1 = (k1 * c1) & M32
        k1 = _rotl32(k1, 15)
        k1 = (k1 * c2) & M32
        h1 ^= k1
    h1 ^= len(data) & M32
    h1 ^= h1 >> 16
    h1 = (h1 * 0x85ebca6b) & M32
    h1 ^= h1 >> 13
    h1 = (h1 * 0xc2b2ae35) & M32
    h1 ^= h1 >> 16
    return h1


def murmur3_collision_partner(data: bytes, seed: int, block: int, new_word: int):
    """a different byte string of the same length with the same MurmurHash3 value under `seed`: block `block` (a full
    4-byte block followed by another full block) is replaced by new_word and the next block compensates - the per-block
    mixing k -> rotl(k*c1, 15)*c2 is a bijection on 32-bit words.  None when data has fewer than two full blocks."""
    c1, c2 = 0xcc9e2d51, 0x1b873593
    nblocks = len(data) // 4
    if nblocks < 2:
        return None
    i = block % (nblocks - 1)

    def mix(k):
        return (_rotl32((k * c1) & M32, 15) * c2) & M32

    def unmix(m):
        k = (m * pow(c2, -1, 1 << 32)) & M32
        k = _rotl32(k, 17)                      # inverse of rotl 15
        return (k * pow(c1, -1, 1 << 32)) & M32

    def step(h, k):
        h ^= mix(k)
        h = _rotl32(h, 13)
        return (h * 5 + 0xe6546b64) & M32
    h = seed & M32
    for j in range(i):
        h = step(h, int.from_bytes(data[4 * j:4 * j + 4], "little"))
    k_i = int.from_bytes(data[4 * i:4 * i + 4], "little")
    k_n = int.from_bytes(data[4 * i + 4:4 * i + 8], "little")
    new_word &= M32
    if new_word == k_i:
        new_word ^= 1
    h_old, h_new = step(h, k_i), step(h, new_word)
    # want  h_new ^ mix(k_n') == h_old ^ mix(k_n)
    k_n2 = unmix(mix(k_n) ^ h_old ^ h_new)
    out = data[:4 * i] + new_word.to_bytes(4, "little") + k_n2.to_bytes(4, "little") + data[4 * i + 8:]
    assert out != data and murmur3_x86_32(out, seed) == murmur3_x86_32(data, seed)
    return out


def murmur3_preimage4(target: int, seed: int) -> bytes:
    """the 4-byte string whose MurmurHash3 (x86, 32 bit) value under `seed` is `target`: every step of the hash of a
    single full block is a bijection on 32-bit words"""
    c1, c2 = 0xcc9e2d51, 0x1b873593
    inv = lambda m: pow(m, -1, 1 << 32)
    h = target & M32
    h ^= h >> 16
    h = (h * inv(0xc2b2ae35)) & M32
    h ^= (h >> 13) ^ (h >> 26)
    h = (h * inv(0x85ebca6b)) & M32
    h ^= h >> 16
    h ^= 4
    h = ((h - 0xe6546b64) * inv(5)) & M32
    h = _rotl32(h, 19)
    k = h ^ (seed & M32)
    k = (k * inv(c2)) & M32
    k = _rotl32(k, 17)
    k = (k * inv(c1)) & M32
    out = k.to_bytes(4, "little")
    assert murmur3_x86_32(out, seed & M32) == target & M32
    return out


def bip37_bit_indexes(item: bytes, size_bytes: int, nfuncs: int, tweak: int):
    """CBloomFilter::Hash for nHashNum in 0..nfuncs-1: MurmurHash3(nHashNum * 0xFBA4C795 + nTweak, item) % (size*8);
    the seed arithmetic is unsigned 32-bit"""
    return [murmur3_x86_32(item, (n * BIP37_MULT + tweak) & M32) % (size_bytes * 8) for n in range(nfuncs)]


def bip37_insert(bitmap: bytearray, item: bytes, nfuncs: int, tweak: int):
    """vData[nIndex >> 3] |= (1 << (7 & nIndex))"""
    for idx in bip37_bit_indexes(item, len(bitmap), nfuncs, tweak):
        bitmap[idx >> 3] |= 1 << (7 & idx)


def bip37_contains(bitmap: bytes, item: bytes, nfuncs: int, tweak: int) -> bool:
    return all(bitmap[idx >> 3] & (1 << (7 & idx)) for idx in bip37_bit_indexes(item, len(bitmap), nfuncs, tweak))


def ripemd160(data: bytes) -> bytes:
    return hashlib.new("ripemd160", data).digest()


def sha256(data: bytes) -> bytes:
    return hashlib.sha256(data).digest()


def hash160(data: bytes) -> bytes:
    return ripemd160(sha256(data))


def double_sha256(data: bytes) -> bytes:
    return sha256(sha256(data))


def fill_bytes(n: int, fill: str) -> bytes:
    """deterministic message contents named in cases: 'zeros', 'ff', 'counter', 'prng:<k>' (SHA-256 in counter mode)"""
    if fill == "zeros":
        return bytes(n)
    if fill == "ff":
        return b"\xff" * n
    if fill == "counter":
        return bytes(i & 0xff for i in range(n))
    if fill.startswith("prng:"):
        key = fill.encode()
        out = bytearray()
        ctr = 0
        while len(out) < n:
            out += hashlib.sha256(key + ctr.to_bytes(8, "big")).digest()
            ctr += 1
        return bytes(out[:n])
    raise ValueError(fill)


def _calibrate():
    # Bitcoin Core src/test/hash_tests.cpp (murmurhash3): T(expected, seed, data)
    core = [(0x00000000, 0x00000000, ""), (0x6a396f08, 0xFBA4C795, ""), (0x81f16f39, 0xffffffff, ""),
            (0x514e28b7, 0x00000000, "00"), (0xea3f0b17, 0xFBA4C795, "00"), (0xfd6cf10d, 0x00000000, "ff"),
            (0x16c6b7ab, 0x00000000, "0011"), (0x8eb51c3d, 0x00000000, "001122"), (0xb4471bf8, 0x00000000, "00112233"),
            (0xe2301fa8, 0x00000000, "0011223344"), (0xfc2e4a15, 0x00000000, "001122334455"),
            (0xb074502c, 0x00000000, "00112233445566"), (0x8034d2a0, 0x00000000, "0011223344556677"),
            (0xb4698def, 0x00000000, "001122334455667788")]
    for exp, seed, h in core:
        assert murmur3_x86_32(bytes.fromhex(h), seed) == exp, (h, seed)
    # widely published x86_32 vectors (SMHasher verification thread / Wikipedia test table)
    pub = [(b"", 0, 0), (b"", 1, 0x514E28B7), (b"", 0xffffffff, 0x81F16F39), (b"\xff\xff\xff\xff", 0, 0x76293B50),
           (b"\x21\x43\x65\x87", 0, 0xF55B516B), (b"\x21\x43\x65\x87", 0x5082EDEE, 0x2362F9DE),
           (b"\x21\x43\x65", 0, 0x7E4A8634), (b"\x21\x43", 0, 0xA0F7B07A), (b"\x21", 0, 0x72661CF4),
           (b"\0\0\0\0", 0, 0x2362F9DE), (b"\0\0\0", 0, 0x85F0B427), (b"\0\0", 0, 0x30F4C306), (b"\0", 0, 0x514E28B7),
           (b"test", 0, 0xba6bd213), (b"Hello, world!", 0, 0xc0363e43),
           (b"The quick brown fox jumps over the lazy dog", 0x9747b28c, 0x2FA826CD)]
    for data, seed, exp in pub:
        assert murmur3_x86_32(data, seed) == exp, (data, seed)
    # Bitcoin Core bloom_tests.cpp: bloom_create_insert_serialize (+ _with_tweaks): 3-byte filter, 5 functions
    items = ["99108ad8ed9bb6274d3980bab5a85c048f0950c8", "b5a2c786d9ef4658287ced5914b37a1b4aa32eee",
             "b9300670b4c5366e95b2699e8b18bc75e5f729c5"]
    for tweak, exp in ((0, "614e9b"), (2147483649, "ce4299")):
        bm = bytearray(3)
        for it in items:
            bip37_insert(bm, bytes.fromhex(it), 5, tweak)
            assert bip37_contains(bm, bytes.fromhex(it), 5, tweak)
        assert bm.hex() == exp, (tweak, bm.hex())
    assert not bip37_contains(bytes.fromhex("614e9b"), bytes.fromhex("19108ad8ed9bb6274d3980bab5a85c048f0950c8"), 5, 0)
    # RIPEMD-160 paper vectors (Dobbertin, Bosselaers, Preneel) for the hashlib binding
    rv = [(b"", "9c1185a5c5e9fc54612808977ee8f548b2258d31"), (b"a", "0bdc9d2d256b3ee9daae347be6f4dc835a467ffe"),
          (b"abc", "8eb208f7e05d987a9b044a8e98c6b087f15a0bfc"), (b"message digest", "5d0689ef49d2fae572b881b123a85ffa21595f36"),
          (b"abcdefghijklmnopqrstuvwxyz", "f71c27109c692c1b56bbdceb5b9d2865b3708dbc"),
          (b"abcdbcdecdefdefgefghfghighijhijkijkljklmklmnlmnomnopnopq", "12a053384a9c0c88e405a06c27dcf49ada62eb2b"),
          (b"1234567890" * 8, "9b752e45573d4b39f4dbd3323cab82bf63326bfb")]
    for m, h in rv:
        assert ripemd160(m).hex() == h
    # hash160 of the generator's compressed SEC = the well-known address payload 751e76e8...
    assert hash160(bytes.fromhex("0279be667ef9dcbbac55a06295ce870b07029bfcdb2dce28d959f2815b16f81798")).hex() == \
        "751e76e8199196d454941c45d1b3a323f1433bd6"
    assert fill_bytes(5, "counter") == bytes([0, 1, 2, 3, 4]) and len(fill_bytes(100, "prng:3")) == 100


_calibrate()
