"""Reference address / key-text model used by C08 and C18.  Imports nothing from pycoin.

Written from BIP13/16 (P2SH), BIP141/173/350 (witness programs), BIP341 (P2TR output form), the Bitcoin wiki
pages "Technical background of version 1 Bitcoin addresses" and "Wallet import format", and BIP32 (78-byte
extended-key serialisation).  Script templates are produced and recognised at byte level; nothing here
knows about pycoin's template matcher or its script compiler.
"""
import hashlib

from . import refenc, refec

N = refec.SECP256K1.n
P = refec.SECP256K1.p


def hash160(b):
    return hashlib.new("ripemd160", hashlib.sha256(b).digest()).digest()


# ------------------------------------------------------------------------------------------------ scripts

OP_0, OP_1, OP_16, OP_DUP, OP_EQUAL, OP_EQUALVERIFY, OP_HASH160, OP_CHECKSIG, OP_CHECKMULTISIG, OP_RETURN = (
    0x00, 0x51, 0x60, 0x76, 0x87, 0x88, 0xa9, 0xac, 0xae, 0x6a)


def push(data, form="min"):
    """push of `data`; form: min (shortest), pd1, pd2, pd4 (explicit PUSHDATAn)"""
    n = len(data)
    if form == "min":
        if n == 0:
            return b"\x00"
        if n == 1 and 1 <= data[0] <= 16:
            return bytes([0x50 + data[0]])
        if n == 1 and data[0] == 0x81:
            return b"\x4f"
        if n <= 75:
            return bytes([n]) + data
        if n <= 255:
            return b"\x4c" + bytes([n]) + data
        if n <= 65535:
            return b"\x4d" + n.to_bytes(2, "little") + data
        return b"\x4e" + n.to_bytes(4, "little") + data
    if form == "direct":
        assert 1 <= n <= 75
        return bytes([n]) + data
    if form == "pd1":
        return b"\x4c" + bytes([n]) + data
    if form == "pd2":
        return b"\x4d" + n.to_bytes(2, "little") + data
    if form == "pd4":
        return b"\x4e" + n.to_bytes(4, "little") + data
    raise ValueError(form)


def p2pkh_script(h):
    return bytes([OP_DUP, OP_HASH160, 20]) + h + bytes([OP_EQUALVERIFY, OP_CHECKSIG])


def p2sh_script(h):
    return bytes([OP_HASH160, 20]) + h + bytes([OP_EQUAL])


def witness_script(ver, prog):
    return bytes([0 if ver == 0 else 0x50 + ver, len(prog)]) + prog


def script_for(kind, h):
    if kind == "p2pkh":
        return p2pkh_script(h)
    if kind == "p2sh":
        return p2sh_script(h)
    if kind == "p2wpkh" or kind == "p2wsh":
        return witness_script(0, h)
    if kind == "p2tr":
        return witness_script(1, h)
    raise ValueError(kind)


HASHLEN = {"p2pkh": 20, "p2sh": 20, "p2wpkh": 20, "p2wsh": 32, "p2tr": 32}
WITVER = {"p2wpkh": 0, "p2wsh": 0, "p2tr": 1}


def strict_kind(script):
    """(kind, hash) when the script is byte-for-byte one of the five address templates, else None"""
    s = script
    if len(s) == 25 and s[:3] == b"\x76\xa9\x14" and s[23:] == b"\x88\xac":
        return "p2pkh", s[3:23]
    if len(s) == 23 and s[:2] == b"\xa9\x14" and s[22:] == b"\x87":
        return "p2sh", s[2:22]
    if len(s) == 22 and s[:2] == b"\x00\x14":
        return "p2wpkh", s[2:]
    if len(s) == 34 and s[:2] == b"\x00\x20":
        return "p2wsh", s[2:]
    if len(s) == 34 and s[:2] == b"\x51\x20":
        return "p2tr", s[2:]
    return None


def multisig_script(m_op, keys, n_op, key_forms=None, tail=b""):
    """m_op / n_op are raw opcode bytes (ints) so that non-OP_n counts can be expressed"""
    out = bytes([m_op])
    for i, k in enumerate(keys):
        out += push(k, (key_forms or {}).get(i, "min"))
    return out + bytes([n_op, OP_CHECKMULTISIG]) + tail


def parse_script(script):
    """[(opcode, data-or-None, minimal?)] or None when a push is truncated"""
    out = []
    i = 0
    while i < len(script):
        op = script[i]
        i += 1
        if op == 0:
            out.append((op, b"", True))
            continue
        if op <= 75:
            n = op
            hdr = 0
        elif op in (0x4c, 0x4d, 0x4e):
            hdr = {0x4c: 1, 0x4d: 2, 0x4e: 4}[op]
            if i + hdr > len(script):
                return None
            n = int.from_bytes(script[i:i + hdr], "little")
            i += hdr
        else:
            out.append((op, None, True))
            continue
        if i + n > len(script):
            return None
        d = script[i:i + n]
        i += n
        out.append((op, d, push(d) == script[i - n - hdr - 1:i]))
    return out


# ------------------------------------------------------------------------------------------------ addresses


def b58_address(prefix, h):
    return refenc.b58check_encode(prefix + h)


def segwit_address(hrp, ver, prog):
    return refenc.segwit_encode(hrp, ver, prog)


def address_for(kind, h, prefixes):
    """prefixes: dict with optional keys address, p2sh (bytes) and hrp (str).  None when undefined."""
    if kind == "p2pkh":
        return None if prefixes.get("address") is None else b58_address(prefixes["address"], h)
    if kind == "p2sh":
        return None if prefixes.get("p2sh") is None else b58_address(prefixes["p2sh"], h)
    if prefixes.get("hrp") is None:
        return None
    return segwit_address(prefixes["hrp"], WITVER[kind], h)


def pubkey(secret):
    x, y = refec.SECP256K1.mul_fast(secret, refec.SECP256K1.G)
    return x, y


def sec(pt, compressed):
    return refenc.sec_encode(pt[0], pt[1], compressed)


def sec_decode(blob):
    return refenc.sec_decode_strict(blob, P, 0, 7)


# ------------------------------------------------------------------------------------------------ WIF / BIP32


def wif_decode_payload(payload):
    """payload = bytes after the network prefix.  Returns (secret, compressed) or a reason string."""
    if len(payload) == 32:
        comp = False
    elif len(payload) == 33:
        if payload[32] != 1:
            return "flag"
        comp = True
    else:
        return "length"
    k = int.from_bytes(payload[:32], "big")
    if not 1 <= k < N:
        return "range"
    return k, comp


def bip32_body(depth, fingerprint, index, chain, secret=None, pub=None):
    """74 bytes following the 4 version bytes"""
    key = b"\0" + secret.to_bytes(32, "big") if secret is not None else sec(pub, True)
    return bytes([depth]) + fingerprint + index.to_bytes(4, "big") + chain + key


def bip32_decode_body(body):
    """body = bytes after the 4-byte version.  dict of fields, or a reason string"""
    if len(body) != 74:
        return "length"
    d = {"depth": body[0], "fingerprint": body[1:5], "index": int.from_bytes(body[5:9], "big"), "chain": body[9:41]}
    kd = body[41:]
    if kd[0] == 0:
        k = int.from_bytes(kd[1:], "big")
        if not 1 <= k < N:
            return "range"
        d["secret"] = k
        d["pub"] = pubkey(k)
    elif kd[0] in (2, 3):
        pt = sec_decode(kd)
        if pt is None:
            return "badpoint"
        d["secret"] = None
        d["pub"] = (pt[0], pt[1])
    else:
        return "keyprefix"
    return d


# ------------------------------------------------------------------------------------------------ calibration


def _calibrate():
    h2b = bytes.fromhex
    # Bitcoin wiki, "Technical background of version 1 Bitcoin addresses" (2019 revision)
    pk = h2b("0250863ad64a87ae8a2fe83c1af1a8403cb53f53e486d8511dad8a04887e5b2352")
    assert hash160(pk) == h2b("f54a5851e9372b87810a8e60cdd2e7cfd80b6e31")
    assert b58_address(b"\0", hash160(pk)) == "1PMycacnJaSqwwJqjawXBErnLsZ7RkXUAs"
    # Bitcoin wiki, "Wallet import format"
    wif = "5HueCGU8rMjxEXxiPuD5BDku4MkFqeZyd4dZ1jvhTVqvbTLvyTJ"
    data = refenc.b58check_decode(wif)
    assert data[:1] == b"\x80"
    assert wif_decode_payload(data[1:]) == (0x0C28FCA386C7A227600B2FE50B7CAE11EC86D3BF1FBE471BE89827E19D72AA1D, False)
    assert wif_decode_payload(data[1:] + b"\2") == "flag" and wif_decode_payload(data[1:-1]) == "length"
    assert wif_decode_payload(b"\0" * 32) == "range" and wif_decode_payload(N.to_bytes(32, "big")) == "range"
    # BIP173: key 0279BE66..., P2WPKH and P2WSH(key CHECKSIG) addresses on mainnet and testnet
    g = h2b("0279be667ef9dcbbac55a06295ce870b07029bfcdb2dce28d959f2815b16f81798")
    assert sec(pubkey(1), True) == g
    assert segwit_address("bc", 0, hash160(g)) == "bc1qw508d6qejxtdg4y5r3zarvary0c5xw7kv8f3t4"
    assert segwit_address("tb", 0, hash160(g)) == "tb1qw508d6qejxtdg4y5r3zarvary0c5xw7kxpjzsx"
    ws = push(g) + bytes([OP_CHECKSIG])
    assert segwit_address("bc", 0, hashlib.sha256(ws).digest()) == "bc1qrp33g0q5c5txsp9arysrx4k6zdkfs4nce4xj0gdcccefvpysxf3qccfmv3"
    assert witness_script(0, hash160(g)) == h2b("0014751e76e8199196d454941c45d1b3a323f1433bd6")
    # BIP350 vector: v1 program = x(G)
    assert segwit_address("bc", 1, g[1:]) == "bc1p0xlxvlhemja6c4dqv22uapctqupfhlxm9h8z3k2e72q4k9hcz7vqzk5jj0"
    assert witness_script(1, g[1:]) == h2b("5120" + g[1:].hex())
    # BIP49 test vector (testnet): account 0 first receiving key
    k49 = 0xc9bdb49cfbaedca21c4b1f3a7803c34636b1d7dc55a717132443fc3f4c5867e8
    p49 = sec(pubkey(k49), True)
    assert p49 == h2b("03a1af804ac108a8a51782198c2d034b28bf90c8803f5a53f76276fa69a4eae77f")
    assert hash160(p49) == h2b("38971f73930f6c141d977ac4fd4a727c854935b3")
    redeem = witness_script(0, hash160(p49))
    assert hash160(redeem) == h2b("336caa13e08b96080a32b5d818d59b4ab3b36742")
    assert b58_address(h2b("c4"), hash160(redeem)) == "2Mww8dCYPUpKHofjgcXcBCEGmniw9CoaiD2"
    # BIP84 test vector: m/84'/0'/0'/0/0
    p84 = h2b("0330d54fd0dd420a6e5f8d3624f5f3482cae350f79d5f0753bf5beef9c2d91af3c")
    assert segwit_address("bc", 0, hash160(p84)) == "bc1qcr8te4kr609gcawutmrza0j4xv80jy8z306fyu"
    # BIP16 example-style P2SH script / BIP13 version byte 5
    assert p2sh_script(b"\x11" * 20) == h2b("a914" + "11" * 20 + "87") and b58_address(b"\5", b"\0" * 20)[0] == "3"
    assert p2pkh_script(b"\x22" * 20) == h2b("76a914" + "22" * 20 + "88ac")
    for kind in HASHLEN:
        hh = bytes(range(HASHLEN[kind]))
        assert strict_kind(script_for(kind, hh)) == (kind, hh)
    assert strict_kind(h2b("76a94c14" + "22" * 20 + "88ac")) is None
    # BIP32 test vector 1, chain m and m/0H
    xprv = "xprv9s21ZrQH143K3QTDL4LXw2F7HEK3wJUD2nW2nRk4stbPy6cq3jPPqjiChkVvvNKmPGJxWUtg6LnF5kejMRNNU3TGtRBeJgk33yuGBxrMPHi"
    raw = refenc.b58check_decode(xprv)
    assert len(raw) == 78 and raw[:4] == h2b("0488ade4")
    d = bip32_decode_body(raw[4:])
    assert d["depth"] == 0 and d["index"] == 0 and d["fingerprint"] == b"\0" * 4
    assert d["chain"] == h2b("873dff81c02f525623fd1fe5167eac3a55a049de3d314bb42ee227ffed37d508")
    assert d["secret"] == 0xe8f32e723decf4051aefac8e2c93c9c5b214313817cdb01a1494b917c8436b35
    xpub = "xpub68Gmy5EdvgibQVfPdqkBBCHxA5htiqg55crXYuXoQRKfDBFA1WEjWgP6LHhwBZeNK1VTsfTFUHCdrfp1bgwQ9xv5ski8PX9rL2dZXvgGDnw"
    raw = refenc.b58check_decode(xpub)
    d = bip32_decode_body(raw[4:])
    assert raw[:4] == h2b("0488b21e") and d["depth"] == 1 and d["index"] == 0x80000000 and d["secret"] is None
    assert sec(d["pub"], True) == h2b("035a784662a4a20a65bf6aab9ae98a6c068a81c52e4b032c0fb5400c706cfccc56")
    assert bip32_body(1, d["fingerprint"], d["index"], d["chain"], pub=d["pub"]) == raw[4:]
    assert bip32_decode_body(raw[4:-1]) == "length" and bip32_decode_body(raw[4:45] + b"\5" + raw[46:]) == "keyprefix"
    # script walker
    assert parse_script(h2b("76a94c14" + "22" * 20 + "88ac"))[2] == (0x4c, b"\x22" * 20, False)
    assert parse_script(h2b("0201")) is None and parse_script(h2b("4c")) is None
    assert [m for _, _, m in parse_script(h2b("0101" "0181" "00" "4f" "0150"))] == [False, False, True, True, True]


_calibrate()
