"""Arithmetic reference for C13 (value conservation in transaction construction); imports nothing from pycoin.

* split(): what create_tx must do with the value not claimed by fixed outputs and the fee.
* exact rational BTC / mBTC conversions and their canonical decimal strings.
* P2PKH address + script for a 20-byte hash (Base58Check from refenc) so outputs can be identified.
"""
from fractions import Fraction

from . import refenc

SATOSHI_PER_BTC = 10 ** 8
SATOSHI_PER_MBTC = 10 ** 5
MAX_MONEY = 21 * 10 ** 14


def split(inputs_total, fixed_total, fee, k):
    """Values of the k unspecified outputs in order, or None when construction has to fail.

    R = inputs - fixed - fee is shared as equally as possible; every unspecified output must be positive, so
    R < k (including R < 0) is 'insufficient funds'.  The first R mod k outputs get one satoshi more.
    k == 0: nothing to distribute and (by the property's wording) nothing is asserted about sufficiency.
    """
    if k == 0:
        return []
    r_total = inputs_total - fixed_total - fee
    if r_total < k:
        return None
    q, r = divmod(r_total, k)
    return [q + 1] * r + [q] * (k - r)


def p2pkh(h160, version=b"\x00"):
    assert len(h160) == 20
    return refenc.b58check_encode(version + h160), b"\x76\xa9\x14" + h160 + b"\x88\xac"


def btc_fraction(n):
    return Fraction(n, SATOSHI_PER_BTC)


def mbtc_fraction(n):
    return Fraction(n, SATOSHI_PER_MBTC)


def fixed_point(n, decimals):
    """exact decimal string of n / 10**decimals with all decimals written out"""
    assert n >= 0
    whole, frac = divmod(n, 10 ** decimals)
    return "%d.%0*d" % (whole, decimals, frac)


def short_point(n, decimals):
    """the same without trailing zeros (and without the point for integers)"""
    s = fixed_point(n, decimals).rstrip("0")
    return s[:-1] if s.endswith(".") else s


def _calibrate():
    assert split(10, 0, 0, 3) == [4, 3, 3] and split(10, 1, 0, 3) == [3, 3, 3] and split(10, 0, 2, 3) == [3, 3, 2]
    assert split(3, 0, 0, 3) == [1, 1, 1] and split(2, 0, 0, 3) is None and split(4, 0, 0, 3) == [2, 1, 1]
    assert split(5, 5, 1, 1) is None and split(5, 4, 1, 1) is None and split(5, 3, 1, 1) == [1]
    assert split(5, 9, 0, 0) == [] and split(100, 0, 0, 1) == [100]
    for total in range(0, 40):
        for k in range(1, 7):
            s = split(total, 0, 0, k)
            if total < k:
                assert s is None
            else:
                assert sum(s) == total and max(s) - min(s) <= 1 and min(s) >= 1 and s == sorted(s, reverse=True)
    addr, script = p2pkh(bytes.fromhex("010966776006953D5567439E5E39F86A0D273BEE"))
    assert addr == "16UwLL9Risc3QfPqBUvKofHmBQ7wMtjvM" and script.hex() == "76a914010966776006953d5567439e5e39f86a0d273bee88ac"
    assert fixed_point(1, 8) == "0.00000001" and fixed_point(MAX_MONEY, 8) == "21000000.00000000" and fixed_point(0, 8) == "0.00000000"
    assert short_point(150000000, 8) == "1.5" and short_point(100000000, 8) == "1" and short_point(0, 5) == "0" and short_point(12, 5) == "0.00012"
    assert btc_fraction(150000000) == Fraction(3, 2) and mbtc_fraction(1) == Fraction(1, 100000)


_calibrate()
