"""Reference model for C14; imports nothing from pycoin.

* Bitcoin merkle root (pairwise SHA256d, last element of an odd level paired with itself).
* BIP37 partial merkle tree: builder and verifier transliterated from Bitcoin Core's
  CPartialMerkleTree (CalcTreeWidth / CalcHash / TraverseAndBuild / TraverseAndExtract / ExtractMatches).
* 80-byte header, legacy / BIP144 transaction, block and merkleblock-message serialisers written with struct from
  the protocol documentation.

Calibrated at import on the genesis block (coinbase txid, merkle root, header hash), the roots of blocks 71043
and 71038, the Bitcoin developer reference merkleblock example (block with 7 transactions), and
builder-then-verifier identity on every tree width up to 64 leaves.
"""
import hashlib
import struct


def sha256d(b):
    return hashlib.sha256(hashlib.sha256(b).digest()).digest()


# --------------------------------------------------------------------------------------------- merkle root


def merkle_root(hashes):
    """hashes: non-empty list of 32-byte strings"""
    level = list(hashes)
    assert level
    while len(level) > 1:
        if len(level) & 1:
            level.append(level[-1])
        level = [sha256d(level[i] + level[i + 1]) for i in range(0, len(level), 2)]
    return level[0]


# --------------------------------------------------------------------------------------------- serialisers


def compact_size(n):
    if n < 0xfd:
        return struct.pack("<B", n)
    if n <= 0xffff:
        return b"\xfd" + struct.pack("<H", n)
    if n <= 0xffffffff:
        return b"\xfe" + struct.pack("<I", n)
    return b"\xff" + struct.pack("<Q", n)


def var_bytes(b):
    return compact_size(len(b)) + b


def ser_tx(version, ins, outs, lock_time, witnesses=None):
    """ins: [(prev_hash32, prev_index, script_sig, sequence)], outs: [(value, script_pubkey)],
    witnesses: None (legacy form) or one list of byte strings per input (BIP144 form)"""
    out = struct.pack("<I", version)
    if witnesses is not None:
        out += b"\x00\x01"
    out += compact_size(len(ins))
    for h, i, s, q in ins:
        assert len(h) == 32
        out += h + struct.pack("<I", i) + var_bytes(s) + struct.pack("<I", q)
    out += compact_size(len(outs))
    for v, s in outs:
        out += struct.pack("<Q", v) + var_bytes(s)
    if witnesses is not None:
        assert len(witnesses) == len(ins)
        for stack in witnesses:
            out += compact_size(len(stack))
            for item in stack:
                out += var_bytes(item)
    out += struct.pack("<I", lock_time)
    return out


def txid(version, ins, outs, lock_time):
    """hash in internal byte order (the order used inside merkle trees); witness data never contributes"""
    return sha256d(ser_tx(version, ins, outs, lock_time))


def ser_header(version, prev_hash, merkle, timestamp, bits, nonce):
    assert len(prev_hash) == 32 and len(merkle) == 32
    return struct.pack("<I32s32sIII", version, prev_hash, merkle, timestamp, bits, nonce)


def header_hash(header80):
    assert len(header80) == 80
    return sha256d(header80)


def header_id(header80):
    return header_hash(header80)[::-1].hex()


def ser_block(header80, tx_blobs):
    return header80 + compact_size(len(tx_blobs)) + b"".join(tx_blobs)


def ser_merkleblock(header80, total, hashes, flag_bytes):
    return (header80 + struct.pack("<I", total) + compact_size(len(hashes)) + b"".join(hashes)
            + compact_size(len(flag_bytes)) + bytes(flag_bytes))


# --------------------------------------------------------------------------------------------- BIP37 tree


def bits_to_bytes(bits):
    out = bytearray((len(bits) + 7) // 8)
    for p, b in enumerate(bits):
        if b:
            out[p // 8] |= 1 << (p % 8)
    return bytes(out)


def bytes_to_bits(data):
    return [(data[p // 8] >> (p % 8)) & 1 for p in range(8 * len(data))]


class PartialMerkleTree:
    def __init__(self, n_transactions, bits=None, hashes=None):
        self.n = n_transactions
        self.bits = list(bits or [])
        self.hashes = list(hashes or [])
        self.bad = False

    # -- shared
    def calc_tree_width(self, height):
        return (self.n + (1 << height) - 1) >> height

    def height(self):
        h = 0
        while self.calc_tree_width(h) > 1:
            h += 1
        return h

    # -- building
    def _calc_hash(self, height, pos, txids, memo):
        key = (height, pos)
        if key not in memo:
            if height == 0:
                memo[key] = txids[pos]
            else:
                left = self._calc_hash(height - 1, pos * 2, txids, memo)
                if pos * 2 + 1 < self.calc_tree_width(height - 1):
                    right = self._calc_hash(height - 1, pos * 2 + 1, txids, memo)
                else:
                    right = left
                memo[key] = sha256d(left + right)
        return memo[key]

    def _traverse_and_build(self, height, pos, txids, match, memo):
        parent_of_match = False
        p = pos << height
        while p < ((pos + 1) << height) and p < self.n:
            parent_of_match = parent_of_match or bool(match[p])
            p += 1
        self.bits.append(1 if parent_of_match else 0)
        if height == 0 or not parent_of_match:
            self.hashes.append(self._calc_hash(height, pos, txids, memo))
        else:
            self._traverse_and_build(height - 1, pos * 2, txids, match, memo)
            if pos * 2 + 1 < self.calc_tree_width(height - 1):
                self._traverse_and_build(height - 1, pos * 2 + 1, txids, match, memo)

    @classmethod
    def build(cls, txids, match):
        assert len(txids) == len(match) and txids
        t = cls(len(txids))
        t._traverse_and_build(t.height(), 0, txids, match, {})
        return t

    # -- verifying
    def _traverse_and_extract(self, height, pos, st, matched, indices):
        if st[0] >= len(self.bits):
            self.bad = True
            return b"\0" * 32
        parent_of_match = self.bits[st[0]]
        st[0] += 1
        if height == 0 or not parent_of_match:
            if st[1] >= len(self.hashes):
                self.bad = True
                return b"\0" * 32
            h = self.hashes[st[1]]
            st[1] += 1
            if height == 0 and parent_of_match:
                matched.append(h)
                indices.append(pos)
            return h
        left = self._traverse_and_extract(height - 1, pos * 2, st, matched, indices)
        if pos * 2 + 1 < self.calc_tree_width(height - 1):
            right = self._traverse_and_extract(height - 1, pos * 2 + 1, st, matched, indices)
            if right == left:
                self.bad = True          # CVE-2012-2459 guard
        else:
            right = left
        return sha256d(left + right)

    def extract_matches(self, max_transactions=4000000 // 60):
        """(root, matched_hashes, indices, bits_used) or None.  self.bits must be the bits of whole flag bytes."""
        self.bad = False
        if self.n == 0 or self.n > max_transactions:
            return None
        if len(self.hashes) > self.n:
            return None
        if len(self.bits) < len(self.hashes):
            return None
        st = [0, 0]
        matched, indices = [], []
        root = self._traverse_and_extract(self.height(), 0, st, matched, indices)
        if self.bad:
            return None
        if (st[0] + 7) // 8 != (len(self.bits) + 7) // 8:
            return None
        if st[1] != len(self.hashes):
            return None
        return root, matched, indices, st[0]


def verify_proof(header_root, total, hashes, flag_bytes, refuse_set_padding=True):
    """matched txids (in block order) or None.  refuse_set_padding: additionally refuse proofs in which a flag bit
    after the last consumed one is 1 (C14 states this; Core itself only refuses whole surplus bytes)."""
    t = PartialMerkleTree(total, bytes_to_bits(flag_bytes), hashes)
    r = t.extract_matches()
    if r is None:
        return None
    root, matched, _idx, used = r
    if root != header_root:
        return None
    if refuse_set_padding and any(t.bits[used:]):
        return None
    return matched


def build_proof(txids, match):
    """(hashes, flag_bytes, n_bits) of the honest proof"""
    t = PartialMerkleTree.build(txids, match)
    return t.hashes, bits_to_bytes(t.bits), len(t.bits)


# --------------------------------------------------------------------------------------------- calibration

GENESIS_HEADER = bytes.fromhex(
    "01000000" + "00" * 32 + "3ba3edfd7a7b12b27ac72c3e67768f617fc81bc3888a51323a9fb8aa4b1e5e4a" + "29ab5f49" "ffff001d" "1dac2b7c")
GENESIS_ID = "000000000019d6689c085ae165831e934ff763ae46a2a6c172b3f1b60a8ce26f"
GENESIS_COINBASE = dict(
    version=1,
    ins=[(b"\0" * 32, 0xffffffff, bytes.fromhex(
        "04ffff001d0104455468652054696d65732030332f4a616e2f32303039204368616e63656c6c6f72206f6e206272696e6b206f66"
        "207365636f6e64206261696c6f757420666f722062616e6b73"), 0xffffffff)],
    outs=[(50 * 10 ** 8, bytes.fromhex(
        "4104678afdb0fe5548271967f1a67130b7105cd6a828e03909a67962e0ea1f61deb649f6bc3f4cef38c4f35504e51ec112de5c38"
        "4df7ba0b8d578a4c702b6bf11d5fac"))],
    lock_time=0)

DEVREF_MERKLEBLOCK = bytes.fromhex(
    "01000000" "82bb869cf3a793432a66e826e05a6fc37469f8efb7421dc88067010000000000"
    "7f16c5962e8bd963659c793ce370d95f093bc7e367117b3c30c1f8fdd0d97287" "76381b4d" "4c86041b" "554b8529"
    "07000000" "04"
    "3612262624047ee87660be1a707519a443b1c1ce3d248cbfc6c15870f6c5daa2"
    "019f5b01d4195ecbc9398fbf3c3b1fa9bb3183301d7a1fb3bd174fcfa40a2b65"
    "41ed70551dd7e841883ab8f0b16bf04176b7d1480e4f0af9f3d4c3595768d068"
    "20d2a7bc994987302e5b1ac80fc425fe25f8b63169ea78e68fbaaefa59379bbf"
    "01" "1d")


def _rev(hexstr):
    return bytes.fromhex(hexstr)[::-1]


def _calibrate():
    # genesis block: coinbase txid == merkle root, header hash, block bytes
    cb = GENESIS_COINBASE
    tid = txid(cb["version"], cb["ins"], cb["outs"], cb["lock_time"])
    assert tid[::-1].hex() == "4a5e1e4baab89f3a32518a88c31bc87f618f76673e2cc77ab2127b7afdeda33b"
    assert merkle_root([tid]) == GENESIS_HEADER[36:68]
    assert header_id(GENESIS_HEADER) == GENESIS_ID
    assert ser_header(1, b"\0" * 32, tid, 1231006505, 0x1d00ffff, 2083236893) == GENESIS_HEADER
    blk = ser_block(GENESIS_HEADER, [ser_tx(cb["version"], cb["ins"], cb["outs"], cb["lock_time"])])
    assert len(blk) == 285 and blk[80] == 1
    # block 71043 (2 transactions) and 71038 (3 transactions)
    assert merkle_root([_rev("67ffe41e53534805fb6883b4708fd3744358f99e99bc52111e7a17248effebee"),
                        _rev("c8b336acfc22d66edf6634ce095b888fe6d16810d9c85aff4d6641982c2499d1")]) == \
        _rev("30325a06daadcefb0a3d1fe0b6112bb6dfef794316751afc63f567aef94bd5c8")
    assert merkle_root([_rev("f484b014c55a43b409a59de3177d49a88149b4473f9a7b81ea9e3535d4b7a301"),
                        _rev("7b5636e9bc6ec910157e88702699bc7892675e8b489632c9166764341a4d4cfe"),
                        _rev("f8b02b8bf25cb6008e38eb5453a22c502f37e76375a86a0f0cfaa3c301aa1209")]) == \
        _rev("4f4c8c201e85a64a410cc7272c77f443d8b8df3289c67af9dab1e87d9e61985e")
    # BIP144 form: marker/flag and witness do not change the txid; serialisation layout
    w = ser_tx(2, [(b"\x11" * 32, 1, b"", 0xfffffffe)], [(5, b"\x51")], 7, witnesses=[[b"\xaa", b""]])
    assert w == bytes.fromhex("02000000" "0001" "01" + "11" * 32 + "01000000" "00" "feffffff" "01" "0500000000000000" "0151"
                              "02" "01aa" "00" "07000000")
    assert compact_size(252) == b"\xfc" and compact_size(253) == b"\xfd\xfd\x00" and compact_size(65536) == b"\xfe\x00\x00\x01\x00"
    # developer-reference merkleblock message: verifier alone (independent of the builder)
    m = DEVREF_MERKLEBLOCK
    hdr, total, nh = m[:80], struct.unpack("<I", m[80:84])[0], m[84]
    hashes = [m[85 + 32 * i: 85 + 32 * i + 32] for i in range(nh)]
    flags = m[85 + 32 * nh + 1:]
    assert total == 7 and nh == 4 and flags == b"\x1d" and m[85 + 32 * nh] == 1
    assert verify_proof(hdr[36:68], total, hashes, flags) == [hashes[1]]
    assert ser_merkleblock(hdr, total, hashes, flags) == m
    assert verify_proof(hdr[36:68], total, hashes, b"\x9d") is None                  # set padding bit
    assert verify_proof(hdr[36:68], total, hashes, b"\x9d", refuse_set_padding=False) == [hashes[1]]
    assert verify_proof(hdr[36:68], total, hashes, b"\x1d\x00") is None              # surplus flag byte
    assert verify_proof(hdr[36:68], total, hashes + [hashes[0]], flags) is None      # surplus hash
    assert verify_proof(hdr[36:68], total, hashes[:-1], flags) is None
    # (a different transaction count with the same tree height is not necessarily refused: with 8 instead of 7 this
    #  proof never descends into the node whose shape differs - the count is not bound by the proof)
    assert verify_proof(hdr[36:68], 8, hashes, flags) == [hashes[1]] and verify_proof(hdr[36:68], 9, hashes, flags) is None
    # builder then verifier is the identity, every width <= 64
    for n in range(1, 65):
        txids = [hashlib.sha256(b"leaf%d/%d" % (n, i)).digest() for i in range(n)]
        root = merkle_root(txids)
        patterns = [[0] * n, [1] * n, [i & 1 for i in range(n)], [1 if i == n - 1 else 0 for i in range(n)],
                    [1 if (i * 7 + n) % 5 == 0 else 0 for i in range(n)], [1 if i < n // 2 else 0 for i in range(n)]]
        if n <= 6:
            patterns = [[(mask >> i) & 1 for i in range(n)] for mask in range(1 << n)]
        elif n <= 24 or n in (31, 32, 33, 63, 64):
            patterns += [[1 if i == j else 0 for i in range(n)] for j in range(n)]
        for match in patterns:
            hashes, flags, nbits = build_proof(txids, match)
            want = [t for t, mt in zip(txids, match) if mt]
            assert verify_proof(root, n, hashes, flags) == want, (n, match)
            assert len(hashes) <= n and nbits >= len(hashes)
        # an empty match set is proved by the root alone; a full one by all leaves
        assert build_proof(txids, [0] * n)[0] == [root]
        assert build_proof(txids, [1] * n)[0] == txids


_calibrate()
